/-
C17 — the mask collators emit well-formed, budget-respecting, non-overlapping masks.

DINO (`Model/Masks.lean`, namespace `Dino`): `blockLoop` mirrors `_mask_block`, `genLoop` mirrors `_generate_mask`, `collate`
mirrors `collate`. The tape is arbitrary in every DINO theorem: whatever block sizes the float front end produces and whatever
locations are drawn, the statements hold (a location outside the grid makes the run fail with `index`, as in Python).
I-JEPA (namespace `Ijepa`): `sampleBlock`, `constrainedLoop`, `collate` mirror `_sample_block_mask`,
`_sample_block_mask_constrained`, `collate`; a run is `ok` only if every draw respected the contract of `rng.integers(0, n)`.
-/
import KDVerif.Lemmas.MasksDino
import KDVerif.Lemmas.MasksIjepaSpec

namespace KDVerif.C17
open KDVerif.Masks

/-! ## DINO -/
section dino
open KDVerif.Masks.Dino

/-- one `_mask_block` call, for **every** proposal tape: the mask gains exactly the reported `delta` cells and `delta`
    never exceeds the remaining budget handed in -/
theorem mask_block_within_remaining (H W rem : Nat) (m : Mask) (tape : List Proposal) (tr : List Tr) (r : BlockRes)
    (h : maskBlock H W rem m tape tr = .ok r) : count r.mask = count m + r.delta ∧ r.delta ≤ rem := by
  obtain ⟨h1, h2, _⟩ := blockLoop_inv H W rem 10 m 0 tape tr r h
  exact ⟨by omega, by omega⟩

/-- **Budget invariant.** `_generate_mask`, for every proposal tape: the masked count grows by exactly the reported
    `num_masked_patches`, which never exceeds `num_masked_patches_total` -/
theorem mask_count_le_budget (H W total : Nat) (m : Mask) (tape : List Proposal) (r : GenRes)
    (h : generateMask H W total m tape = .ok r) : count r.mask = count m + r.done ∧ r.done ≤ total := by
  obtain ⟨h1, h2, _⟩ := genLoop_inv H W total (total + 1) m 0 tape [] r h (Nat.zero_le _)
  exact ⟨by omega, h2⟩

example : generateMask 4 4 5 (zeros 4 4) [⟨5, 1, 0, 0⟩, ⟨2, 2, 1, 1⟩, ⟨3, 3, 0, 0⟩, ⟨1, 2, 1, 0⟩, ⟨2, 2, 0, 0⟩, ⟨1, 1, 3, 3⟩] =
    .ok ⟨[[false, false, false, false], [true, true, true, false], [false, true, true, false], [false, false, false, false]], 5,
      [⟨2, 2, 0, 0⟩, ⟨1, 1, 3, 3⟩], [.req 3 3, .block 5 4, .req 2 2, .req 4 3, .block 1 1]⟩ := by rfl

/-- floor arithmetic of the front end: `u ≤ ratio_max` (as fractions `a/b ≤ p/q`) gives
    `floor(u * HW) ≤ floor(ratio_max * HW)` -/
theorem total_le_upper (a b p q HW : Nat) (hb : 0 < b) (hq : 0 < q) (hle : a * q ≤ p * b) :
    a * HW / b ≤ p * HW / q := by
  rw [Nat.le_div_iff_mul_le hq]
  have h1 : a * HW / b * b ≤ a * HW := Nat.div_mul_le_self _ _
  have h2 : a * HW / b * q * b ≤ p * HW * b := by
    calc a * HW / b * q * b = a * HW / b * b * q := by rw [Nat.mul_right_comm]
      _ ≤ a * HW * q := Nat.mul_le_mul_right q h1
      _ = a * q * HW := by rw [Nat.mul_right_comm]
      _ ≤ p * b * HW := Nat.mul_le_mul_right HW hle
      _ = p * HW * b := by rw [Nat.mul_right_comm]
  exact Nat.le_of_mul_le_mul_right h2 hb

/-- **Upper ratio.** A generated mask never has more masked patches than any cap on its target; with the target
    `floor(u * H*W)`, `u ≤ ratio_max = p/q`, that is `floor(ratio_max * H*W)` -/
theorem mask_le_upper_ratio (H W : Nat) (tape : List Proposal) (r : GenRes) (a b p q : Nat) (hb : 0 < b) (hq : 0 < q)
    (hu : a * q ≤ p * b) (h : generateMask H W (a * (H * W) / b) (zeros H W) tape = .ok r) :
    count r.mask ≤ p * (H * W) / q := by
  obtain ⟨h1, h2⟩ := mask_count_le_budget H W _ _ tape r h
  rw [count_zeros] at h1
  have := total_le_upper a b p q (H * W) hb hq hu
  omega

example : (3 : Nat) * 2 ≤ 1 * 7 ∧ 3 * (4 * 4) / 7 = 6 ∧ 1 * (4 * 4) / 2 = 8 := by decide

/-- **The outer loop terminates**: with the fuel `total + 1` the model never reports `outOfFuel`, for every tape
    (each successful round masks at least one new patch) -/
theorem generate_terminates (H W total : Nat) (m : Mask) (tape : List Proposal) :
    generateMask H W total m tape ≠ .error .outOfFuel :=
  genLoop_terminates H W total (total + 1) m 0 tape [] (by omega)

/-- **Shape.** A generated mask is an `H x W` grid -/
theorem mask_shape (H W total : Nat) (tape : List Proposal) (r : GenRes)
    (h : generateMask H W total (zeros H W) tape = .ok r) : WellShaped H W r.mask :=
  (genLoop_inv H W total (total + 1) _ 0 tape [] r h (Nat.zero_le _)).2.2 (wellShaped_zeros H W)

/-- **The shuffle is a permutation** of the generated-then-empty list, for every permutation the generator draws -/
theorem shuffle_perm {β : Type} (batch : β) (H W n k : Nat) (gens : List Gen) (perm : List Nat) (o : Out β)
    (h : collate batch H W n k gens perm = .ok o) (hp : perm.Perm (List.range n)) :
    o.masks.Perm (o.gens.map GenRes.mask ++ List.replicate (n - k) (zeros H W)) ∧ o.masks.length = n := by
  obtain ⟨hl, hk, hg, _, hm⟩ := collate_unfold h
  have hlen : (o.gens.map GenRes.mask ++ List.replicate (n - k) (zeros H W)).length = n := by
    have := (generateAll_spec H W gens o.gens hg).1
    simp only [List.length_append, List.length_map, List.length_replicate]
    omega
  have hperm := applyPerm_perm perm (o.gens.map GenRes.mask ++ List.replicate (n - k) (zeros H W)) (by rw [hlen]; exact hp)
  rw [hm]
  exact ⟨hperm, by rw [hperm.length_eq, hlen]⟩

/-- **One mask per view-sample, each of the grid size, each within every cap on the targets** -/
theorem collate_masks_shape_and_budget {β : Type} (batch : β) (H W n k : Nat) (gens : List Gen) (perm : List Nat) (o : Out β)
    (h : collate batch H W n k gens perm = .ok o) (cap : Nat) (hcap : ∀ g ∈ gens, g.total ≤ cap) :
    ∀ m ∈ o.masks, WellShaped H W m ∧ count m ≤ cap := by
  obtain ⟨hl, hk, hg, _, hm⟩ := collate_unfold h
  obtain ⟨sl, sg⟩ := generateAll_spec H W gens o.gens hg
  intro m hmem
  rw [hm] at hmem
  have hmem' := mem_applyPerm hmem
  simp only [List.mem_append, List.mem_map, List.mem_replicate] at hmem'
  rcases hmem' with ⟨r, hr, rfl⟩ | ⟨_, rfl⟩
  · obtain ⟨i, hi, rfl⟩ := List.getElem_of_mem hr
    have hgi : i < gens.length := by omega
    have hgen := sg i hi hgi
    obtain ⟨c1, c2⟩ := mask_count_le_budget H W _ _ _ _ hgen
    rw [count_zeros] at c1
    have := hcap gens[i] (List.getElem_mem hgi)
    exact ⟨mask_shape H W _ _ _ hgen, by omega⟩
  · exact ⟨wellShaped_zeros H W, by rw [count_zeros]; exact Nat.zero_le _⟩

/-- **At most `numMasked = floor(B * V * p)` masks are non-empty** -/
theorem nonempty_masks_le_numMasked {β : Type} (batch : β) (H W n k : Nat) (gens : List Gen) (perm : List Nat) (o : Out β)
    (h : collate batch H W n k gens perm = .ok o) (hp : perm.Perm (List.range n)) :
    o.masks.countP (fun m => decide (count m ≠ 0)) ≤ k := by
  obtain ⟨hperm, _⟩ := shuffle_perm batch H W n k gens perm o h hp
  obtain ⟨hl, hk, hg, _, _⟩ := collate_unfold h
  have sl := (generateAll_spec H W gens o.gens hg).1
  rw [hperm.countP_eq, List.countP_append, List.countP_replicate]
  calc _ ≤ (o.gens.map GenRes.mask).length + 0 :=
        Nat.add_le_add List.countP_le_length (by simp [count_zeros])
    _ ≤ k := by simp only [List.length_map]; omega

/-- **Batch data passes through unchanged** -/
theorem dino_batch_passthrough {β : Type} (batch : β) (H W n k : Nat) (gens : List Gen) (perm : List Nat) (o : Out β)
    (h : collate batch H W n k gens perm = .ok o) : o.batch = batch := (collate_unfold h).2.2.2.1

example : (collate "batch" 2 3 3 1 [⟨2, [⟨1, 2, 1, 0⟩]⟩] [2, 0, 1]).map (fun o => (o.batch, o.masks)) =
    .ok ("batch", [zeros 2 3, [[false, false, false], [true, true, false]], zeros 2 3]) := by rfl

end dino

/-! ## I-JEPA -/
section ijepa
open KDVerif.Masks.Ijepa

variable {β : Type}

/-- every mask sampled in an `ok` run is strictly increasing and below `H * W` -/
theorem sampled_masks_sorted_inrange (c : Cfg) (p e : Nat × Nat) (s : SampleMasks) (hs : SampleOk c p e s) :
    (∀ b ∈ s.preds, b.idx.Pairwise (· < ·) ∧ ∀ k ∈ b.idx, k < c.H * c.W) ∧
    (∀ m ∈ s.encs, m.1.Pairwise (· < ·) ∧ ∀ k ∈ m.1, k < c.H * c.W) := by
  obtain ⟨_, hp, _, he, _⟩ := hs
  constructor
  · intro b hb
    obtain ⟨top, left, _, _, rfl⟩ := hp b hb
    refine ⟨nonzero_sorted _, fun k hk => ?_⟩
    have := nonzero_lt _ k hk
    rwa [rectFlat_length] at this
  · intro m hm
    obtain ⟨top, left, _, _, hidx, _⟩ := he m hm
    rw [hidx]
    refine ⟨nonzero_sorted _, fun k hk => ?_⟩
    have h1 := nonzero_lt _ k hk
    have h2 := constrainedMask_length_le c e.1 e.2 (s.preds.map Block.compl) m.2 top left
    omega

/-- **Indices are sorted, duplicate-free and in range — also after the truncation**: every row of
    `ctx["predictor_masks"]` and `ctx["encoder_masks"]` is strictly increasing and below `H * W` -/
theorem indices_sorted_dupfree_inrange (batch : β) (c : Cfg) (sizes : Int → Rounded) (counter : Int) (B : Nat)
    (tape : List Nat) (o : Out β) (h : collate batch c sizes counter B tape = .ok o) :
    ∀ row ∈ o.predRows ++ o.encRows, row.Pairwise (· < ·) ∧ ∀ k ∈ row, k < c.H * c.W := by
  obtain ⟨_, _, _, _, _, hs, hpr, her⟩ := collate_ok h
  intro row hrow
  simp only [List.mem_append] at hrow
  rcases hrow with hrow | hrow
  · rw [hpr] at hrow
    obtain ⟨ms, hms, m, hm, rfl⟩ := mem_layout hrow
    simp only [List.mem_map] at hms
    obtain ⟨s, hsm, rfl⟩ := hms
    simp only [List.mem_map] at hm
    obtain ⟨b, hb, rfl⟩ := hm
    obtain ⟨h1, h2⟩ := (sampled_masks_sorted_inrange c _ _ s (hs s hsm)).1 b hb
    exact ⟨take_sorted _ h1, fun k hk => h2 k (List.mem_of_mem_take hk)⟩
  · rw [her] at hrow
    obtain ⟨ms, hms, m, hm, rfl⟩ := mem_layout hrow
    simp only [List.mem_map] at hms
    obtain ⟨s, hsm, rfl⟩ := hms
    simp only [List.mem_map] at hm
    obtain ⟨en, hen, rfl⟩ := hm
    obtain ⟨h1, h2⟩ := (sampled_masks_sorted_inrange c _ _ s (hs s hsm)).2 en hen
    exact ⟨take_sorted _ h1, fun k hk => h2 k (List.mem_of_mem_take hk)⟩

/-- a predictor block drawn inside the contract is the full `h x w` rectangle at `(top, left)` -/
theorem pred_block_is_rectangle (c : Cfg) (h w : Nat) (b : Block) (hb : IsPredBlock c h w b) :
    ∃ top left, top + h ≤ c.H ∧ left + w ≤ c.W ∧ b.idx.length = h * w ∧
      ∀ k, k ∈ b.idx ↔ k < c.H * c.W ∧ inRect c.W top left h w k = true := by
  obtain ⟨top, left, ht, hl, rfl⟩ := hb
  refine ⟨top, left, by omega, by omega, ?_, fun k => mem_rect _ _ _ _ _ _ k⟩
  simp only [sampleBlock]
  rw [nonzero_length, cnt_rectFlat _ _ _ _ _ _ (by omega) (by omega)]

/-- **Predictor masks are rectangles of one common size per batch.** In an `ok` run with at least one sample and one
    predictor mask, every row of `ctx["predictor_masks"]` is — untruncated — the full `ph x pw` rectangle at some position
    inside the grid, `(ph, pw)` being the batch's predictor block size -/
theorem pred_masks_rectangles_common_size (batch : β) (c : Cfg) (sizes : Int → Rounded) (counter : Int) (B : Nat)
    (tape : List Nat) (o : Out β) (h : collate batch c sizes counter B tape = .ok o) (hB : 0 < B) (hn : 0 < c.nPred) :
    ∀ row ∈ o.predRows, ∃ top left, top + o.predSize.1 ≤ c.H ∧ left + o.predSize.2 ≤ c.W ∧
      row.length = o.predSize.1 * o.predSize.2 ∧
      ∀ k, k ∈ row ↔ k < c.H * c.W ∧ inRect c.W top left o.predSize.1 o.predSize.2 k = true := by
  obtain ⟨_, _, hps, _, hlen, hs, hpr, _⟩ := collate_ok h
  rw [← hps] at hs
  -- all sampled predictor masks have `ph * pw` entries
  have hall : ∀ m ∈ (o.samples.map (fun s => s.preds.map Block.idx)).flatten, m.length = o.predSize.1 * o.predSize.2 := by
    intro m hm
    simp only [List.mem_flatten, List.mem_map] at hm
    obtain ⟨ms, ⟨s, hsm, rfl⟩, hm⟩ := hm
    simp only [List.mem_map] at hm
    obtain ⟨b, hb, rfl⟩ := hm
    obtain ⟨_, _, _, _, hl, _⟩ := pred_block_is_rectangle c _ _ b ((hs s hsm).2.1 b hb)
    exact hl
  -- there is one, and it fits the grid
  obtain ⟨s0, hs0⟩ : ∃ s0, s0 ∈ o.samples := by
    cases hsm : o.samples with
    | nil => rw [hsm] at hlen; simp at hlen; omega
    | cons s0 _ => exact ⟨s0, by simp⟩
  obtain ⟨b0, hb0⟩ : ∃ b0, b0 ∈ s0.preds := by
    have := (hs s0 hs0).1
    cases hsp : s0.preds with
    | nil => rw [hsp] at this; simp at this; omega
    | cons b0 _ => exact ⟨b0, by simp⟩
  have hne : (o.samples.map (fun s => s.preds.map Block.idx)).flatten ≠ [] := by
    intro hnil
    have : b0.idx ∈ (o.samples.map (fun s => s.preds.map Block.idx)).flatten := by
      simp only [List.mem_flatten, List.mem_map]
      exact ⟨s0.preds.map Block.idx, ⟨s0, hs0, rfl⟩, by simp only [List.mem_map]; exact ⟨b0, hb0, rfl⟩⟩
    rw [hnil] at this; simp at this
  have hfit : o.predSize.1 * o.predSize.2 ≤ c.H * c.W := by
    obtain ⟨top, left, h1, h2, _, _⟩ := pred_block_is_rectangle c _ _ b0 ((hs s0 hs0).2.1 b0 hb0)
    exact Nat.mul_le_mul (by omega) (by omega)
  have hk := minLen_const _ (c.H * c.W) _ hall hfit hne
  intro row hrow
  rw [hpr, hk] at hrow
  obtain ⟨ms, hms, m, hm, rfl⟩ := mem_layout hrow
  simp only [List.mem_map] at hms
  obtain ⟨s, hsm, rfl⟩ := hms
  simp only [List.mem_map] at hm
  obtain ⟨b, hb, rfl⟩ := hm
  obtain ⟨top, left, h1, h2, hl, hmem⟩ := pred_block_is_rectangle c _ _ b ((hs s hsm).2.1 b hb)
  have htake : b.idx.take (o.predSize.1 * o.predSize.2) = b.idx := List.take_of_length_le (by omega)
  rw [htake]
  exact ⟨top, left, h1, h2, hl, hmem⟩

/-- **Encoder masks (and predictor masks) have one common length per batch** -/
theorem enc_common_length (batch : β) (c : Cfg) (sizes : Int → Rounded) (counter : Int) (B : Nat)
    (tape : List Nat) (o : Out β) (h : collate batch c sizes counter B tape = .ok o) :
    (∃ L, ∀ row ∈ o.encRows, row.length = L) ∧ (∃ L, ∀ row ∈ o.predRows, row.length = L) := by
  obtain ⟨_, _, _, _, _, _, hpr, her⟩ := collate_ok h
  constructor
  · refine ⟨minLen (c.H * c.W) (o.samples.map (fun s => s.encs.map Prod.fst)).flatten, ?_⟩
    intro row hrow
    rw [her] at hrow
    obtain ⟨ms, hms, m, hm, rfl⟩ := mem_layout hrow
    have hmem : m ∈ (o.samples.map (fun s => s.encs.map Prod.fst)).flatten := List.mem_flatten.2 ⟨ms, hms, hm⟩
    have := (minLen_le _ (c.H * c.W)).2 m hmem
    rw [List.length_take]; omega
  · refine ⟨minLen (c.H * c.W) (o.samples.map (fun s => s.preds.map Block.idx)).flatten, ?_⟩
    intro row hrow
    rw [hpr] at hrow
    obtain ⟨ms, hms, m, hm, rfl⟩ := mem_layout hrow
    have hmem : m ∈ (o.samples.map (fun s => s.preds.map Block.idx)).flatten := List.mem_flatten.2 ⟨ms, hms, hm⟩
    have := (minLen_le _ (c.H * c.W)).2 m hmem
    rw [List.length_take]; omega

/-- an encoder mask accepted while all constraints are active (`tries // self.tries = 0`) contains no cell of any of the
    sample's predictor blocks; prefixes (the truncation) inherit this -/
theorem enc_disjoint_when_all_constraints_active (c : Cfg) (p e : Nat × Nat) (s : SampleMasks) (hs : SampleOk c p e s)
    (m : List Nat × Nat) (hm : m ∈ s.encs) (ht : m.2 / c.tries = 0) (b : Block) (hb : b ∈ s.preds) (n n' k : Nat)
    (hk : k ∈ m.1.take n) : k ∉ b.idx.take n' := by
  obtain ⟨_, hp, _, he, _⟩ := hs
  obtain ⟨top, left, _, _, hidx, _⟩ := he m hm
  obtain ⟨ptop, pleft, _, _, rfl⟩ := hp b hb
  have hk' : k ∈ m.1 := List.mem_of_mem_take hk
  rw [hidx, mem_nonzero] at hk'
  unfold constrainedMask at hk'
  rw [ht, Nat.sub_zero, List.take_length] at hk'
  obtain ⟨_, hall⟩ := foldl_mulFlat_getElem?_true _ _ k hk'
  have hreg := hall (sampleBlock c p.1 p.2 ptop pleft).compl (by simp only [List.mem_map]; exact ⟨_, hb, rfl⟩)
  intro hkb
  have hkb' := List.mem_of_mem_take hkb
  simp only [sampleBlock] at hreg hkb'
  rw [mem_rect] at hkb'
  rw [complFlat_getElem?] at hreg
  simp only [hkb'.1, if_true, Option.some.injEq, Bool.not_eq_true'] at hreg
  rw [hreg] at hkb'
  simp at hkb'

/-- **Under the margin the first proposal is accepted with all constraints active**: when
    `encH * encW - nPred * predH * predW > min_keep`, no encoder mask of the batch needed a second try -/
theorem first_try_accepts (batch : β) (c : Cfg) (sizes : Int → Rounded) (counter : Int) (B : Nat)
    (tape : List Nat) (o : Out β) (h : collate batch c sizes counter B tape = .ok o)
    (hmargin : o.encSize.1 * o.encSize.2 - c.nPred * (o.predSize.1 * o.predSize.2) > c.minKeep) :
    ∀ s ∈ o.samples, ∀ m ∈ s.encs, m.2 = 0 := by
  obtain ⟨_, _, hps, hes, _, hs, _, _⟩ := collate_ok h
  rw [← hps, ← hes] at hs
  intro s hsm
  obtain ⟨hpl, hp, _, _, h0⟩ := hs s hsm
  apply h0
  intro top left htop hleft
  rw [nonzero_length]
  unfold constrainedMask
  simp only [Nat.zero_div, Nat.sub_zero, List.take_length]
  -- count(block ∩ complements) ≥ count(block) - Σ count(predictor blocks)
  have hlen : ∀ r ∈ s.preds.map Block.compl, r.length = (rectFlat c.H c.W top left o.encSize.1 o.encSize.2).length := by
    intro r hr
    simp only [List.mem_map] at hr
    obtain ⟨b, hb, rfl⟩ := hr
    obtain ⟨pt, pl, _, _, rfl⟩ := hp b hb
    simp [sampleBlock, complFlat_length, rectFlat_length]
  have hbound := cnt_foldl_mulFlat (s.preds.map Block.compl) _ hlen
  rw [cnt_rectFlat _ _ _ _ _ _ (by omega) (by omega)] at hbound
  have hsum : ((s.preds.map Block.compl).map cntF).sum = s.preds.length * (o.predSize.1 * o.predSize.2) := by
    have : ∀ (bs : List Block), (∀ b ∈ bs, IsPredBlock c o.predSize.1 o.predSize.2 b) →
        ((bs.map Block.compl).map cntF).sum = bs.length * (o.predSize.1 * o.predSize.2) := by
      intro bs
      induction bs with
      | nil => intro _; simp
      | cons b bs ih =>
        intro hall
        obtain ⟨pt, pl, h1, h2, rfl⟩ := hall b (by simp)
        simp only [List.map_cons, List.sum_cons, List.length_cons, ih (fun b' hb' => hall b' (by simp [hb']))]
        simp only [sampleBlock, cntF_complFlat]
        rw [cnt_rectFlat _ _ _ _ _ _ (by omega) (by omega), Nat.add_mul]
        omega
    exact this s.preds hp
  rw [hsum, hpl] at hbound
  omega

/-- **Encoder masks do not intersect the same sample's predictor masks** under the property's margin condition -/
theorem enc_disjoint_from_pred (batch : β) (c : Cfg) (sizes : Int → Rounded) (counter : Int) (B : Nat)
    (tape : List Nat) (o : Out β) (h : collate batch c sizes counter B tape = .ok o)
    (hmargin : o.encSize.1 * o.encSize.2 - c.nPred * (o.predSize.1 * o.predSize.2) > c.minKeep) :
    ∀ s ∈ o.samples, ∀ m ∈ s.encs, ∀ b ∈ s.preds, ∀ (n n' k : Nat), k ∈ m.1.take n → k ∉ b.idx.take n' := by
  intro s hsm m hm b hb n n' k hk
  have h0 := first_try_accepts batch c sizes counter B tape o h hmargin s hsm m hm
  obtain ⟨_, _, _, _, _, hs, _, _⟩ := collate_ok h
  exact enc_disjoint_when_all_constraints_active c _ _ s (hs s hsm) m hm (by rw [h0]; simp) b hb n n' k hk

/-- … stated on the returned tensors: row `e * B + b` of `ctx["encoder_masks"]` (encoder mask `e` of sample `b`) shares no
    index with row `j * B + b` of `ctx["predictor_masks"]` (predictor mask `j` of the same sample) -/
theorem enc_rows_disjoint_from_pred_rows (batch : β) (c : Cfg) (sizes : Int → Rounded) (counter : Int) (B : Nat)
    (tape : List Nat) (o : Out β) (h : collate batch c sizes counter B tape = .ok o)
    (hmargin : o.encSize.1 * o.encSize.2 - c.nPred * (o.predSize.1 * o.predSize.2) > c.minKeep)
    (b e j : Nat) (hb : b < B) (he : e < c.nEnc) (hj : j < c.nPred) :
    ∃ rowE rowP, o.encRows[e * B + b]? = some rowE ∧ o.predRows[j * B + b]? = some rowP ∧ ∀ k ∈ rowE, k ∉ rowP := by
  have hdis := enc_disjoint_from_pred batch c sizes counter B tape o h hmargin
  obtain ⟨_, _, _, _, hlen, hs, hpr, her⟩ := collate_ok h
  have hbs : b < o.samples.length := by rw [hlen]; exact hb
  have hsm : o.samples[b] ∈ o.samples := List.getElem_mem hbs
  obtain ⟨hpl, _, hel, _, _⟩ := hs _ hsm
  have hE := layout_getElem? (minLen (c.H * c.W) (o.samples.map (fun s => s.encs.map Prod.fst)).flatten) c.nEnc
    (o.samples.map (fun s => s.encs.map Prod.fst))
    (by intro ms hms; simp only [List.mem_map] at hms; obtain ⟨s, hs', rfl⟩ := hms; simp [(hs s hs').2.2.1])
    e b he (by simpa using hbs)
  have hP := layout_getElem? (minLen (c.H * c.W) (o.samples.map (fun s => s.preds.map Block.idx)).flatten) c.nPred
    (o.samples.map (fun s => s.preds.map Block.idx))
    (by intro ms hms; simp only [List.mem_map] at hms; obtain ⟨s, hs', rfl⟩ := hms; simp [(hs s hs').1])
    j b hj (by simpa using hbs)
  simp only [List.length_map, hlen] at hE hP
  rw [← her] at hE
  rw [← hpr] at hP
  refine ⟨_, _, hE, hP, ?_⟩
  have hej : e < (o.samples[b]).encs.length := by rw [hel]; exact he
  have hjj : j < (o.samples[b]).preds.length := by rw [hpl]; exact hj
  have e1 : ((o.samples.map (fun s : SampleMasks => s.encs.map Prod.fst))[b]'(by simpa using hbs)).getD e [] = ((o.samples[b]).encs[e]).1 := by
    simp [List.getD_eq_getElem?_getD, List.getElem?_eq_getElem hej]
  have e2 : ((o.samples.map (fun s : SampleMasks => s.preds.map Block.idx))[b]'(by simpa using hbs)).getD j [] = ((o.samples[b]).preds[j]).idx := by
    simp [List.getD_eq_getElem?_getD, List.getElem?_eq_getElem hjj]
  rw [e1, e2]
  intro k hk
  exact hdis _ hsm _ (List.getElem_mem hej) _ (List.getElem_mem hjj) _ _ k hk

/-- **Block sizes depend on the step counter only** (not on the batch, its size or the numpy tape), and the counter
    advances by one per call -/
theorem block_sizes_depend_on_step_only {β' : Type} (b1 : β) (b2 : β') (c : Cfg) (sizes : Int → Rounded) (counter : Int)
    (B1 B2 : Nat) (t1 t2 : List Nat) (o1 : Out β) (o2 : Out β')
    (h1 : collate b1 c sizes counter B1 t1 = .ok o1) (h2 : collate b2 c sizes counter B2 t2 = .ok o2) :
    o1.predSize = o2.predSize ∧ o1.encSize = o2.encSize ∧ o1.counter = counter + 1 ∧
    o1.predSize = blockSize c (sizes (counter + 1)).ph (sizes (counter + 1)).pw ∧
    o1.encSize = blockSize c (sizes (counter + 1)).eh (sizes (counter + 1)).ew := by
  obtain ⟨_, c1, p1, e1, _⟩ := collate_ok h1
  obtain ⟨_, _, p2, e2, _⟩ := collate_ok h2
  exact ⟨by rw [p1, p2], by rw [e1, e2], c1, p1, e1⟩

/-- **Batch data passes through unchanged** -/
theorem ijepa_batch_passthrough (batch : β) (c : Cfg) (sizes : Int → Rounded) (counter : Int) (B : Nat)
    (tape : List Nat) (o : Out β) (h : collate batch c sizes counter B tape = .ok o) : o.batch = batch :=
  (collate_ok h).1

/-- a concrete run: 4 x 4 grid, two predictor blocks 2 x 1, one encoder block 3 x 3, min_keep 2 (margin 9 - 4 > 2) -/
example : (collate () ⟨4, 4, 2, 1, 2, 20⟩ (fun _ => ⟨2, 1, 3, 3⟩) (-1) 1 [0, 0, 1, 2, 0, 0]).map
    (fun o => (o.counter, o.predSize, o.encSize, o.predRows, o.encRows)) =
    .ok (0, (2, 1), (3, 3), [[0, 4], [6, 10]], [[1, 2, 5, 8, 9]]) := by rfl

end ijepa

end KDVerif.C17
