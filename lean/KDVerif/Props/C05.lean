/-
C05 — Interleaved scheduler: side passes run exactly when due, whole, and unmixed.

The stream of the code-mirroring loop equals the per-update stream `l1` (C04.train_terminates_and_refines);
in `l1` every update emits `l1Evs = batch ++ sidePasses …`, i.e. side passes occur after an update and only
there, in config order (`sidePassesGo` walks the config list once). The theorems below pin down the
remaining ingredients: *when* a config is due, that a pass is *whole* and *shifted into its own range*,
that a shifted index *resolves* to the dataset and sample it was drawn for, and the zero-budget mode.
-/
import KDVerif.Props.C04
import KDVerif.Lemmas.InterleavedSide
import KDVerif.Lemmas.InterleavedStream

namespace KDVerif.C05
open KDVerif.Interleaved

/-- the code's `should_iter` assignments (in the code's order, incl. several kinds on one config)
    decide exactly "some interval of this config was reached or crossed by this update" -/
theorem due_exactly_when_interval_reached_or_crossed (c : Config) (epochEnd : Bool)
    (epoch update prevSample sample : Nat) (hlt : prevSample < sample)
    (hs : ∀ n, c.everyNSamples = some n → 0 < n) :
    due c epochEnd epoch update sample prevSample = true ↔
      dueSpec c epochEnd epoch update prevSample sample :=
  due_iff_dueSpec c epochEnd epoch update prevSample sample hlt hs

/-- side passes are part of an update's block and come after its batch: every event of an update
    block that precedes the side passes is a main-batch event -/
theorem side_passes_follow_the_batch (a : Args) (side : Nat → Nat → List Nat) (u : U) :
    l1Evs a side u = chunkEvs (u.xs.take (l1R a u)) ++
      sidePasses a side (decide (u.p + l1R a u = spe a)) (l1Next a u).epoch (l1Next a u).update
        (l1Next a u).sample u.sample := rfl

/-- a side pass is whole and in order: it has one event per index the sampler yields, the `i`-th event
    carries the `i`-th index shifted by the config's offset, and it is flagged as closing a batch exactly
    at every `bs`-th position and at the sampler's last index -/
theorem side_pass_whole (bs len off : Nat) (xs : List Nat) :
    (sidePass bs len off xs).length = xs.length ∧
    ∀ (i : Nat) (h : i < xs.length),
      (sidePass bs len off xs)[i]'(by unfold sidePass; rw [sidePassAux_length]; exact h) =
        Ev.idx (decide ((i + 1) % bs = 0 ∨ i + 1 = len)) (off + xs[i]) := by
  constructor
  · exact sidePassAux_length bs len off 0 xs
  · intro i h
    have := sidePassAux_get bs len off 0 xs i h
    simp only [Nat.zero_add] at this
    exact this

/-- the last event of a pass over a sampler that yields `len` indices closes a batch, so a pass never
    leaks into the next batch -/
theorem side_pass_ends_on_batch_boundary (bs len off : Nat) (xs : List Nat) (hlen : xs.length = len)
    (hpos : 0 < len) :
    (sidePass bs len off xs)[len - 1]'(by unfold sidePass; rw [sidePassAux_length]; omega) =
      Ev.idx true (off + xs[len - 1]'(by omega)) := by
  have := (side_pass_whole bs len off xs).2 (len - 1) (by omega)
  rw [this]
  have : len - 1 + 1 = len := by omega
  simp [this]

/-- **every yielded side index resolves to the dataset and sample it was drawn for**: index `x` of the
    `i`-th config, shifted by that config's offset, is mapped by the concat dataset to
    `(dataset i+1, sample x)` — for any number and sizes of configs -/
theorem side_index_resolves (a : Args) (i x : Nat) (hi : i < a.configs.length)
    (hx : x < (a.configs.map (·.dsLen)).getD i 0) :
    concatGet (dsSizes a) (a.mainDsLen + sumList ((a.configs.map (·.dsLen)).take i) + x) = (i + 1, x) := by
  rw [offset_eq_sum]
  apply concatGet_offset
  · simp [dsSizes]; omega
  · simpa [dsSizes] using hx

/-- **no batch mixes datasets, and the stream ends on a batch boundary**: for every geometry, budget, config
    set and checkpoint, with main indices inside the main data source and side samplers that yield
    `len(sampler)` in-range indices per pass, the batch sampler leaves no remainder and every batch it cuts
    lies within ONE dataset's index range of the concat dataset (so the collator dispatch never sees a mix) -/
theorem no_batch_mixes_datasets (a : Args) (main : Nat → List Nat) (side : Nat → Nat → List Nat)
    (hB : 0 < a.B) (hS : 0 < spe a) (hmain : ∀ e, spe a ≤ (main e).length)
    (hmainlt : ∀ e x, x ∈ main e → x < a.mainDsLen) (hside : SideOk a side)
    (n : Nat) (s : Start) (evs : List Ev) (h : l1 a main side n s = some evs) :
    (batchSampler evs).2 = [] ∧ ∀ b ∈ (batchSampler evs).1, ∃ d, ∀ i ∈ b, inDs (dsSizes a) d i :=
  stream_batches_unmixed a main side hB hS hmain hmainlt hside n s evs h

/-- main indices resolve to dataset 0 -/
theorem main_index_resolves (a : Args) (x : Nat) (hx : x < a.mainDsLen) :
    concatGet (dsSizes a) x = (0, x) := by
  have := concatGet_offset (dsSizes a) 0 x (by simp [dsSizes]) (by simpa [dsSizes] using hx)
  simpa [sumList] using this

/-- a zero budget yields exactly one full pass over every config, in config order, and nothing else -/
theorem zero_budget_one_pass (a : Args) (main : Nat → List Nat) (side : Nat → Nat → List Nat) (fuel : Nat)
    (hz : zeroBudget a.budget = true) :
    iter a ⟨0, 0, 0⟩ main side fuel = .ok (evalLoop a side) := by
  simp [iter, hz]

theorem eval_loop_is_all_passes (a : Args) (side : Nat → Nat → List Nat) (i off : Nat) (c : Config)
    (cs : List Config) :
    evalLoopGo a side i off (c :: cs) =
      sidePass (sideBS a c) c.len off (side i 0) ++ evalLoopGo a side (i + 1) (off + c.dsLen) cs := rfl

/-- non-vacuity: a config with both an epoch and an update interval is due at an epoch end although the
    update interval is not reached (the F05 defect of the unfixed code) -/
example : due ⟨some 1, some 7, none, none, 2, 2⟩ true 1 3 6 3 = true := by decide

end KDVerif.C05
