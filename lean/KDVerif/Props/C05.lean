import KDVerif.Model.Interleaved
namespace KDVerif.C05
open KDVerif.Interleaved

theorem placeholder : True := trivial

end KDVerif.C05
