/-
C05 — Interleaved scheduler: side passes run exactly when due, whole, and unmixed.

The stream of the code-mirroring loop equals the per-update stream `l1` (C04.train_terminates_and_refines);
in `l1` every update emits `l1Evs = batch ++ sidePasses …`, i.e. side passes occur after an update and only
there, in config order (`sidePassesGo` walks the config list once). The theorems below pin down the
remaining ingredients: *when* a config is due, that a pass is *whole* and *shifted into its own range*,
that a shifted index *resolves* to the dataset and sample it was drawn for, and the zero-budget mode.
-/
import KDVerif.Props.C04
import KDVerif.Lemmas.InterleavedSide
import KDVerif.Lemmas.InterleavedStream
import KDVerif.Lemmas.C05Extra

namespace KDVerif.C05
open KDVerif.Interleaved

/-- the code's `should_iter` assignments (in the code's order, incl. several kinds on one config)
    decide exactly "some interval of this config was reached or crossed by this update" -/
theorem due_exactly_when_interval_reached_or_crossed (c : Config) (epochEnd : Bool)
    (epoch update prevSample sample : Nat) (hlt : prevSample < sample)
    (hs : ∀ n, c.everyNSamples = some n → 0 < n) :
    due c epochEnd epoch update sample prevSample = true ↔
      dueSpec c epochEnd epoch update prevSample sample :=
  due_iff_dueSpec c epochEnd epoch update prevSample sample hlt hs

/-- side passes are part of an update's block and come after its batch: every event of an update
    block that precedes the side passes is a main-batch event -/
theorem side_passes_follow_the_batch (a : Args) (side : Nat → Nat → List Nat) (u : U) :
    l1Evs a side u = chunkEvs (u.xs.take (l1R a u)) ++
      sidePasses a side (decide (u.p + l1R a u = spe a)) (l1Next a u).epoch (l1Next a u).update
        (l1Next a u).sample u.sample := rfl

/-- a side pass is whole and in order: it has one event per index the sampler yields, the `i`-th event
    carries the `i`-th index shifted by the config's offset, and it is flagged as closing a batch exactly
    at every `bs`-th position and at the sampler's last index -/
theorem side_pass_whole (bs len off : Nat) (xs : List Nat) :
    (sidePass bs len off xs).length = xs.length ∧
    ∀ (i : Nat) (h : i < xs.length),
      (sidePass bs len off xs)[i]'(by unfold sidePass; rw [sidePassAux_length]; exact h) =
        Ev.idx (decide ((i + 1) % bs = 0 ∨ i + 1 = len)) (off + xs[i]) := by
  constructor
  · exact sidePassAux_length bs len off 0 xs
  · intro i h
    have := sidePassAux_get bs len off 0 xs i h
    simp only [Nat.zero_add] at this
    exact this

/-- the last event of a pass over a sampler that yields `len` indices closes a batch, so a pass never
    leaks into the next batch -/
theorem side_pass_ends_on_batch_boundary (bs len off : Nat) (xs : List Nat) (hlen : xs.length = len)
    (hpos : 0 < len) :
    (sidePass bs len off xs)[len - 1]'(by unfold sidePass; rw [sidePassAux_length]; omega) =
      Ev.idx true (off + xs[len - 1]'(by omega)) := by
  have := (side_pass_whole bs len off xs).2 (len - 1) (by omega)
  rw [this]
  have : len - 1 + 1 = len := by omega
  simp [this]

/-- **every yielded side index resolves to the dataset and sample it was drawn for**: index `x` of the
    `i`-th config, shifted by that config's offset, is mapped by the concat dataset to
    `(dataset i+1, sample x)` — for any number and sizes of configs -/
theorem side_index_resolves (a : Args) (i x : Nat) (hi : i < a.configs.length)
    (hx : x < (a.configs.map (·.dsLen)).getD i 0) :
    concatGet (dsSizes a) (a.mainDsLen + sumList ((a.configs.map (·.dsLen)).take i) + x) = (i + 1, x) := by
  rw [offset_eq_sum]
  apply concatGet_offset
  · simp [dsSizes]; omega
  · simpa [dsSizes] using hx

/-- **no batch mixes datasets, and the stream ends on a batch boundary**: for every geometry, budget, config
    set and checkpoint, with main indices inside the main data source and side samplers that yield
    `len(sampler)` in-range indices per pass, the batch sampler leaves no remainder and every batch it cuts
    lies within ONE dataset's index range of the concat dataset (so the collator dispatch never sees a mix) -/
theorem no_batch_mixes_datasets (a : Args) (main : Nat → List Nat) (side : Nat → Nat → List Nat)
    (hB : 0 < a.B) (hS : 0 < spe a) (hmain : ∀ e, spe a ≤ (main e).length)
    (hmainlt : ∀ e x, x ∈ main e → x < a.mainDsLen) (hside : SideOk a side)
    (n : Nat) (s : Start) (evs : List Ev) (h : l1 a main side n s = some evs) :
    (batchSampler evs).2 = [] ∧ ∀ b ∈ (batchSampler evs).1, ∃ d, ∀ i ∈ b, inDs (dsSizes a) d i :=
  stream_batches_unmixed a main side hB hS hmain hmainlt hside n s evs h

/-- main indices resolve to dataset 0 -/
theorem main_index_resolves (a : Args) (x : Nat) (hx : x < a.mainDsLen) :
    concatGet (dsSizes a) x = (0, x) := by
  have := concatGet_offset (dsSizes a) 0 x (by simp [dsSizes]) (by simpa [dsSizes] using hx)
  simpa [sumList] using this

/-- a zero budget yields exactly one full pass over every config, in config order, and nothing else -/
theorem zero_budget_one_pass (a : Args) (main : Nat → List Nat) (side : Nat → Nat → List Nat) (fuel : Nat)
    (hz : zeroBudget a.budget = true) :
    iter a ⟨0, 0, 0⟩ main side fuel = .ok (evalLoop a side) := by
  simp [iter, hz]

theorem eval_loop_is_all_passes (a : Args) (side : Nat → Nat → List Nat) (i off : Nat) (c : Config)
    (cs : List Config) :
    evalLoopGo a side i off (c :: cs) =
      sidePass (sideBS a c) c.len off (side i 0) ++ evalLoopGo a side (i + 1) (off + c.dsLen) cs := rfl

/-- non-vacuity: a config with both an epoch and an update interval is due at an epoch end although the
    update interval is not reached (the F05 defect of the unfixed code) -/
example : due ⟨some 1, some 7, none, none, 2, 2⟩ true 1 3 6 3 = true := by decide

/-! ## Round-2 additions: closed forms at stream level

Vocabulary (all from `Lemmas/C05Extra.lean`, each written without the implementation's recursion):
* `cfgOffset a i = a.mainDsLen + Σ_{j<i} dsLen_j` is `index_offsets[i]`;
* `a.configs.zipIdx` is the config list with the config's index, `[(c₀,0), (c₁,1), …]`;
* `chunks bs l` cuts `l` into consecutive pieces of `bs`, only the last one may be short
  (`chunks_flatten`, `chunks_sizes`, `chunks_full` in `Lemmas/InterleavedConcat.lean`);
* `c05x_traj a main n u` is the list of update-boundary states of a run, `c05x_block a side u` what the run emits
  for the update made from `u` (its events `l1Evs`, then the `set_epoch` of the next epoch if one starts).
Hypotheses used below and where they come from:
* `ctor a sa = .ok st` — the constructor accepted the arguments (gives `0 < B`, `0 < samples_per_epoch ≤ N`,
  every config passes the config asserts);
* `hmain : ∀ e, (main e).length = a.N` — iterating the main sampler yields `len(main_sampler)` indices;
* `hmainlt` — the main sampler yields indices of its own data source;
* `SideOk a side` — config `i`'s sampler yields `len(sampler)` indices of its own data source on every pass
  (needed: see the counterexample at the end of `Lemmas/InterleavedStream.lean`);
* `u.p < spe a` / `u.Ok a` — `u` is an update boundary inside an epoch; every state of `c05x_traj` is one
  (`stream_is_sequence_of_update_blocks`). -/

/-- **Clause "each interleaved config whose interval was reached … is iterated once in full, in config order, …
    shifted into that config's own index range"** — closed form of everything the loop emits between the batch
    that completes an update and the budget test: one entry per config, in config order; a config that is not due
    contributes nothing, a due config contributes ONE pass over what its sampler yields (`side i update`), batch
    flags by the config's (else the main) batch size, every index shifted by
    `cfgOffset a i = mainDsLen + Σ (dsLen of the configs before i)`. No hypotheses. -/
theorem side_passes_closed_form (a : Args) (side : Nat → Nat → List Nat) (epochEnd : Bool)
    (epoch update sample prevSample : Nat) :
    sidePasses a side epochEnd epoch update sample prevSample =
      a.configs.zipIdx.flatMap (fun ci =>
        if due ci.1 epochEnd epoch update sample prevSample
        then sidePass (sideBS a ci.1) ci.1.len (cfgOffset a ci.2) (side ci.2 update)
        else []) :=
  c05x_sidePasses_closed a side epochEnd epoch update sample prevSample

/-- `cfgOffset` is the constructor's `index_offsets`: it starts at the main data source's size and grows by the
    size of each config's data source; and it is where dataset `i+1` starts in the concat dataset -/
theorem cfgOffset_is_index_offsets (a : Args) :
    cfgOffset a 0 = a.mainDsLen ∧
    (∀ i c, a.configs[i]? = some c → cfgOffset a (i + 1) = cfgOffset a i + c.dsLen) ∧
    (∀ i, cfgOffset a i = sumList ((dsSizes a).take (i + 1))) :=
  ⟨c05x_cfgOffset_zero a, c05x_cfgOffset_succ a, c05x_cfgOffset_eq a⟩

example :
    let a : Args := ⟨5, 5, 2, false, none, .updates 4,
      [⟨none, some 2, none, some 2, 3, 3⟩, ⟨some 1, none, none, none, 2, 4⟩, ⟨none, none, some 3, none, 1, 2⟩]⟩
    (List.range 3).map (cfgOffset a) = [5, 8, 12] ∧
    -- update 2 of epoch 0 (sample counter 2 → 4): config 0 (every 2 updates) and config 2 (every 3 samples:
    -- 2/3 < 4/3) are due, config 1 (epoch end) is not
    sidePasses a (fun i _ => [[0, 1, 2], [3, 1], [1]].getD i []) false 0 2 4 2 =
      [.idx false 5, .idx true 6, .idx true 7, .idx true 13] := by decide

open Classical in
/-- **Clauses "After every main update … each interleaved config whose every_n_epochs / every_n_updates /
    every_n_samples interval was reached or crossed by that update is iterated once in full, in config order"**,
    at stream level and with the condition in the property's wording (`dueSpec`: the update ended an epoch whose
    new number is a multiple of `every_n_epochs`, OR the new update number is a multiple of `every_n_updates`, OR
    the sample counter passed a multiple of `every_n_samples` — several kinds on one config are a disjunction).
    What the update made from boundary `u` emits is its batch (flags F…FT) followed by exactly the passes of the
    configs that satisfy the disjunction. -/
theorem update_emits_batch_then_exactly_the_due_passes (a : Args) (sa : StartArg) (st : Start)
    (hctor : ctor a sa = .ok st) (side : Nat → Nat → List Nat) (u : U) (hp : u.p < spe a) :
    l1Evs a side u =
      chunkEvs (u.xs.take (l1R a u)) ++
      a.configs.zipIdx.flatMap (fun ci =>
        if dueSpec ci.1 (decide (u.p + l1R a u = spe a)) (l1Next a u).epoch (l1Next a u).update u.sample
            (l1Next a u).sample
        then sidePass (sideBS a ci.1) ci.1.len (cfgOffset a ci.2) (side ci.2 (l1Next a u).update)
        else []) := by
  obtain ⟨hB, _, _, _⟩ := C04.ctor_ok_geometry a sa st hctor
  have hcfg := (C04.ctor_ok a sa st hctor).2.1
  unfold l1Evs
  rw [c05x_sidePasses_closed]
  congr 1
  apply c05x_flatMap_congr
  intro ci hci
  have hmem : ci.1 ∈ a.configs := List.fst_mem_of_mem_zipIdx hci
  have hok : cfgOk ci.1 = true := List.all_eq_true.mp hcfg ci.1 hmem
  have hlt : u.sample < (l1Next a u).sample := by simp only [l1Next, l1R]; omega
  have := due_iff_dueSpec ci.1 (decide (u.p + l1R a u = spe a)) (l1Next a u).epoch (l1Next a u).update u.sample
    (l1Next a u).sample hlt (c05x_cfgOk_samples_pos ci.1 hok)
  by_cases hd : due ci.1 (decide (u.p + l1R a u = spe a)) (l1Next a u).epoch (l1Next a u).update
      (l1Next a u).sample u.sample = true
  · rw [if_pos hd, if_pos (this.mp hd)]
  · rw [if_neg hd, if_neg (fun h => hd (this.mpr h))]

/-- non-vacuity of `update_emits_batch_then_exactly_the_due_passes`: the constructor accepts, `u` is the boundary
    before the 2nd update of epoch 0, and the block is the batch `[2,3]` then config 0's pass (every 2 updates) -/
example :
    let a : Args := ⟨5, 5, 2, false, none, .updates 4,
      [⟨none, some 2, none, some 2, 3, 3⟩, ⟨some 1, none, none, none, 2, 4⟩]⟩
    let u : U := ⟨0, 1, 2, 2, [2, 3, 4]⟩
    ctor a .none = .ok ⟨0, 0, 0⟩ ∧ u.p < spe a ∧
    l1Evs a (fun i _ => if i = 0 then [0, 1, 2] else [3, 1]) u =
      [.idx false 2, .idx true 3, .idx false 5, .idx true 6, .idx true 7] := ⟨rfl, by decide, by decide⟩

/-- **Clauses "After every main update, and only then … in config order" / side passes sit between the complete
    batch and the next batch or `set_epoch`** — the whole stream is `set_epoch(start epoch)` followed by one block
    per update, in order; the block of the update made from boundary state `u` is: the complete (non-empty) main
    batch with flags F…FT, then for every config in config order its pass if it is due at the counters after this
    update (and nothing if it is not), then the next epoch's `set_epoch` iff the update ended an epoch without
    reaching the budget. Nothing else is in the stream, so interleaved indices occur after an update and only
    there. Every boundary state of the run is inside an epoch with enough indices left, its index list lies in the
    main data source, and the `j`-th block belongs to update number `start.update + j + 1`.
    (Stream-level replacement of the definitional `side_passes_follow_the_batch`.) -/
theorem stream_is_sequence_of_update_blocks (a : Args) (sa : StartArg) (st : Start)
    (hctor : ctor a sa = .ok st) (main : Nat → List Nat) (hmain : ∀ e, (main e).length = a.N)
    (hmainlt : ∀ e x, x ∈ main e → x < a.mainDsLen)
    (side : Nat → Nat → List Nat) (n : Nat) (evs : List Ev) (h : l1 a main side n st = some evs) :
    evs = Ev.setEpoch st.epoch ::
      (c05x_traj a main n (l1Start main st)).flatMap (fun u =>
        chunkEvs (u.xs.take (l1R a u)) ++
        a.configs.zipIdx.flatMap (fun ci =>
          if due ci.1 (decide (u.p + l1R a u = spe a)) (l1Next a u).epoch (l1Next a u).update
              (l1Next a u).sample u.sample
          then sidePass (sideBS a ci.1) ci.1.len (cfgOffset a ci.2) (side ci.2 (l1Next a u).update)
          else []) ++
        (if l1Ctl a u = .brk then [Ev.setEpoch (l1Next a u).epoch] else [])) ∧
    (∀ u ∈ c05x_traj a main n (l1Start main st),
      u.Ok a ∧ (∀ x ∈ u.xs, x < a.mainDsLen) ∧ u.xs.take (l1R a u) ≠ []) ∧
    (∀ j u, (c05x_traj a main n (l1Start main st))[j]? = some u → (l1Next a u).update = st.update + j + 1) := by
  obtain ⟨hB, _, hS, hSN⟩ := C04.ctor_ok_geometry a sa st hctor
  have hmain' : ∀ e, spe a ≤ (main e).length := fun e => by rw [hmain e]; exact hSN
  have hok := c05x_traj_ok a main hS hmain' hmainlt n _ (c05x_start_ok a main hS hmain' st)
      (fun x hx => hmainlt _ x hx)
  refine ⟨?_, ?_, ?_⟩
  · rw [c05x_l1_blocks a main side n st evs h]
    congr 1
    apply c05x_flatMap_congr
    intro u _
    simp only [c05x_block, l1Evs, c05x_sidePasses_closed]
  · intro u hu
    have hp := (hok u hu).1.p_lt
    have hen := (hok u hu).1.enough
    exact ⟨(hok u hu).1, (hok u hu).2, take_ne_nil _ _ (by unfold l1R; omega) (by unfold l1R; omega)⟩
  · intro j u hu
    have := c05x_traj_update a main n _ j u hu
    simp only [l1Next, l1Start] at this ⊢
    omega

/-- **The same closed form for the code-mirroring loop** (`iter` = `InterleavedSampler.__iter__`, per-sample
    machine): for every accepted constructor call with a checkpoint strictly before a non-zero budget, `__iter__`
    ends by itself and yields exactly `set_epoch`, then per update the complete batch, the passes of the due configs
    in config order, and the next `set_epoch` at an epoch change. -/
theorem training_stream_closed_form (a : Args) (sa : StartArg) (st : Start)
    (hctor : ctor a sa = .ok st) (main : Nat → List Nat) (hmain : ∀ e, (main e).length = a.N)
    (side : Nat → Nat → List Nat) (hbefore : before a.budget (l1Start main st)) :
    ∀ fuel, meas a (l1Start main st) < fuel →
      iter a st main side fuel = .ok (Ev.setEpoch st.epoch ::
        (c05x_traj a main (meas a (l1Start main st)) (l1Start main st)).flatMap (fun u =>
          chunkEvs (u.xs.take (l1R a u)) ++
          a.configs.zipIdx.flatMap (fun ci =>
            if due ci.1 (decide (u.p + l1R a u = spe a)) (l1Next a u).epoch (l1Next a u).update
                (l1Next a u).sample u.sample
            then sidePass (sideBS a ci.1) ci.1.len (cfgOffset a ci.2) (side ci.2 (l1Next a u).update)
            else []) ++
          (if l1Ctl a u = .brk then [Ev.setEpoch (l1Next a u).epoch] else []))) := by
  obtain ⟨evs, hl1, htrain⟩ := C04.train_terminates_and_refines a sa st hctor main hmain side hbefore
  have hnz : zeroBudget a.budget = false := by
    unfold before at hbefore
    unfold zeroBudget
    cases hb : a.budget with
    | epochs e => rw [hb] at hbefore; simp only at hbefore ⊢; simp; omega
    | updates e => rw [hb] at hbefore; simp only at hbefore ⊢; simp; omega
    | samples e => rw [hb] at hbefore; simp only at hbefore ⊢; simp; omega
  intro fuel hfuel
  have hform : evs = _ := c05x_l1_blocks a main side _ st evs hl1
  simp only [iter, hnz, Bool.false_eq_true, if_false, htrain fuel hfuel]
  rw [hform]
  congr 2
  apply c05x_flatMap_congr
  intro u _
  simp only [c05x_block, l1Evs, c05x_sidePasses_closed]

/-- non-vacuity of `training_stream_closed_form`: accepted constructor call, checkpoint before the budget, and the
    stream `__iter__` yields (fuel 20 > `meas` = 4) -/
example :
    let a : Args := ⟨5, 5, 2, false, none, .updates 4,
      [⟨none, some 2, none, some 2, 3, 3⟩, ⟨some 1, none, none, none, 2, 4⟩]⟩
    let main : Nat → List Nat := fun _ => [0, 1, 2, 3, 4]
    let side : Nat → Nat → List Nat := fun i _ => if i = 0 then [0, 1, 2] else [3, 1]
    ctor a .none = .ok ⟨0, 0, 0⟩ ∧ before a.budget (l1Start main ⟨0, 0, 0⟩) ∧ meas a (l1Start main ⟨0, 0, 0⟩) = 4 ∧
    iter a ⟨0, 0, 0⟩ main side 20 = .ok
      [.setEpoch 0, .idx false 0, .idx true 1, .idx false 2, .idx true 3, .idx false 5, .idx true 6, .idx true 7,
       .idx true 4, .idx false 11, .idx true 9, .setEpoch 1, .idx false 0, .idx true 1,
       .idx false 5, .idx true 6, .idx true 7] := by
  refine ⟨rfl, ?_, rfl, rfl⟩
  simp [before, l1Start]

/-- **Clause "After every main update, and only then"**, in terms of neighbouring stream events only: an index of
    an interleaved dataset (`≥ mainDsLen`) is never the first index of the stream and its predecessor is never a
    `set_epoch` call or a main index that leaves its batch unfinished — it is the index that COMPLETES a main
    batch (an update) or another interleaved index. -/
theorem side_index_only_directly_after_an_update (a : Args) (sa : StartArg) (st : Start)
    (hctor : ctor a sa = .ok st) (main : Nat → List Nat) (hmain : ∀ e, (main e).length = a.N)
    (hmainlt : ∀ e x, x ∈ main e → x < a.mainDsLen)
    (side : Nat → Nat → List Nat) (n : Nat) (evs : List Ev) (h : l1 a main side n st = some evs) :
    (∃ rest, evs = Ev.setEpoch st.epoch :: rest) ∧
    ∀ (pre : List Ev) (e : Ev) (f : Bool) (x : Nat) (post : List Ev),
      evs = pre ++ e :: Ev.idx f x :: post → a.mainDsLen ≤ x →
        ∃ g y, e = Ev.idx g y ∧ (a.mainDsLen ≤ y ∨ g = true) := by
  obtain ⟨hB, _, hS, hSN⟩ := C04.ctor_ok_geometry a sa st hctor
  have hmain' : ∀ e, spe a ≤ (main e).length := fun e => by rw [hmain e]; exact hSN
  have hform := c05x_l1_blocks a main side n st evs h
  have hok := c05x_traj_ok a main hS hmain' hmainlt n _ (c05x_start_ok a main hS hmain' st)
      (fun x hx => hmainlt _ x hx)
  have hguard : c05x_sideGuard a.mainDsLen false evs = true := by
    rw [hform]
    simp only [c05x_sideGuard]
    apply c05x_sideGuard_flatMap
    intro v hv ok'
    exact c05x_sideGuard_block a side hB v (hok v hv).1 (hok v hv).2 ok'
  refine ⟨⟨_, hform⟩, ?_⟩
  intro pre e f x post he hx
  rw [he] at hguard
  exact c05x_sideGuard_adjacent a.mainDsLen pre false e f x post hguard hx

/-- non-vacuity for the two stream theorems above: an accepted constructor call whose run ends; the stream and its
    boundary states (three updates of epoch 0, then the first update of epoch 1) -/
example :
    let a : Args := ⟨5, 5, 2, false, none, .updates 4,
      [⟨none, some 2, none, some 2, 3, 3⟩, ⟨some 1, none, none, none, 2, 4⟩]⟩
    let main : Nat → List Nat := fun _ => [0, 1, 2, 3, 4]
    let side : Nat → Nat → List Nat := fun i _ => if i = 0 then [0, 1, 2] else [3, 1]
    ctor a .none = .ok ⟨0, 0, 0⟩ ∧
    l1 a main side 10 ⟨0, 0, 0⟩ = some
      [.setEpoch 0, .idx false 0, .idx true 1, .idx false 2, .idx true 3, .idx false 5, .idx true 6, .idx true 7,
       .idx true 4, .idx false 11, .idx true 9, .setEpoch 1, .idx false 0, .idx true 1,
       .idx false 5, .idx true 6, .idx true 7] ∧
    (c05x_traj a main 10 (l1Start main ⟨0, 0, 0⟩)).map (fun u => (u.epoch, u.update, u.sample, u.p)) =
      [(0, 0, 0, 0), (0, 1, 2, 2), (0, 2, 4, 4), (1, 3, 5, 0)] := ⟨rfl, by decide, by decide⟩

/-- **Clause "batched by the config's (else the main) batch size with a short final batch"** — the batch sampler
    over one whole side pass yields exactly the shifted indices cut into consecutive pieces of `bs`, leaves nothing
    over, and (spelled out) the pieces put together are the shifted indices in the sampler's order, every piece has
    `1..bs` indices and every piece but the last has exactly `bs`.
    `hlen`: the sampler yields `len(sampler)` indices (`SideOk`); `hbs`: `sideBS a c` is positive for every accepted
    constructor call (`side_batch_size`). -/
theorem side_pass_is_cut_into_batches (bs len off : Nat) (xs : List Nat) (hbs : 0 < bs) (hlen : xs.length = len) :
    batchSampler (sidePass bs len off xs) = (chunks bs (xs.map (off + ·)), []) ∧
    (chunks bs (xs.map (off + ·))).flatten = xs.map (off + ·) ∧
    (∀ c ∈ chunks bs (xs.map (off + ·)), 0 < c.length ∧ c.length ≤ bs) ∧
    (∀ c ∈ (chunks bs (xs.map (off + ·))).dropLast, c.length = bs) := by
  refine ⟨?_, chunks_flatten bs hbs _ _ (Nat.le_refl _), chunks_sizes bs hbs _ _ (Nat.le_refl _),
    chunks_full bs hbs _ _ (Nat.le_refl _)⟩
  have := c05x_batchSamplerGo_sidePass bs len off hbs xs hlen []
  simpa [batchSampler, batchSamplerGo] using this

/-- the batch size of a side pass is `config.batch_size or self.batch_size`, and it is positive -/
theorem side_batch_size (a : Args) (sa : StartArg) (st : Start) (hctor : ctor a sa = .ok st) (c : Config)
    (hc : c ∈ a.configs) : sideBS a c = c.batchSize.getD a.B ∧ 0 < sideBS a c := by
  obtain ⟨hB, _, _, _⟩ := C04.ctor_ok_geometry a sa st hctor
  have hcfg := (C04.ctor_ok a sa st hctor).2.1
  exact ⟨c05x_sideBS_eq a c (List.all_eq_true.mp hcfg c hc), c05x_sideBS_pos a c hB⟩

/-- 7 indices, batch size 3, offset 10: batches 3 + 3 + 1 -/
example : batchSampler (sidePass 3 7 10 [4, 0, 6, 2, 5, 1, 3]) =
    ([[14, 10, 16], [12, 15, 11], [13]], []) ∧
    chunks 3 ([4, 0, 6, 2, 5, 1, 3].map (10 + ·)) = [[14, 10, 16], [12, 15, 11], [13]] := by decide

/-- **Clauses "batched by …", "No batch mixes datasets", whole passes — for the whole training stream**: the
    batches the batch sampler cuts from a run are, update by update, the main batch followed by — for every due
    config in config order — that config's shifted indices cut into pieces of its batch size; nothing is left over.
    (`c05x_blockBatches a side u = u.xs.take (l1R a u) :: c05x_sideBatches …`, where `c05x_sideBatches` is the
    `flatMap` over `a.configs.zipIdx` of `if due … then chunks (sideBS a c) ((side i update).map (cfgOffset a i + ·))`.) -/
theorem stream_batches_closed_form (a : Args) (sa : StartArg) (st : Start)
    (hctor : ctor a sa = .ok st) (main : Nat → List Nat) (hmain : ∀ e, (main e).length = a.N)
    (hmainlt : ∀ e x, x ∈ main e → x < a.mainDsLen)
    (side : Nat → Nat → List Nat) (hside : SideOk a side) (n : Nat) (evs : List Ev)
    (h : l1 a main side n st = some evs) :
    batchSampler evs =
      ((c05x_traj a main n (l1Start main st)).flatMap (fun u =>
        u.xs.take (l1R a u) ::
          a.configs.zipIdx.flatMap (fun ci =>
            if due ci.1 (decide (u.p + l1R a u = spe a)) (l1Next a u).epoch (l1Next a u).update
                (l1Next a u).sample u.sample
            then chunks (sideBS a ci.1) ((side ci.2 (l1Next a u).update).map (cfgOffset a ci.2 + ·))
            else [])), []) := by
  obtain ⟨hB, _, hS, hSN⟩ := C04.ctor_ok_geometry a sa st hctor
  have hmain' : ∀ e, spe a ≤ (main e).length := fun e => by rw [hmain e]; exact hSN
  have hok := c05x_traj_ok a main hS hmain' hmainlt n _ (c05x_start_ok a main hS hmain' st)
      (fun x hx => hmainlt _ x hx)
  rw [c05x_l1_blocks a main side n st evs h]
  exact c05x_batchSampler_blocks a side hB hside _ (fun v hv => (hok v hv).1) _

/-- non-vacuity of `stream_batches_closed_form`: all hypotheses hold for this instance and the right-hand side
    evaluates to the batches `[0,1] [2,3] [5,6] [7] [4] [11,9] [0,1] [5,6] [7]` -/
example :
    let a : Args := ⟨5, 5, 2, false, none, .updates 4,
      [⟨none, some 2, none, some 2, 3, 3⟩, ⟨some 1, none, none, none, 2, 4⟩]⟩
    let main : Nat → List Nat := fun _ => [0, 1, 2, 3, 4]
    let side : Nat → Nat → List Nat := fun i _ => if i = 0 then [0, 1, 2] else [3, 1]
    ctor a .none = .ok ⟨0, 0, 0⟩ ∧ (∀ e, (main e).length = a.N) ∧ (∀ e x, x ∈ main e → x < a.mainDsLen) ∧
    SideOk a side ∧
    (c05x_traj a main 10 (l1Start main ⟨0, 0, 0⟩)).flatMap (c05x_blockBatches a side) =
      [[0, 1], [2, 3], [5, 6], [7], [4], [11, 9], [0, 1], [5, 6], [7]] := by
  refine ⟨rfl, fun _ => rfl, ?_, ?_, by decide⟩
  · intro e x hx; simp at hx ⊢; omega
  · intro i c h u
    match i with
    | 0 => simp at h; subst h; simp
    | 1 => simp at h; subst h; simp
    | n + 2 => simp at h

/-- **Clause "a zero budget yields exactly one full pass over every config"** (and nothing else; with a non-zero
    start checkpoint the code's assertion fails) — closed form of the zero-budget stream: for every config, in
    config order, ONE pass over what its sampler yields (`side i 0`), shifted by the config's offset, flags by the
    config's (else the main) batch size. -/
theorem zero_budget_stream_closed_form (a : Args) (main : Nat → List Nat) (side : Nat → Nat → List Nat)
    (fuel : Nat) (s : Start) (hz : zeroBudget a.budget = true) :
    iter a s main side fuel =
      if s = ⟨0, 0, 0⟩ then
        .ok (a.configs.zipIdx.flatMap (fun ci =>
          sidePass (sideBS a ci.1) ci.1.len (cfgOffset a ci.2) (side ci.2 0)))
      else .error .assertion := by
  rw [← c05x_evalLoop_closed]
  obtain ⟨e, u, sm⟩ := s
  simp only [iter, hz, if_true, Start.mk.injEq]

/-- **Zero budget: whole passes, the config's batch size, unmixed batches, right dataset and sample.**
    For the zero-budget stream `evalLoop`: (1) the batches are, for every config in config order, that config's
    shifted indices cut into pieces of its (else the main) batch size, nothing left over; (2) every batch lies in
    ONE dataset of the concat dataset and passes the collator's single-dataset assertion, being dispatched to that
    dataset's collator; (3) fetching the stream through the concat dataset gives, for every config `i` in order,
    (dataset `i+1`, `y`) for every index `y` its sampler yields — each config exactly once, in full. -/
theorem zero_budget_whole_unmixed_passes (a : Args) (sa : StartArg) (st : Start) (hctor : ctor a sa = .ok st)
    (side : Nat → Nat → List Nat) (hside : SideOk a side) :
    batchSampler (evalLoop a side) =
      (a.configs.zipIdx.flatMap (fun ci =>
        chunks (sideBS a ci.1) ((side ci.2 0).map (cfgOffset a ci.2 + ·))), []) ∧
    (∀ b ∈ (batchSampler (evalLoop a side)).1, ∃ d, (∀ i ∈ b, inDs (dsSizes a) d i) ∧
      collateDispatch (b.map (fun i => (concatGet (dsSizes a) i).1)) = some d) ∧
    c05x_resolved (dsSizes a) (evalLoop a side) =
      a.configs.zipIdx.flatMap (fun ci => (side ci.2 0).map (fun y => (ci.2 + 1, y))) := by
  obtain ⟨hB, _, _, _⟩ := C04.ctor_ok_geometry a sa st hctor
  refine ⟨c05x_batchSampler_evalLoop a side hB hside, ?_, c05x_resolved_evalLoop a side hside⟩
  intro b hb
  obtain ⟨d, hd⟩ := (blocks_batches (c05x_evalLoop_blocks a side hside)).2 b hb
  exact ⟨d, hd, c05x_collate_of_inDs _ d b (c05x_batchSamplerGo_nonempty _ _ b hb) hd⟩

/-- non-vacuity for the zero-budget theorems: two configs, per-config batch size 2 on the first -/
example :
    let a : Args := ⟨5, 5, 2, false, none, .epochs 0,
      [⟨none, some 2, none, some 2, 3, 3⟩, ⟨some 1, none, none, none, 2, 4⟩]⟩
    let side : Nat → Nat → List Nat := fun i _ => if i = 0 then [0, 1, 2] else [3, 1]
    ctor a .none = .ok ⟨0, 0, 0⟩ ∧ zeroBudget a.budget = true ∧ SideOk a side ∧
    iter a ⟨0, 0, 0⟩ (fun _ => [0, 1, 2, 3, 4]) side 0 =
      .ok [.idx false 5, .idx true 6, .idx true 7, .idx false 11, .idx true 9] ∧
    batchSampler (evalLoop a side) = ([[5, 6], [7], [11, 9]], []) ∧
    c05x_resolved (dsSizes a) (evalLoop a side) = [(1, 0), (1, 1), (1, 2), (2, 3), (2, 1)] := by
  refine ⟨rfl, by decide, ?_, rfl, by decide, by decide⟩
  intro i c h u
  match i with
  | 0 => simp at h; subst h; simp
  | 1 => simp at h; subst h; simp
  | n + 2 => simp at h

/-- **Clause "every yielded index resolves to the dataset and sample it was drawn for"**, for every index event of
    the training stream, in order: fetching the stream through `_InterleavedConcatDataset.__getitem__`
    (`c05x_resolved` = `concatGet` of every index event) gives, update by update, `(0, x)` for every index `x` of
    the main batch (the main sampler's own index) and then, for every due config `i` in config order,
    `(i+1, y)` for every index `y` its sampler yielded for that pass (the side sampler's own index, i.e. the
    stream index minus the config's offset). -/
theorem stream_resolves_to_what_was_drawn (a : Args) (sa : StartArg) (st : Start)
    (hctor : ctor a sa = .ok st) (main : Nat → List Nat) (hmain : ∀ e, (main e).length = a.N)
    (hmainlt : ∀ e x, x ∈ main e → x < a.mainDsLen)
    (side : Nat → Nat → List Nat) (hside : SideOk a side) (n : Nat) (evs : List Ev)
    (h : l1 a main side n st = some evs) :
    c05x_resolved (dsSizes a) evs =
      (c05x_traj a main n (l1Start main st)).flatMap (fun u =>
        (u.xs.take (l1R a u)).map (fun x => (0, x)) ++
          a.configs.zipIdx.flatMap (fun ci =>
            if due ci.1 (decide (u.p + l1R a u = spe a)) (l1Next a u).epoch (l1Next a u).update
                (l1Next a u).sample u.sample
            then (side ci.2 (l1Next a u).update).map (fun y => (ci.2 + 1, y))
            else [])) := by
  obtain ⟨_, _, hS, hSN⟩ := C04.ctor_ok_geometry a sa st hctor
  have hmain' : ∀ e, spe a ≤ (main e).length := fun e => by rw [hmain e]; exact hSN
  have hok := c05x_traj_ok a main hS hmain' hmainlt n _ (c05x_start_ok a main hS hmain' st)
      (fun x hx => hmainlt _ x hx)
  rw [c05x_l1_blocks a main side n st evs h]
  exact c05x_resolved_blocks a side hside _ (fun v hv => (hok v hv).2) _

/-- the two index-level facts behind `stream_resolves_to_what_was_drawn`: a main index `x` resolves to `(0, x)`,
    and index `y` of config `i`'s sampler, yielded as `cfgOffset a i + y`, resolves to `(i+1, y)` -/
theorem yielded_index_resolves (a : Args) :
    (∀ x, x < a.mainDsLen → concatGet (dsSizes a) x = (0, x)) ∧
    (∀ i c y, a.configs[i]? = some c → y < c.dsLen → concatGet (dsSizes a) (cfgOffset a i + y) = (i + 1, y)) :=
  ⟨c05x_concatGet_main a, fun i c y h hy => c05x_concatGet_side a i c h y hy⟩

/-- non-vacuity of `stream_resolves_to_what_was_drawn` (hypotheses as in the example of
    `stream_batches_closed_form`): the resolved stream of that run -/
example :
    let a : Args := ⟨5, 5, 2, false, none, .updates 4,
      [⟨none, some 2, none, some 2, 3, 3⟩, ⟨some 1, none, none, none, 2, 4⟩]⟩
    let main : Nat → List Nat := fun _ => [0, 1, 2, 3, 4]
    let side : Nat → Nat → List Nat := fun i _ => if i = 0 then [0, 1, 2] else [3, 1]
    (l1 a main side 10 ⟨0, 0, 0⟩).map (c05x_resolved (dsSizes a)) = some
      [(0, 0), (0, 1), (0, 2), (0, 3), (1, 0), (1, 1), (1, 2), (0, 4), (2, 3), (2, 1), (0, 0), (0, 1),
       (1, 0), (1, 1), (1, 2)] ∧
    (c05x_traj a main 10 (l1Start main ⟨0, 0, 0⟩)).flatMap (c05x_blockDrawn a side) =
      [(0, 0), (0, 1), (0, 2), (0, 3), (1, 0), (1, 1), (1, 2), (0, 4), (2, 3), (2, 1), (0, 0), (0, 1),
       (1, 0), (1, 1), (1, 2)] := by decide

/-- **`_InterleavedConcatDataset.__getitem__` on ANY valid index** (not only on indices the sampler shifted):
    for `idx < len(dataset)` the result `(d, x)` names an existing dataset, a sample inside it, and
    `idx = (sum of the sizes of the datasets before d) + x`; conversely every such decomposition is the result
    (`concatGet_offset`), so the result is the unique decomposition. -/
theorem concat_getitem_spec (szs : List Nat) (idx : Nat) (h : idx < sumList szs) :
    (concatGet szs idx).1 < szs.length ∧ (concatGet szs idx).2 < szs.getD (concatGet szs idx).1 0 ∧
    idx = sumList (szs.take (concatGet szs idx).1) + (concatGet szs idx).2 :=
  c05x_concatGet_spec szs idx h

/-- **negative indices of `_InterleavedConcatDataset.__getitem__`**: `len(dataset)` is the sum of the sizes;
    `ds[-m]` for `m ≥ 1` raises ValueError exactly if `m > len(ds)` and otherwise resolves like `ds[len(ds) - m]`
    (so to an existing dataset and sample, by `concat_getitem_spec`); a non-negative index is passed through. -/
theorem concat_negative_index (szs : List Nat) :
    (cumsum 0 szs).getLastD 0 = sumList szs ∧
    (∀ m : Nat, 0 < m → concatGetInt szs (-(m : Int)) =
      if sumList szs < m then none else some (concatGet szs (sumList szs - m))) ∧
    (∀ n : Nat, concatGetInt szs (n : Int) = some (concatGet szs n)) :=
  ⟨c05x_total szs, c05x_concatGetInt_neg szs, c05x_concatGetInt_nonneg szs⟩

/-- sizes 5, 3, 4: `ds[-1]` is the last sample of the last dataset, `ds[-5]` the last of dataset 1,
    `ds[-12]` the very first sample, `ds[-13]` a ValueError -/
example : concatGetInt [5, 3, 4] (-1) = some (2, 3) ∧ concatGetInt [5, 3, 4] (-5) = some (1, 2) ∧
    concatGetInt [5, 3, 4] (-12) = some (0, 0) ∧ concatGetInt [5, 3, 4] (-13) = none ∧
    concatGetInt [5, 3, 4] 7 = some (1, 2) := by decide

/-- **Clause "is collated by that dataset's collator"** — for every batch of the training stream: all its indices
    lie in ONE dataset `d` of the concat dataset, and the collator (`collateDispatch` = the assertion that all
    fetched dataset indices are equal, then `self.collators[that index]`) does not fail and picks collator `d`. -/
theorem every_batch_is_collated_by_its_datasets_collator (a : Args) (sa : StartArg) (st : Start)
    (hctor : ctor a sa = .ok st) (main : Nat → List Nat) (hmain : ∀ e, (main e).length = a.N)
    (hmainlt : ∀ e x, x ∈ main e → x < a.mainDsLen)
    (side : Nat → Nat → List Nat) (hside : SideOk a side) (n : Nat) (evs : List Ev)
    (h : l1 a main side n st = some evs) :
    ∀ b ∈ (batchSampler evs).1, ∃ d, (∀ i ∈ b, inDs (dsSizes a) d i) ∧
      collateDispatch (b.map (fun i => (concatGet (dsSizes a) i).1)) = some d := by
  obtain ⟨hB, _, hS, hSN⟩ := C04.ctor_ok_geometry a sa st hctor
  have hmain' : ∀ e, spe a ≤ (main e).length := fun e => by rw [hmain e]; exact hSN
  intro b hb
  obtain ⟨d, hd⟩ := (stream_batches_unmixed a main side hB hS hmain' hmainlt hside n st evs h).2 b hb
  exact ⟨d, hd, c05x_collate_of_inDs _ d b (c05x_batchSamplerGo_nonempty _ _ b hb) hd⟩

/-- which collator: a batch cut from config `i`'s pass goes to collator `i+1` (the config's own), a main batch to
    collator 0 (the main collator) -/
theorem batch_collator_is_the_one_it_was_drawn_for (a : Args) :
    (∀ b : List Nat, b ≠ [] → (∀ x ∈ b, x < a.mainDsLen) →
      collateDispatch (b.map (fun i => (concatGet (dsSizes a) i).1)) = some 0) ∧
    (∀ i c bs (xs : List Nat), a.configs[i]? = some c → 0 < bs → (∀ y ∈ xs, y < c.dsLen) →
      ∀ b ∈ chunks bs (xs.map (cfgOffset a i + ·)),
        collateDispatch (b.map (fun j => (concatGet (dsSizes a) j).1)) = some (i + 1)) := by
  constructor
  · intro b hne hb
    apply c05x_collateDispatch_const _ _ (by simpa using hne)
    intro d hd
    obtain ⟨x, hx, rfl⟩ := List.mem_map.mp hd
    rw [c05x_concatGet_main a x (hb x hx)]
  · intro i c bs xs hc hbs hxs b hb
    have hsz := chunks_sizes bs hbs _ _ (Nat.le_refl _) b hb
    have hne : b ≠ [] := by intro h; rw [h] at hsz; simp at hsz
    apply c05x_collateDispatch_const _ _ (by simpa using hne)
    intro d hd
    obtain ⟨j, hj, rfl⟩ := List.mem_map.mp hd
    have hjin : j ∈ (chunks bs (xs.map (cfgOffset a i + ·))).flatten := List.mem_flatten.mpr ⟨b, hb, hj⟩
    rw [chunks_flatten bs hbs _ _ (Nat.le_refl _)] at hjin
    obtain ⟨y, hy, rfl⟩ := List.mem_map.mp hjin
    rw [c05x_concatGet_side a i c hc y (hxs y hy)]

/-- the collator's assertion does fail on a mixed batch (so the theorems above are not vacuous about it) -/
example : collateDispatch [1, 1, 0] = none ∧ collateDispatch [2, 2] = some 2 := by decide

end KDVerif.C05
