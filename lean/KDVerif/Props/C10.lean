/-
C10 — Batch mixup/cutmix mixes image and label with the same partner and weight.

`collate` (Model/MixCollator.lean) mirrors `KDMixCollator.collate`. Vocabulary of the statements:
  `partnerSpec shuffle B out.perm i`  the partner the configured shuffle mode promises for sample `i`
  `ctxWeight cfg out i`               the weight the context reports for sample `i` (`ctx["lambda"]`, broadcast)
  `ctxFlag cfg out i`                 the cut-mix flag the context reports for sample `i`
Every theorem speaks about an arbitrary successful call: all batch sizes, image extents, class counts,
mode layouts, configurations, float front-end outputs (`halves`) and tapes; where the generator's contract
is needed it is the hypothesis `TapeOk tape`.
-/
import KDVerif.Lemmas.MixCollate

namespace KDVerif.C10
open KDVerif.MixCollator

/-! ### non-vacuity witness shared by the theorems below
A concrete call with mixed cut-mix / mixup flags (lamb_mode=sample, roll, layout "index x class", B = 3, 4×4 images);
each theorem is followed by its instance on this call. -/

def exCfg : Cfg := ⟨1/2, 1/2, 1, some (4/5), some 1, .batch, .sample, .roll⟩
def exImg (s : Nat) : Img := fun c r k => ((s * 1000 + c * 100 + r * 10 + k : Nat) : Rat)
def exImgs : List Img := [exImg 0, exImg 1, exImg 2]
def exRows : List (List Rat) := [[1, 0], [0, 1], [1, 0]]
def exMode : List String := ["index", "x", "class"]
def exBatch : List Item := [.other 7, .x 4 4 exImgs, .cls2 exRows]
def exTape : Tape :=
  [.unif (1/10), .unifs [1/4, 3/4, 1/3], .betas (4/5) [1/5, 2/5, 3/5], .betas 1 [1/2, 1/2, 1/2],
   .ints 4 [1, 2, 3], .ints 4 [0, 1, 2]]
def exHalves : List (Nat × Nat) := [(1, 1), (1, 1), (1, 1)]

/-- the call succeeds, samples 0 and 2 are cut-mixed, sample 1 is mixed up, and the reported weights are the
    retained fractions `7/8`, `3/4` and the Beta draw `2/5` -/
theorem ex_values : (match collate exCfg exHalves exTape exMode exBatch with
    | .ok o => o.ctxUseCutmix == [true, false, true] && o.ctxLambda == [7/8, 2/5, 3/4] && o.perm == none
    | .error _ => false) = true := by decide +kernel

theorem ex_ok : ∃ out, collate exCfg exHalves exTape exMode exBatch = .ok out := by
  have h := ex_values
  cases hc : collate exCfg exHalves exTape exMode exBatch with
  | ok o => exact ⟨o, rfl⟩
  | error e => rw [hc] at h; cases h

theorem ex_tapeOk : TapeOk exTape := by
  intro d hd
  simp only [exTape, List.mem_cons, List.not_mem_nil, or_false] at hd
  rcases hd with h | h | h | h | h | h <;> subst h <;> simp only [Draw.Ok, List.mem_cons, List.not_mem_nil, or_false]
  · constructor <;> grind
  · intro v hv; rcases hv with h | h | h <;> subst h <;> constructor <;> grind
  · intro v hv; rcases hv with h | h | h <;> subst h <;> constructor <;> grind
  · intro v hv; rcases hv with h | h | h <;> subst h <;> constructor <;> grind
  · intro v hv; omega
  · intro v hv; omega

theorem ex_getX : getItem exMode "x" exBatch = some (.x 4 4 exImgs) := by
  have h : exMode.idxOf "x" = 1 := by decide +kernel
  simp [getItem, h, exBatch]
theorem ex_getY : getItem exMode "class" exBatch = some (.cls2 exRows) := by
  have h : exMode.idxOf "class" = 2 := by decide +kernel
  simp [getItem, h, exBatch]
theorem ex_totalP : 0 ≤ exCfg.totalP := by decide +kernel
theorem ex_classMode : "class" ∈ exMode := by decide


/-- **Partners stay inside the batch.** For every tape that satisfies the generator's contract the partner
    of every sample is a sample of the same batch (so no default value is ever read). -/
theorem partner_in_range {cfg halves tape mode batch out h w imgs}
    (hc : collate cfg halves tape mode batch = .ok out) (hx : getItem mode "x" batch = some (.x h w imgs))
    (hok : TapeOk tape) (i : Nat) (hi : i < imgs.length) :
    partnerSpec cfg.shuffle imgs.length out.perm i < imgs.length := by
  obtain ⟨r⟩ := collate_run hc
  have hg := r.getX
  rw [hx] at hg
  simp only [Option.some.injEq, Item.x.injEq] at hg
  obtain ⟨_, _, himgs⟩ := hg
  subst himgs
  have f := plan_facts r.hplan
  rw [r.perm]
  unfold partnerSpec
  by_cases hB : r.imgs.length = 1
  · simp [hB]
  · simp only [hB, if_false]
    cases hs : cfg.shuffle with
    | roll => simp only; exact Nat.mod_lt _ (by omega)
    | flip => simp only; omega
    | random =>
      simp only
      obtain ⟨l, hl, hperm⟩ := f.perm_ok hok hB hs
      rw [hl]
      simp only [Option.getD_some]
      have hlen : l.length = r.imgs.length := by rw [hperm.length_eq]; simp
      have hmem := getD_mem l i 0 (by omega)
      have := (hperm.mem_iff).mp hmem
      simpa using this

example : partnerSpec .roll 4 none 0 = 3 ∧ partnerSpec .flip 4 none 1 = 2 ∧
    partnerSpec .random 3 (some [2, 0, 1]) 1 = 0 ∧ partnerSpec .roll 1 none 0 = 0 := by decide


example : ∃ out, collate exCfg exHalves exTape exMode exBatch = .ok out ∧
    ∀ i, i < 3 → partnerSpec exCfg.shuffle 3 out.perm i < 3 := by
  obtain ⟨out, h⟩ := ex_ok
  exact ⟨out, h, fun i hi => partner_in_range h ex_getX ex_tapeOk i hi⟩

/-- **The partner follows the configured shuffle mode** (this is what `partnerSpec` says, spelled out):
    a single-sample batch is mixed with itself, `roll` pairs `i` with `i-1` (cyclically), `flip` pairs `i`
    with `B-1-i` and is only accepted for even `B`, `random` pairs `i` with entry `i` of the permutation that
    was drawn — one permutation of `0..B-1`, which the call reports as `out.perm`. -/
theorem partner_follows_shuffle_mode {cfg halves tape mode batch out h w imgs}
    (hc : collate cfg halves tape mode batch = .ok out) (hx : getItem mode "x" batch = some (.x h w imgs)) :
    let B := imgs.length
    let p := partnerSpec cfg.shuffle B out.perm
    (B = 1 → p 0 = 0) ∧
    (B ≠ 1 → cfg.shuffle = .roll → ∀ i, p i = (i + B - 1) % B) ∧
    (B ≠ 1 → cfg.shuffle = .flip → B % 2 = 0 ∧ ∀ i, p i = B - 1 - i) ∧
    (B ≠ 1 → cfg.shuffle = .random → TapeOk tape →
      ∃ l, out.perm = some l ∧ l.Perm (List.range B) ∧ ∀ i, p i = l.getD i 0) := by
  obtain ⟨r⟩ := collate_run hc
  have hg := r.getX
  rw [hx] at hg
  simp only [Option.some.injEq, Item.x.injEq] at hg
  obtain ⟨_, _, himgs⟩ := hg
  subst himgs
  have f := plan_facts r.hplan
  refine ⟨?_, ?_, ?_, ?_⟩
  · intro hB; simp [partnerSpec, hB]
  · intro hB hs i; simp [partnerSpec, hB, hs]
  · intro hB hs
    refine ⟨?_, ?_⟩
    · cases f.flip_even hs with
      | inl h => exact absurd h hB
      | inr h => exact h
    · intro i; simp [partnerSpec, hB, hs]
  · intro hB hs hok
    obtain ⟨l, hl, hperm⟩ := f.perm_ok hok hB hs
    rw [r.perm]
    exact ⟨l, hl, hperm, fun i => by simp [partnerSpec, hB, hs, hl]⟩


example : ∃ out, collate exCfg exHalves exTape exMode exBatch = .ok out ∧
    ∀ i, partnerSpec exCfg.shuffle 3 out.perm i = (i + 3 - 1) % 3 := by
  obtain ⟨out, h⟩ := ex_ok
  exact ⟨out, h, (partner_follows_shuffle_mode h ex_getX).2.1 (by decide) rfl⟩

/-- **Mixup image formula.** On every sample the context reports as mixed-up, every pixel of the emitted
    image is `w·x_i + (1-w)·x_p(i)` with `w` the weight the context reports and `p(i)` the partner of the
    shuffle mode. -/
theorem image_mixup {cfg halves tape mode batch out h w imgs}
    (hc : collate cfg halves tape mode batch = .ok out) (hx : getItem mode "x" batch = some (.x h w imgs)) :
    ∃ imgs', getItem mode "x" out.batch = some (.x h w imgs') ∧ imgs'.length = imgs.length ∧
      ∀ i, i < imgs.length → ctxFlag cfg out i = false → ∀ c r k,
        imgs'.getD i zeroImg c r k =
          ctxWeight cfg out i * imgs.getD i zeroImg c r k +
          (1 - ctxWeight cfg out i) * imgs.getD (partnerSpec cfg.shuffle imgs.length out.perm i) zeroImg c r k := by
  obtain ⟨r⟩ := collate_run hc
  have hg := r.getX
  rw [hx] at hg
  simp only [Option.some.injEq, Item.x.injEq] at hg
  obtain ⟨hh, hw, himgs⟩ := hg
  have f := plan_facts r.hplan
  refine ⟨outImgs cfg r.pl r.imgs, ?_, ?_, ?_⟩
  · rw [out_images r, hh, hw]
  · rw [← himgs]; simp [outImgs]
  · intro i hi hflag c rr k
    rw [himgs] at hi
    rw [outImgs_getD cfg r.pl r.imgs i hi]
    have hfl : flagAt cfg r.pl i = false := by
      simpa [ctxFlag, flagAt, r.ctxU] using hflag
    simp only [hfl, Bool.false_eq_true, if_false, mixImg]
    rw [f.partner i hi]
    simp only [ctxWeight, lamAt, r.ctxL, r.perm, himgs]


example : ∃ out imgs', collate exCfg exHalves exTape exMode exBatch = .ok out ∧
    getItem exMode "x" out.batch = some (.x 4 4 imgs') ∧ imgs'.length = 3 := by
  obtain ⟨out, h⟩ := ex_ok
  obtain ⟨imgs', h1, h2, _⟩ := image_mixup h ex_getX
  exact ⟨out, imgs', h, h1, h2⟩

/-- **Cutmix image formula.** On every sample the context reports as cut-mixed the emitted image is `x_i`
    with one box of `x_p(i)` pasted: the box lies inside the image, pixels inside it are the partner's,
    pixels outside are the sample's own, and the retained pixel fraction `1 - area/(h·w)` is exactly the
    weight the context reports (the one the label is mixed with, see `label_formula`). -/
theorem image_cutmix {cfg halves tape mode batch out h w imgs}
    (hc : collate cfg halves tape mode batch = .ok out) (hx : getItem mode "x" batch = some (.x h w imgs))
    (hok : TapeOk tape) (htp : 0 ≤ cfg.totalP) :
    ∃ imgs', getItem mode "x" out.batch = some (.x h w imgs') ∧ imgs'.length = imgs.length ∧
      ∀ i, i < imgs.length → ctxFlag cfg out i = true →
        ∃ b : Box, b.top ≤ b.bot ∧ b.bot ≤ h ∧ b.left ≤ b.right ∧ b.right ≤ w ∧
          (∀ c r k, imgs'.getD i zeroImg c r k =
            if b.top ≤ r ∧ r < b.bot ∧ b.left ≤ k ∧ k < b.right
            then imgs.getD (partnerSpec cfg.shuffle imgs.length out.perm i) zeroImg c r k
            else imgs.getD i zeroImg c r k) ∧
          1 - ((b.bot - b.top) * (b.right - b.left) : Nat) / ((h * w : Nat) : Rat) = ctxWeight cfg out i := by
  obtain ⟨r⟩ := collate_run hc
  have hg := r.getX
  rw [hx] at hg
  simp only [Option.some.injEq, Item.x.injEq] at hg
  obtain ⟨hh, hw, himgs⟩ := hg
  have f := plan_facts r.hplan
  refine ⟨outImgs cfg r.pl r.imgs, ?_, ?_, ?_⟩
  · rw [out_images r, hh, hw]
  · rw [← himgs]; simp [outImgs]
  · intro i hi hflag
    rw [himgs] at hi
    have hfl : flagAt cfg r.pl i = true := by
      simpa [ctxFlag, flagAt, r.ctxU] using hflag
    obtain ⟨hlam, ch, cw, hhf, whf, hbox, hch, hcw⟩ := f.cut hok htp i hi hfl
    have hb := mkBox_bounds r.h r.w ch cw hhf whf hch hcw
    rw [← hbox] at hb
    simp only at hb
    refine ⟨boxAt cfg r.pl i, hb.1, hh ▸ hb.2.1, hb.2.2.1, hw ▸ hb.2.2.2, ?_, ?_⟩
    · intro c rr k
      rw [outImgs_getD cfg r.pl r.imgs i hi]
      simp only [hfl, if_true, paste, Box.mem]
      rw [f.partner i hi]
      simp only [r.perm, himgs, Bool.and_eq_true, decide_eq_true_eq, and_assoc]
    · have : ctxWeight cfg out i = lamAt cfg r.pl i := by simp [ctxWeight, lamAt, r.ctxL]
      rw [this, hlam, ← hh, ← hw]
      rfl


example : ∃ out imgs', collate exCfg exHalves exTape exMode exBatch = .ok out ∧
    getItem exMode "x" out.batch = some (.x 4 4 imgs') := by
  obtain ⟨out, h⟩ := ex_ok
  obtain ⟨imgs', h1, _, _⟩ := image_cutmix h ex_getX ex_tapeOk ex_totalP
  exact ⟨out, imgs', h, h1⟩

/-- **Label formula, with the image's partner and weight.** Row `i` of the emitted label tensor is
    `w·y_i + (1-w)·y_p(i)` where `w = ctxWeight` and `p = partnerSpec … out.perm` are literally the weight
    and partner of `image_mixup` / `image_cutmix` (for a cut-mixed sample `w` is the retained pixel
    fraction). In particular the permutation drawn for the image is the one used for the label. -/
theorem label_formula {cfg halves tape mode batch out rows}
    (hc : collate cfg halves tape mode batch = .ok out)
    (hm : "class" ∈ mode) (hy : getItem mode "class" batch = some (.cls2 rows)) :
    ∃ rows', getItem mode "class" out.batch = some (.cls2 rows') ∧ rows'.length = rows.length ∧
      ∀ i, i < rows.length →
        rows'.getD i [] = mixRow (ctxWeight cfg out i) (rows.getD i [])
          (rows.getD (partnerSpec cfg.shuffle rows.length out.perm i) []) := by
  obtain ⟨r⟩ := collate_run hc
  obtain ⟨hout, hlen⟩ := out_labels_cls2 r hm hy
  have f := plan_facts r.hplan
  refine ⟨outRows cfg r.pl rows, hout, by simp [outRows], ?_⟩
  intro i hi
  rw [outRows_getD cfg r.pl rows i hi, f.idxY_eq, f.partner i (hlen ▸ hi)]
  simp only [ctxWeight, lamAt, r.ctxL, r.perm, hlen]


example : ∃ out rows', collate exCfg exHalves exTape exMode exBatch = .ok out ∧
    getItem exMode "class" out.batch = some (.cls2 rows') ∧ rows'.length = 3 := by
  obtain ⟨out, h⟩ := ex_ok
  obtain ⟨rows', h1, h2, _⟩ := label_formula h ex_classMode ex_getY
  exact ⟨out, rows', h, h1, h2⟩

/-- **The weight reported in the context is a proper mixing weight**: it lies in `[0, 1]` for every
    sample (Beta draw for mixup, retained area fraction for cutmix). -/
theorem ctx_weight_range {cfg halves tape mode batch out h w imgs}
    (hc : collate cfg halves tape mode batch = .ok out) (hx : getItem mode "x" batch = some (.x h w imgs))
    (hok : TapeOk tape) (htp : 0 ≤ cfg.totalP) (i : Nat) (hi : i < imgs.length) :
    0 ≤ ctxWeight cfg out i ∧ ctxWeight cfg out i ≤ 1 := by
  obtain ⟨r⟩ := collate_run hc
  have hg := r.getX
  rw [hx] at hg
  simp only [Option.some.injEq, Item.x.injEq] at hg
  obtain ⟨_, _, himgs⟩ := hg
  rw [himgs] at hi
  have f := plan_facts r.hplan
  have : ctxWeight cfg out i = lamAt cfg r.pl i := by simp [ctxWeight, lamAt, r.ctxL]
  rw [this]
  cases hfl : flagAt cfg r.pl i with
  | false => exact f.mix_range hok i hi hfl
  | true =>
    obtain ⟨hlam, ch, cw, hhf, whf, hbox, hch, hcw⟩ := f.cut hok htp i hi hfl
    have hb := mkBox_bounds r.h r.w ch cw hhf whf hch hcw
    rw [← hbox] at hb
    simp only at hb
    rw [hlam]
    exact adjLam_range r.h r.w _ hb.2.1 hb.2.2.2


example : ∃ out, collate exCfg exHalves exTape exMode exBatch = .ok out ∧
    ∀ i, i < 3 → 0 ≤ ctxWeight exCfg out i ∧ ctxWeight exCfg out i ≤ 1 := by
  obtain ⟨out, h⟩ := ex_ok
  exact ⟨out, h, fun i hi => ctx_weight_range h ex_getX ex_tapeOk ex_totalP i hi⟩

/-- **Label rows stay on the simplex.** If every input row is non-negative and sums to one (one-hot rows in
    particular) and all rows have the same width, every emitted row is non-negative and sums to one. -/
theorem labels_convex {cfg halves tape mode batch out rows} {C : Nat}
    (hc : collate cfg halves tape mode batch = .ok out)
    (hm : "class" ∈ mode) (hy : getItem mode "class" batch = some (.cls2 rows))
    (hok : TapeOk tape) (htp : 0 ≤ cfg.totalP)
    (hrows : ∀ y ∈ rows, y.length = C ∧ (∀ v ∈ y, 0 ≤ v) ∧ y.sum = 1) :
    ∃ rows', getItem mode "class" out.batch = some (.cls2 rows') ∧ rows'.length = rows.length ∧
      ∀ i, i < rows.length → (rows'.getD i []).length = C ∧ (∀ v ∈ rows'.getD i [], 0 ≤ v) ∧ (rows'.getD i []).sum = 1 := by
  obtain ⟨rows', hout, hlen', hform⟩ := label_formula hc hm hy
  obtain ⟨r⟩ := collate_run hc
  obtain ⟨_, hlen⟩ := out_labels_cls2 r hm hy
  refine ⟨rows', hout, hlen', ?_⟩
  intro i hi
  have hx := r.getX
  have hp := partner_in_range hc hx hok i (hlen ▸ hi)
  rw [← hlen] at hp
  obtain ⟨w0, w1⟩ := ctx_weight_range hc hx hok htp i (hlen ▸ hi)
  rw [hform i hi]
  have hyi := hrows _ (getD_mem rows i [] hi)
  have hyp := hrows _ (getD_mem rows _ [] hp)
  have hl : (rows.getD i []).length = (rows.getD (partnerSpec cfg.shuffle rows.length out.perm i) []).length := by
    rw [hyi.1, hyp.1]
  refine ⟨?_, ?_, ?_⟩
  · rw [mixRow_length _ _ _ hl, hyi.1]
  · exact mixRow_nonneg _ w0 w1 _ _ hyi.2.1 hyp.2.1
  · rw [mixRow_sum _ _ _ hl, hyi.2.2, hyp.2.2]
    grind


example : ∀ y ∈ exRows, y.length = 2 ∧ (∀ v ∈ y, (0 : Rat) ≤ v) ∧ y.sum = 1 := by decide +kernel

/-- **Binary (scalar) labels.** A 1-d label tensor with entries in `[0,1]` comes back as a 1-d tensor with
    `y'_i = w·y_i + (1-w)·y_p(i)` (same weight and partner as the image), again inside `[0,1]`. -/
theorem label_formula_binary {cfg halves tape mode batch out ys}
    (hc : collate cfg halves tape mode batch = .ok out)
    (hm : "class" ∈ mode) (hy : getItem mode "class" batch = some (.cls1 ys))
    (hok : TapeOk tape) (htp : 0 ≤ cfg.totalP) :
    ∃ ys', getItem mode "class" out.batch = some (.cls1 ys') ∧ ys'.length = ys.length ∧
      ∀ i, i < ys.length →
        ys'.getD i 0 = ctxWeight cfg out i * ys.getD i 0 +
          (1 - ctxWeight cfg out i) * ys.getD (partnerSpec cfg.shuffle ys.length out.perm i) 0 ∧
        0 ≤ ys'.getD i 0 ∧ ys'.getD i 0 ≤ 1 := by
  obtain ⟨r⟩ := collate_run hc
  obtain ⟨hlab, hrange⟩ := getLabels_cls1 hm hy r.getL
  have hlen : ys.length = r.imgs.length := by
    have := r.labLen _ _ hlab
    simpa using this
  have f := plan_facts r.hplan
  -- every mixed row is a singleton
  have hrow : ∀ i, i < ys.length →
      (outRows cfg r.pl (ys.map (fun v => [v]))).getD i [] =
        [ctxWeight cfg out i * ys.getD i 0 +
          (1 - ctxWeight cfg out i) * ys.getD (partnerSpec cfg.shuffle ys.length out.perm i) 0] := by
    intro i hi
    have hp := partner_in_range hc r.getX hok i (hlen ▸ hi)
    rw [← hlen] at hp
    rw [outRows_getD _ _ _ _ (by simpa using hi), f.idxY_eq, f.partner i (hlen ▸ hi)]
    rw [r.perm] at hp
    rw [← hlen] at *
    simp only [List.getD_eq_getElem?_getD, List.getElem?_map, List.getElem?_eq_getElem hi,
      List.getElem?_eq_getElem hp, Option.map_some, Option.getD_some, mixRow, List.zipWith_cons_cons,
      List.zipWith_nil_left, ctxWeight, lamAt, r.ctxL, r.perm]
  have hflat : (outRows cfg r.pl (ys.map (fun v => [v]))).flatten =
      (List.range ys.length).map (fun i => ctxWeight cfg out i * ys.getD i 0 +
          (1 - ctxWeight cfg out i) * ys.getD (partnerSpec cfg.shuffle ys.length out.perm i) 0) := by
    have hr : outRows cfg r.pl (ys.map (fun v => [v])) =
        (List.range ys.length).map (fun i => [ctxWeight cfg out i * ys.getD i 0 +
          (1 - ctxWeight cfg out i) * ys.getD (partnerSpec cfg.shuffle ys.length out.perm i) 0]) := by
      apply List.ext_getElem?
      intro k
      by_cases hk : k < ys.length
      · have h1 := hrow k hk
        have hk' : k < (outRows cfg r.pl (ys.map (fun v => [v]))).length := by simp [outRows]; exact hk
        rw [List.getD_eq_getElem?_getD, List.getElem?_eq_getElem hk'] at h1
        simp only [Option.getD_some] at h1
        rw [List.getElem?_eq_getElem hk', h1, List.getElem?_map, List.getElem?_range hk]
        rfl
      · rw [List.getElem?_eq_none (by simp [outRows]; omega), List.getElem?_eq_none (by simp; omega)]
    rw [hr]
    exact flatten_map_singleton _ _
  have hylt : (mode.idxOf "class") < batch.length := by
    unfold getItem at hy
    by_cases hlt : mode.idxOf "class" < batch.length
    · exact hlt
    · rw [List.getElem?_eq_none (by omega)] at hy; cases hy
  refine ⟨(List.range ys.length).map (fun i => ctxWeight cfg out i * ys.getD i 0 +
          (1 - ctxWeight cfg out i) * ys.getD (partnerSpec cfg.shuffle ys.length out.perm i) 0), ?_, ?_, ?_⟩
  · unfold getItem
    rw [r.outB, hlab]
    unfold finalBatch
    simp only [if_true]
    rw [getElem?_setItem]
    simp only [if_true]
    rw [getElem?_setItem]
    have hne : mode.idxOf "class" ≠ mode.idxOf "x" := idxOf_ne hm (by decide)
    simp only [hne, if_false, List.getElem?_eq_getElem hylt, Option.map_some]
    rw [hflat]
  · simp
  · intro i hi
    have hp := partner_in_range hc r.getX hok i (hlen ▸ hi)
    rw [← hlen] at hp
    obtain ⟨w0, w1⟩ := ctx_weight_range hc r.getX hok htp i (hlen ▸ hi)
    have e : ((List.range ys.length).map (fun i => ctxWeight cfg out i * ys.getD i 0 +
          (1 - ctxWeight cfg out i) * ys.getD (partnerSpec cfg.shuffle ys.length out.perm i) 0)).getD i 0 =
        ctxWeight cfg out i * ys.getD i 0 +
          (1 - ctxWeight cfg out i) * ys.getD (partnerSpec cfg.shuffle ys.length out.perm i) 0 := by
      simp [List.getD_eq_getElem?_getD, List.getElem?_map, List.getElem?_range hi]
    rw [e]
    have ri := hrange _ (getD_mem ys i 0 hi)
    have rp := hrange _ (getD_mem ys _ 0 hp)
    exact ⟨rfl, convex_nonneg _ _ _ w0 w1 ri.1 rp.1, convex_le_one _ _ _ w0 w1 ri.2 rp.2⟩


/-- a 1-d label batch that passes the `[0,1]` assertion and is collated -/
example : (match collate exCfg exHalves exTape exMode [.other 7, .x 4 4 exImgs, .cls1 [0, 1, 1/2]] with
    | .ok o => (match getItem exMode "class" o.batch with | some (.cls1 ys) => ys.length == 3 | _ => false)
    | .error _ => false) = true := by decide +kernel

/-- **Everything else passes through, layout preserved.** The output batch has as many items as the input
    batch, in the same order; every item whose mode entry is neither `x` nor `class` (index, …) is the
    input item. -/
theorem passthrough {cfg halves tape mode batch out}
    (hc : collate cfg halves tape mode batch = .ok out) :
    out.batch.length = batch.length ∧
    ∀ k : Nat, mode[k]? ≠ some "x" → mode[k]? ≠ some "class" → out.batch[k]? = batch[k]? := by
  obtain ⟨r⟩ := collate_run hc
  rw [r.outB]
  unfold finalBatch
  have hkx : ∀ k : Nat, mode[k]? ≠ some "x" → k ≠ mode.idxOf "x" := by
    intro k hk he
    rw [he, mode_at_idxOf r.hasX] at hk
    exact hk rfl
  cases hl : r.lab with
  | none =>
    simp only
    refine ⟨length_setItem _ _ _ _, ?_⟩
    intro k hk _
    rw [getElem?_setItem]
    simp [hkx k hk]
  | some rb =>
    obtain ⟨rows, binary⟩ := rb
    simp only
    refine ⟨by rw [length_setItem, length_setItem], ?_⟩
    intro k hk hkc
    have hcls : "class" ∈ mode := by
      have := r.getL
      rw [hl] at this
      unfold getLabels at this
      by_cases hm : mode.contains "class" = true
      · simpa using hm
      · simp only [hm] at this
        simp at this
    have hkc' : k ≠ mode.idxOf "class" := by
      intro he
      rw [he, mode_at_idxOf hcls] at hkc
      exact hkc rfl
    rw [getElem?_setItem]
    simp only [hkc', if_false]
    rw [getElem?_setItem]
    simp [hkx k hk]


example : ∃ out, collate exCfg exHalves exTape exMode exBatch = .ok out ∧ out.batch.length = 3 ∧
    out.batch[0]? = exBatch[0]? := by
  obtain ⟨out, h⟩ := ex_ok
  obtain ⟨h1, h2⟩ := passthrough h
  exact ⟨out, h, h1, h2 0 (by decide) (by decide)⟩

/-- **The uninitialised `torch.empty` lambdas are never selected** (lamb_mode=sample): with the constructor's
    `total_p = 1` a sample is flagged cut-mix only if `cutmix_p > 0` and flagged mixup only if `mixup_p > 0`
    (`hsum0`: adding `0.0` is exact in float arithmetic, so `mixup_p = 0` forces `cutmix_p = total_p`). -/
theorem empty_never_selected (v totalP cutmixP mixupP : Rat) (hv : 0 ≤ v ∧ v < 1) (htp : totalP = 1)
    (hm0 : 0 ≤ mixupP) (hsum0 : mixupP = 0 → cutmixP = totalP) :
    (decide (v * totalP < cutmixP) = true → 0 < cutmixP) ∧
    (decide (v * totalP < cutmixP) = false → 0 < mixupP) := by
  subst htp
  constructor
  · intro h
    simp only [decide_eq_true_eq] at h
    grind
  · intro h
    simp only [decide_eq_false_iff_not] at h
    by_cases hz : mixupP = 0
    · have := hsum0 hz
      grind
    · grind


example : (0 : Rat) ≤ 1/4 ∧ (1/4 : Rat) < 1 ∧ ((0 : Rat) = 0 → (1 : Rat) = 1) := by decide +kernel

/-- the constructor only lets configurations with `total_p = 1` through (everything else is an assertion
    or `NotImplementedError`), so `0 ≤ cfg.totalP` in the theorems above is no restriction -/
theorem ctor_total_p (a : CtorArgs) (cfg : Cfg) (h : ctor a = .ok cfg) : cfg.totalP = 1 ∧ 0 ≤ cfg.totalP := by
  unfold ctor at h
  by_cases c1 : (a.mixupP.isNone && a.cutmixP.isNone) = true
  · rw [if_pos c1] at h; cases h
  rw [if_neg c1] at h
  simp only [] at h
  by_cases c2 : (!(decide (0 ≤ orZero a.mixupP) && decide (orZero a.mixupP ≤ 1))) = true
  · rw [if_pos c2] at h; cases h
  rw [if_neg c2] at h
  by_cases c3 : (!(decide (0 ≤ orZero a.cutmixP) && decide (orZero a.cutmixP ≤ 1))) = true
  · rw [if_pos c3] at h; cases h
  rw [if_neg c3] at h
  by_cases c4 : (!(decide (0 < a.floatSum) && decide (a.floatSum ≤ 1))) = true
  · rw [if_pos c4] at h; cases h
  rw [if_neg c4] at h
  by_cases c5 : (a.floatSum != 1) = true
  · rw [if_pos c5] at h; cases h
  rw [if_neg c5] at h
  by_cases c6 : (!alphaOk (orZero a.mixupP) a.mixupAlpha) = true
  · rw [if_pos c6] at h; cases h
  rw [if_neg c6] at h
  by_cases c7 : (!alphaOk (orZero a.cutmixP) a.cutmixAlpha) = true
  · rw [if_pos c7] at h; cases h
  rw [if_neg c7] at h
  have hs : a.floatSum = 1 := by simpa using c5
  split at h
  · simp only [Except.ok.injEq] at h
    subst h
    simp only
    rw [hs]
    constructor <;> grind
  · cases h

example : (match ctor ⟨some (1/2), some (1/2), some (4/5), some 1, 1, some .batch, some .sample, some .roll⟩ with
    | .ok c => c.totalP == 1 | .error _ => false) = true := by decide +kernel

end KDVerif.C10
