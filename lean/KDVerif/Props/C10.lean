/-
C10 — Batch mixup/cutmix mixes image and label with the same partner and weight.

`collate` (Model/MixCollator.lean) mirrors `KDMixCollator.collate`. Vocabulary of the statements:
  `partnerSpec shuffle B out.perm i`  the partner the configured shuffle mode promises for sample `i`
  `ctxWeight cfg out i`               the weight the context reports for sample `i` (`ctx["lambda"]`, broadcast)
  `ctxFlag cfg out i`                 the cut-mix flag the context reports for sample `i`
Every theorem speaks about an arbitrary successful call: all batch sizes, image extents, class counts,
mode layouts, configurations, float front-end outputs (`halves`) and tapes; where the generator's contract
is needed it is the hypothesis `TapeOk tape`.
-/
import KDVerif.Lemmas.MixCollate
import KDVerif.Lemmas.C10Extra

namespace KDVerif.C10
open KDVerif.MixCollator

/-! ### non-vacuity witness shared by the theorems below
A concrete call with mixed cut-mix / mixup flags (lamb_mode=sample, roll, layout "index x class", B = 3, 4×4 images);
each theorem is followed by its instance on this call. -/

def exCfg : Cfg := ⟨1/2, 1/2, 1, some (4/5), some 1, .batch, .sample, .roll⟩
def exImg (s : Nat) : Img := fun c r k => ((s * 1000 + c * 100 + r * 10 + k : Nat) : Rat)
def exImgs : List Img := [exImg 0, exImg 1, exImg 2]
def exRows : List (List Rat) := [[1, 0], [0, 1], [1, 0]]
def exMode : List String := ["index", "x", "class"]
def exBatch : List Item := [.other 7, .x 4 4 exImgs, .cls2 exRows]
def exTape : Tape :=
  [.unif (1/10), .unifs [1/4, 3/4, 1/3], .betas (4/5) [1/5, 2/5, 3/5], .betas 1 [1/2, 1/2, 1/2],
   .ints 4 [1, 2, 3], .ints 4 [0, 1, 2]]
def exHalves : List (Nat × Nat) := [(1, 1), (1, 1), (1, 1)]

/-- the call succeeds, samples 0 and 2 are cut-mixed, sample 1 is mixed up, and the reported weights are the
    retained fractions `7/8`, `3/4` and the Beta draw `2/5` -/
theorem ex_values : (match collate exCfg exHalves exTape exMode exBatch with
    | .ok o => o.ctxUseCutmix == [true, false, true] && o.ctxLambda == [7/8, 2/5, 3/4] && o.perm == none
    | .error _ => false) = true := by decide +kernel

theorem ex_ok : ∃ out, collate exCfg exHalves exTape exMode exBatch = .ok out := by
  have h := ex_values
  cases hc : collate exCfg exHalves exTape exMode exBatch with
  | ok o => exact ⟨o, rfl⟩
  | error e => rw [hc] at h; cases h

theorem ex_tapeOk : TapeOk exTape := by
  intro d hd
  simp only [exTape, List.mem_cons, List.not_mem_nil, or_false] at hd
  rcases hd with h | h | h | h | h | h <;> subst h <;> simp only [Draw.Ok, List.mem_cons, List.not_mem_nil, or_false]
  · constructor <;> grind
  · intro v hv; rcases hv with h | h | h <;> subst h <;> constructor <;> grind
  · intro v hv; rcases hv with h | h | h <;> subst h <;> constructor <;> grind
  · intro v hv; rcases hv with h | h | h <;> subst h <;> constructor <;> grind
  · intro v hv; omega
  · intro v hv; omega

theorem ex_getX : getItem exMode "x" exBatch = some (.x 4 4 exImgs) := by
  have h : exMode.idxOf "x" = 1 := by decide +kernel
  simp [getItem, h, exBatch]
theorem ex_getY : getItem exMode "class" exBatch = some (.cls2 exRows) := by
  have h : exMode.idxOf "class" = 2 := by decide +kernel
  simp [getItem, h, exBatch]
theorem ex_totalP : 0 ≤ exCfg.totalP := by decide +kernel
theorem ex_classMode : "class" ∈ exMode := by decide


/-- **Partners stay inside the batch.** For every tape that satisfies the generator's contract the partner
    of every sample is a sample of the same batch (so no default value is ever read). -/
theorem partner_in_range {cfg halves tape mode batch out h w imgs}
    (hc : collate cfg halves tape mode batch = .ok out) (hx : getItem mode "x" batch = some (.x h w imgs))
    (hok : TapeOk tape) (i : Nat) (hi : i < imgs.length) :
    partnerSpec cfg.shuffle imgs.length out.perm i < imgs.length := by
  obtain ⟨r⟩ := collate_run hc
  have hg := r.getX
  rw [hx] at hg
  simp only [Option.some.injEq, Item.x.injEq] at hg
  obtain ⟨_, _, himgs⟩ := hg
  subst himgs
  have f := plan_facts r.hplan
  rw [r.perm]
  unfold partnerSpec
  by_cases hB : r.imgs.length = 1
  · simp [hB]
  · simp only [hB, if_false]
    cases hs : cfg.shuffle with
    | roll => simp only; exact Nat.mod_lt _ (by omega)
    | flip => simp only; omega
    | random =>
      simp only
      obtain ⟨l, hl, hperm⟩ := f.perm_ok hok hB hs
      rw [hl]
      simp only [Option.getD_some]
      have hlen : l.length = r.imgs.length := by rw [hperm.length_eq]; simp
      have hmem := getD_mem l i 0 (by omega)
      have := (hperm.mem_iff).mp hmem
      simpa using this

example : partnerSpec .roll 4 none 0 = 3 ∧ partnerSpec .flip 4 none 1 = 2 ∧
    partnerSpec .random 3 (some [2, 0, 1]) 1 = 0 ∧ partnerSpec .roll 1 none 0 = 0 := by decide


example : ∃ out, collate exCfg exHalves exTape exMode exBatch = .ok out ∧
    ∀ i, i < 3 → partnerSpec exCfg.shuffle 3 out.perm i < 3 := by
  obtain ⟨out, h⟩ := ex_ok
  exact ⟨out, h, fun i hi => partner_in_range h ex_getX ex_tapeOk i hi⟩

/-- **The partner follows the configured shuffle mode** (this is what `partnerSpec` says, spelled out):
    a single-sample batch is mixed with itself, `roll` pairs `i` with `i-1` (cyclically), `flip` pairs `i`
    with `B-1-i` and is only accepted for even `B`, `random` pairs `i` with entry `i` of the permutation that
    was drawn — one permutation of `0..B-1`, which the call reports as `out.perm`. -/
theorem partner_follows_shuffle_mode {cfg halves tape mode batch out h w imgs}
    (hc : collate cfg halves tape mode batch = .ok out) (hx : getItem mode "x" batch = some (.x h w imgs)) :
    let B := imgs.length
    let p := partnerSpec cfg.shuffle B out.perm
    (B = 1 → p 0 = 0) ∧
    (B ≠ 1 → cfg.shuffle = .roll → ∀ i, p i = (i + B - 1) % B) ∧
    (B ≠ 1 → cfg.shuffle = .flip → B % 2 = 0 ∧ ∀ i, p i = B - 1 - i) ∧
    (B ≠ 1 → cfg.shuffle = .random → TapeOk tape →
      ∃ l, out.perm = some l ∧ l.Perm (List.range B) ∧ ∀ i, p i = l.getD i 0) := by
  obtain ⟨r⟩ := collate_run hc
  have hg := r.getX
  rw [hx] at hg
  simp only [Option.some.injEq, Item.x.injEq] at hg
  obtain ⟨_, _, himgs⟩ := hg
  subst himgs
  have f := plan_facts r.hplan
  refine ⟨?_, ?_, ?_, ?_⟩
  · intro hB; simp [partnerSpec, hB]
  · intro hB hs i; simp [partnerSpec, hB, hs]
  · intro hB hs
    refine ⟨?_, ?_⟩
    · cases f.flip_even hs with
      | inl h => exact absurd h hB
      | inr h => exact h
    · intro i; simp [partnerSpec, hB, hs]
  · intro hB hs hok
    obtain ⟨l, hl, hperm⟩ := f.perm_ok hok hB hs
    rw [r.perm]
    exact ⟨l, hl, hperm, fun i => by simp [partnerSpec, hB, hs, hl]⟩


example : ∃ out, collate exCfg exHalves exTape exMode exBatch = .ok out ∧
    ∀ i, partnerSpec exCfg.shuffle 3 out.perm i = (i + 3 - 1) % 3 := by
  obtain ⟨out, h⟩ := ex_ok
  exact ⟨out, h, (partner_follows_shuffle_mode h ex_getX).2.1 (by decide) rfl⟩

/-- **Mixup image formula.** On every sample the context reports as mixed-up, every pixel of the emitted
    image is `w·x_i + (1-w)·x_p(i)` with `w` the weight the context reports and `p(i)` the partner of the
    shuffle mode. -/
theorem image_mixup {cfg halves tape mode batch out h w imgs}
    (hc : collate cfg halves tape mode batch = .ok out) (hx : getItem mode "x" batch = some (.x h w imgs)) :
    ∃ imgs', getItem mode "x" out.batch = some (.x h w imgs') ∧ imgs'.length = imgs.length ∧
      ∀ i, i < imgs.length → ctxFlag cfg out i = false → ∀ c r k,
        imgs'.getD i zeroImg c r k =
          ctxWeight cfg out i * imgs.getD i zeroImg c r k +
          (1 - ctxWeight cfg out i) * imgs.getD (partnerSpec cfg.shuffle imgs.length out.perm i) zeroImg c r k := by
  obtain ⟨r⟩ := collate_run hc
  have hg := r.getX
  rw [hx] at hg
  simp only [Option.some.injEq, Item.x.injEq] at hg
  obtain ⟨hh, hw, himgs⟩ := hg
  have f := plan_facts r.hplan
  refine ⟨outImgs cfg r.pl r.imgs, ?_, ?_, ?_⟩
  · rw [out_images r, hh, hw]
  · rw [← himgs]; simp [outImgs]
  · intro i hi hflag c rr k
    rw [himgs] at hi
    rw [outImgs_getD cfg r.pl r.imgs i hi]
    have hfl : flagAt cfg r.pl i = false := by
      simpa [ctxFlag, flagAt, r.ctxU] using hflag
    simp only [hfl, Bool.false_eq_true, if_false, mixImg]
    rw [f.partner i hi]
    simp only [ctxWeight, lamAt, r.ctxL, r.perm, himgs]


example : ∃ out imgs', collate exCfg exHalves exTape exMode exBatch = .ok out ∧
    getItem exMode "x" out.batch = some (.x 4 4 imgs') ∧ imgs'.length = 3 := by
  obtain ⟨out, h⟩ := ex_ok
  obtain ⟨imgs', h1, h2, _⟩ := image_mixup h ex_getX
  exact ⟨out, imgs', h, h1, h2⟩

/-- **Cutmix image formula.** On every sample the context reports as cut-mixed the emitted image is `x_i`
    with one box of `x_p(i)` pasted: the box lies inside the image, pixels inside it are the partner's,
    pixels outside are the sample's own, and the retained pixel fraction `1 - area/(h·w)` is exactly the
    weight the context reports (the one the label is mixed with, see `label_formula`). -/
theorem image_cutmix {cfg halves tape mode batch out h w imgs}
    (hc : collate cfg halves tape mode batch = .ok out) (hx : getItem mode "x" batch = some (.x h w imgs))
    (hok : TapeOk tape) (htp : 0 ≤ cfg.totalP) :
    ∃ imgs', getItem mode "x" out.batch = some (.x h w imgs') ∧ imgs'.length = imgs.length ∧
      ∀ i, i < imgs.length → ctxFlag cfg out i = true →
        ∃ b : Box, b.top ≤ b.bot ∧ b.bot ≤ h ∧ b.left ≤ b.right ∧ b.right ≤ w ∧
          (∀ c r k, imgs'.getD i zeroImg c r k =
            if b.top ≤ r ∧ r < b.bot ∧ b.left ≤ k ∧ k < b.right
            then imgs.getD (partnerSpec cfg.shuffle imgs.length out.perm i) zeroImg c r k
            else imgs.getD i zeroImg c r k) ∧
          1 - ((b.bot - b.top) * (b.right - b.left) : Nat) / ((h * w : Nat) : Rat) = ctxWeight cfg out i := by
  obtain ⟨r⟩ := collate_run hc
  have hg := r.getX
  rw [hx] at hg
  simp only [Option.some.injEq, Item.x.injEq] at hg
  obtain ⟨hh, hw, himgs⟩ := hg
  have f := plan_facts r.hplan
  refine ⟨outImgs cfg r.pl r.imgs, ?_, ?_, ?_⟩
  · rw [out_images r, hh, hw]
  · rw [← himgs]; simp [outImgs]
  · intro i hi hflag
    rw [himgs] at hi
    have hfl : flagAt cfg r.pl i = true := by
      simpa [ctxFlag, flagAt, r.ctxU] using hflag
    obtain ⟨hlam, ch, cw, hhf, whf, hbox, hch, hcw⟩ := f.cut hok htp i hi hfl
    have hb := mkBox_bounds r.h r.w ch cw hhf whf hch hcw
    rw [← hbox] at hb
    simp only at hb
    refine ⟨boxAt cfg r.pl i, hb.1, hh ▸ hb.2.1, hb.2.2.1, hw ▸ hb.2.2.2, ?_, ?_⟩
    · intro c rr k
      rw [outImgs_getD cfg r.pl r.imgs i hi]
      simp only [hfl, if_true, paste, Box.mem]
      rw [f.partner i hi]
      simp only [r.perm, himgs, Bool.and_eq_true, decide_eq_true_eq, and_assoc]
    · have : ctxWeight cfg out i = lamAt cfg r.pl i := by simp [ctxWeight, lamAt, r.ctxL]
      rw [this, hlam, ← hh, ← hw]
      rfl


example : ∃ out imgs', collate exCfg exHalves exTape exMode exBatch = .ok out ∧
    getItem exMode "x" out.batch = some (.x 4 4 imgs') := by
  obtain ⟨out, h⟩ := ex_ok
  obtain ⟨imgs', h1, _, _⟩ := image_cutmix h ex_getX ex_tapeOk ex_totalP
  exact ⟨out, imgs', h, h1⟩

/-- **Label formula, with the image's partner and weight.** Row `i` of the emitted label tensor is
    `w·y_i + (1-w)·y_p(i)` where `w = ctxWeight` and `p = partnerSpec … out.perm` are literally the weight
    and partner of `image_mixup` / `image_cutmix` (for a cut-mixed sample `w` is the retained pixel
    fraction). In particular the permutation drawn for the image is the one used for the label. -/
theorem label_formula {cfg halves tape mode batch out rows}
    (hc : collate cfg halves tape mode batch = .ok out)
    (hm : "class" ∈ mode) (hy : getItem mode "class" batch = some (.cls2 rows)) :
    ∃ rows', getItem mode "class" out.batch = some (.cls2 rows') ∧ rows'.length = rows.length ∧
      ∀ i, i < rows.length →
        rows'.getD i [] = mixRow (ctxWeight cfg out i) (rows.getD i [])
          (rows.getD (partnerSpec cfg.shuffle rows.length out.perm i) []) := by
  obtain ⟨r⟩ := collate_run hc
  obtain ⟨hout, hlen⟩ := out_labels_cls2 r hm hy
  have f := plan_facts r.hplan
  refine ⟨outRows cfg r.pl rows, hout, by simp [outRows], ?_⟩
  intro i hi
  rw [outRows_getD cfg r.pl rows i hi, f.idxY_eq, f.partner i (hlen ▸ hi)]
  simp only [ctxWeight, lamAt, r.ctxL, r.perm, hlen]


example : ∃ out rows', collate exCfg exHalves exTape exMode exBatch = .ok out ∧
    getItem exMode "class" out.batch = some (.cls2 rows') ∧ rows'.length = 3 := by
  obtain ⟨out, h⟩ := ex_ok
  obtain ⟨rows', h1, h2, _⟩ := label_formula h ex_classMode ex_getY
  exact ⟨out, rows', h, h1, h2⟩

/-- **The weight reported in the context is a proper mixing weight**: it lies in `[0, 1]` for every
    sample (Beta draw for mixup, retained area fraction for cutmix). -/
theorem ctx_weight_range {cfg halves tape mode batch out h w imgs}
    (hc : collate cfg halves tape mode batch = .ok out) (hx : getItem mode "x" batch = some (.x h w imgs))
    (hok : TapeOk tape) (htp : 0 ≤ cfg.totalP) (i : Nat) (hi : i < imgs.length) :
    0 ≤ ctxWeight cfg out i ∧ ctxWeight cfg out i ≤ 1 := by
  obtain ⟨r⟩ := collate_run hc
  have hg := r.getX
  rw [hx] at hg
  simp only [Option.some.injEq, Item.x.injEq] at hg
  obtain ⟨_, _, himgs⟩ := hg
  rw [himgs] at hi
  have f := plan_facts r.hplan
  have : ctxWeight cfg out i = lamAt cfg r.pl i := by simp [ctxWeight, lamAt, r.ctxL]
  rw [this]
  cases hfl : flagAt cfg r.pl i with
  | false => exact f.mix_range hok i hi hfl
  | true =>
    obtain ⟨hlam, ch, cw, hhf, whf, hbox, hch, hcw⟩ := f.cut hok htp i hi hfl
    have hb := mkBox_bounds r.h r.w ch cw hhf whf hch hcw
    rw [← hbox] at hb
    simp only at hb
    rw [hlam]
    exact adjLam_range r.h r.w _ hb.2.1 hb.2.2.2


example : ∃ out, collate exCfg exHalves exTape exMode exBatch = .ok out ∧
    ∀ i, i < 3 → 0 ≤ ctxWeight exCfg out i ∧ ctxWeight exCfg out i ≤ 1 := by
  obtain ⟨out, h⟩ := ex_ok
  exact ⟨out, h, fun i hi => ctx_weight_range h ex_getX ex_tapeOk ex_totalP i hi⟩

/-- **Label rows stay on the simplex.** If every input row is non-negative and sums to one (one-hot rows in
    particular) and all rows have the same width, every emitted row is non-negative and sums to one. -/
theorem labels_convex {cfg halves tape mode batch out rows} {C : Nat}
    (hc : collate cfg halves tape mode batch = .ok out)
    (hm : "class" ∈ mode) (hy : getItem mode "class" batch = some (.cls2 rows))
    (hok : TapeOk tape) (htp : 0 ≤ cfg.totalP)
    (hrows : ∀ y ∈ rows, y.length = C ∧ (∀ v ∈ y, 0 ≤ v) ∧ y.sum = 1) :
    ∃ rows', getItem mode "class" out.batch = some (.cls2 rows') ∧ rows'.length = rows.length ∧
      ∀ i, i < rows.length → (rows'.getD i []).length = C ∧ (∀ v ∈ rows'.getD i [], 0 ≤ v) ∧ (rows'.getD i []).sum = 1 := by
  obtain ⟨rows', hout, hlen', hform⟩ := label_formula hc hm hy
  obtain ⟨r⟩ := collate_run hc
  obtain ⟨_, hlen⟩ := out_labels_cls2 r hm hy
  refine ⟨rows', hout, hlen', ?_⟩
  intro i hi
  have hx := r.getX
  have hp := partner_in_range hc hx hok i (hlen ▸ hi)
  rw [← hlen] at hp
  obtain ⟨w0, w1⟩ := ctx_weight_range hc hx hok htp i (hlen ▸ hi)
  rw [hform i hi]
  have hyi := hrows _ (getD_mem rows i [] hi)
  have hyp := hrows _ (getD_mem rows _ [] hp)
  have hl : (rows.getD i []).length = (rows.getD (partnerSpec cfg.shuffle rows.length out.perm i) []).length := by
    rw [hyi.1, hyp.1]
  refine ⟨?_, ?_, ?_⟩
  · rw [mixRow_length _ _ _ hl, hyi.1]
  · exact mixRow_nonneg _ w0 w1 _ _ hyi.2.1 hyp.2.1
  · rw [mixRow_sum _ _ _ hl, hyi.2.2, hyp.2.2]
    grind


example : ∀ y ∈ exRows, y.length = 2 ∧ (∀ v ∈ y, (0 : Rat) ≤ v) ∧ y.sum = 1 := by decide +kernel

/-- **Binary (scalar) labels.** A 1-d label tensor with entries in `[0,1]` comes back as a 1-d tensor with
    `y'_i = w·y_i + (1-w)·y_p(i)` (same weight and partner as the image), again inside `[0,1]`. -/
theorem label_formula_binary {cfg halves tape mode batch out ys}
    (hc : collate cfg halves tape mode batch = .ok out)
    (hm : "class" ∈ mode) (hy : getItem mode "class" batch = some (.cls1 ys))
    (hok : TapeOk tape) (htp : 0 ≤ cfg.totalP) :
    ∃ ys', getItem mode "class" out.batch = some (.cls1 ys') ∧ ys'.length = ys.length ∧
      ∀ i, i < ys.length →
        ys'.getD i 0 = ctxWeight cfg out i * ys.getD i 0 +
          (1 - ctxWeight cfg out i) * ys.getD (partnerSpec cfg.shuffle ys.length out.perm i) 0 ∧
        0 ≤ ys'.getD i 0 ∧ ys'.getD i 0 ≤ 1 := by
  obtain ⟨r⟩ := collate_run hc
  obtain ⟨hlab, hrange⟩ := getLabels_cls1 hm hy r.getL
  have hlen : ys.length = r.imgs.length := by
    have := r.labLen _ _ hlab
    simpa using this
  have f := plan_facts r.hplan
  -- every mixed row is a singleton
  have hrow : ∀ i, i < ys.length →
      (outRows cfg r.pl (ys.map (fun v => [v]))).getD i [] =
        [ctxWeight cfg out i * ys.getD i 0 +
          (1 - ctxWeight cfg out i) * ys.getD (partnerSpec cfg.shuffle ys.length out.perm i) 0] := by
    intro i hi
    have hp := partner_in_range hc r.getX hok i (hlen ▸ hi)
    rw [← hlen] at hp
    rw [outRows_getD _ _ _ _ (by simpa using hi), f.idxY_eq, f.partner i (hlen ▸ hi)]
    rw [r.perm] at hp
    rw [← hlen] at *
    simp only [List.getD_eq_getElem?_getD, List.getElem?_map, List.getElem?_eq_getElem hi,
      List.getElem?_eq_getElem hp, Option.map_some, Option.getD_some, mixRow, List.zipWith_cons_cons,
      List.zipWith_nil_left, ctxWeight, lamAt, r.ctxL, r.perm]
  have hflat : (outRows cfg r.pl (ys.map (fun v => [v]))).flatten =
      (List.range ys.length).map (fun i => ctxWeight cfg out i * ys.getD i 0 +
          (1 - ctxWeight cfg out i) * ys.getD (partnerSpec cfg.shuffle ys.length out.perm i) 0) := by
    have hr : outRows cfg r.pl (ys.map (fun v => [v])) =
        (List.range ys.length).map (fun i => [ctxWeight cfg out i * ys.getD i 0 +
          (1 - ctxWeight cfg out i) * ys.getD (partnerSpec cfg.shuffle ys.length out.perm i) 0]) := by
      apply List.ext_getElem?
      intro k
      by_cases hk : k < ys.length
      · have h1 := hrow k hk
        have hk' : k < (outRows cfg r.pl (ys.map (fun v => [v]))).length := by simp [outRows]; exact hk
        rw [List.getD_eq_getElem?_getD, List.getElem?_eq_getElem hk'] at h1
        simp only [Option.getD_some] at h1
        rw [List.getElem?_eq_getElem hk', h1, List.getElem?_map, List.getElem?_range hk]
        rfl
      · rw [List.getElem?_eq_none (by simp [outRows]; omega), List.getElem?_eq_none (by simp; omega)]
    rw [hr]
    exact flatten_map_singleton _ _
  have hylt : (mode.idxOf "class") < batch.length := by
    unfold getItem at hy
    by_cases hlt : mode.idxOf "class" < batch.length
    · exact hlt
    · rw [List.getElem?_eq_none (by omega)] at hy; cases hy
  refine ⟨(List.range ys.length).map (fun i => ctxWeight cfg out i * ys.getD i 0 +
          (1 - ctxWeight cfg out i) * ys.getD (partnerSpec cfg.shuffle ys.length out.perm i) 0), ?_, ?_, ?_⟩
  · unfold getItem
    rw [r.outB, hlab]
    unfold finalBatch
    simp only [if_true]
    rw [getElem?_setItem]
    simp only [if_true]
    rw [getElem?_setItem]
    have hne : mode.idxOf "class" ≠ mode.idxOf "x" := idxOf_ne hm (by decide)
    simp only [hne, if_false, List.getElem?_eq_getElem hylt, Option.map_some]
    rw [hflat]
  · simp
  · intro i hi
    have hp := partner_in_range hc r.getX hok i (hlen ▸ hi)
    rw [← hlen] at hp
    obtain ⟨w0, w1⟩ := ctx_weight_range hc r.getX hok htp i (hlen ▸ hi)
    have e : ((List.range ys.length).map (fun i => ctxWeight cfg out i * ys.getD i 0 +
          (1 - ctxWeight cfg out i) * ys.getD (partnerSpec cfg.shuffle ys.length out.perm i) 0)).getD i 0 =
        ctxWeight cfg out i * ys.getD i 0 +
          (1 - ctxWeight cfg out i) * ys.getD (partnerSpec cfg.shuffle ys.length out.perm i) 0 := by
      simp [List.getD_eq_getElem?_getD, List.getElem?_map, List.getElem?_range hi]
    rw [e]
    have ri := hrange _ (getD_mem ys i 0 hi)
    have rp := hrange _ (getD_mem ys _ 0 hp)
    exact ⟨rfl, convex_nonneg _ _ _ w0 w1 ri.1 rp.1, convex_le_one _ _ _ w0 w1 ri.2 rp.2⟩


/-- a 1-d label batch that passes the `[0,1]` assertion and is collated -/
example : (match collate exCfg exHalves exTape exMode [.other 7, .x 4 4 exImgs, .cls1 [0, 1, 1/2]] with
    | .ok o => (match getItem exMode "class" o.batch with | some (.cls1 ys) => ys.length == 3 | _ => false)
    | .error _ => false) = true := by decide +kernel

/-- **Everything else passes through, layout preserved.** The output batch has as many items as the input
    batch, in the same order; every item whose mode entry is neither `x` nor `class` (index, …) is the
    input item. -/
theorem passthrough {cfg halves tape mode batch out}
    (hc : collate cfg halves tape mode batch = .ok out) :
    out.batch.length = batch.length ∧
    ∀ k : Nat, mode[k]? ≠ some "x" → mode[k]? ≠ some "class" → out.batch[k]? = batch[k]? := by
  obtain ⟨r⟩ := collate_run hc
  rw [r.outB]
  unfold finalBatch
  have hkx : ∀ k : Nat, mode[k]? ≠ some "x" → k ≠ mode.idxOf "x" := by
    intro k hk he
    rw [he, mode_at_idxOf r.hasX] at hk
    exact hk rfl
  cases hl : r.lab with
  | none =>
    simp only
    refine ⟨length_setItem _ _ _ _, ?_⟩
    intro k hk _
    rw [getElem?_setItem]
    simp [hkx k hk]
  | some rb =>
    obtain ⟨rows, binary⟩ := rb
    simp only
    refine ⟨by rw [length_setItem, length_setItem], ?_⟩
    intro k hk hkc
    have hcls : "class" ∈ mode := by
      have := r.getL
      rw [hl] at this
      unfold getLabels at this
      by_cases hm : mode.contains "class" = true
      · simpa using hm
      · simp only [hm] at this
        simp at this
    have hkc' : k ≠ mode.idxOf "class" := by
      intro he
      rw [he, mode_at_idxOf hcls] at hkc
      exact hkc rfl
    rw [getElem?_setItem]
    simp only [hkc', if_false]
    rw [getElem?_setItem]
    simp [hkx k hk]


example : ∃ out, collate exCfg exHalves exTape exMode exBatch = .ok out ∧ out.batch.length = 3 ∧
    out.batch[0]? = exBatch[0]? := by
  obtain ⟨out, h⟩ := ex_ok
  obtain ⟨h1, h2⟩ := passthrough h
  exact ⟨out, h, h1, h2 0 (by decide) (by decide)⟩

/-- **The uninitialised `torch.empty` lambdas are never selected** (lamb_mode=sample): with the constructor's
    `total_p = 1` a sample is flagged cut-mix only if `cutmix_p > 0` and flagged mixup only if `mixup_p > 0`
    (`hsum0`: adding `0.0` is exact in float arithmetic, so `mixup_p = 0` forces `cutmix_p = total_p`). -/
theorem empty_never_selected (v totalP cutmixP mixupP : Rat) (hv : 0 ≤ v ∧ v < 1) (htp : totalP = 1)
    (hm0 : 0 ≤ mixupP) (hsum0 : mixupP = 0 → cutmixP = totalP) :
    (decide (v * totalP < cutmixP) = true → 0 < cutmixP) ∧
    (decide (v * totalP < cutmixP) = false → 0 < mixupP) := by
  subst htp
  constructor
  · intro h
    simp only [decide_eq_true_eq] at h
    grind
  · intro h
    simp only [decide_eq_false_iff_not] at h
    by_cases hz : mixupP = 0
    · have := hsum0 hz
      grind
    · grind


example : (0 : Rat) ≤ 1/4 ∧ (1/4 : Rat) < 1 ∧ ((0 : Rat) = 0 → (1 : Rat) = 1) := by decide +kernel

/-- the constructor only lets configurations with `total_p = 1` through (everything else is an assertion
    or `NotImplementedError`), so `0 ≤ cfg.totalP` in the theorems above is no restriction -/
theorem ctor_total_p (a : CtorArgs) (cfg : Cfg) (h : ctor a = .ok cfg) : cfg.totalP = 1 ∧ 0 ≤ cfg.totalP := by
  unfold ctor at h
  by_cases c1 : (a.mixupP.isNone && a.cutmixP.isNone) = true
  · rw [if_pos c1] at h; cases h
  rw [if_neg c1] at h
  simp only [] at h
  by_cases c2 : (!(decide (0 ≤ orZero a.mixupP) && decide (orZero a.mixupP ≤ 1))) = true
  · rw [if_pos c2] at h; cases h
  rw [if_neg c2] at h
  by_cases c3 : (!(decide (0 ≤ orZero a.cutmixP) && decide (orZero a.cutmixP ≤ 1))) = true
  · rw [if_pos c3] at h; cases h
  rw [if_neg c3] at h
  by_cases c4 : (!(decide (0 < a.floatSum) && decide (a.floatSum ≤ 1))) = true
  · rw [if_pos c4] at h; cases h
  rw [if_neg c4] at h
  by_cases c5 : (a.floatSum != 1) = true
  · rw [if_pos c5] at h; cases h
  rw [if_neg c5] at h
  by_cases c6 : (!alphaOk (orZero a.mixupP) a.mixupAlpha) = true
  · rw [if_pos c6] at h; cases h
  rw [if_neg c6] at h
  by_cases c7 : (!alphaOk (orZero a.cutmixP) a.cutmixAlpha) = true
  · rw [if_pos c7] at h; cases h
  rw [if_neg c7] at h
  have hs : a.floatSum = 1 := by simpa using c5
  split at h
  · simp only [Except.ok.injEq] at h
    subst h
    simp only
    rw [hs]
    constructor <;> grind
  · cases h

example : (match ctor ⟨some (1/2), some (1/2), some (4/5), some 1, 1, some .batch, some .sample, some .roll⟩ with
    | .ok c => c.totalP == 1 | .error _ => false) = true := by decide +kernel

/-! ## Round-2 additions: bijective partner maps, reported weight = used weight, totality, MAE configuration
Spec vocabulary (`Vals`, `expectedTape`, `retainedCount`, `maeCfg`, …) is in `Model/C10Spec.lean`, helper lemmas
(`c10x_…`) in `Lemmas/C10Extra.lean`. -/
open KDVerif.C10Spec

/-- **The partner map is a permutation of the batch** (clause "p follows the configured shuffle mode", the part
    the in-place mixing relies on: every sample is read as a partner exactly once). For every successful call
    whose tape satisfies the generator's contract (`TapeOk`: `rng.permutation(B)` returns a permutation),
    `p = partnerSpec …` restricted to `0..B-1` is a bijection: the list `[p 0, …, p (B-1)]` is a permutation of
    `0..B-1`, `p` is injective and surjective there; `flip` is an involution; `roll` has no fixed point for
    `B ≥ 2` and sample `i+1` (cyclically) is the one that receives sample `i`; in mode `random` the list
    `[p 0, …, p (B-1)]` *is* the permutation the call drew and reports. -/
theorem partner_is_permutation {cfg halves tape mode batch out h w imgs}
    (hc : collate cfg halves tape mode batch = .ok out) (hx : getItem mode "x" batch = some (.x h w imgs))
    (hok : TapeOk tape) :
    let B := imgs.length
    let p := partnerSpec cfg.shuffle B out.perm
    ((List.range B).map p).Perm (List.range B) ∧
    (∀ i j, i < B → j < B → p i = p j → i = j) ∧
    (∀ j, j < B → ∃ i, i < B ∧ p i = j) ∧
    (cfg.shuffle = .flip → ∀ i, i < B → p (p i) = i) ∧
    (cfg.shuffle = .roll → 2 ≤ B → ∀ i, i < B → p i ≠ i ∧ p ((i + 1) % B) = i) ∧
    (cfg.shuffle = .random → B ≠ 1 →
      ∃ l, out.perm = some l ∧ l.Perm (List.range B) ∧ (List.range B).map p = l) := by
  intro B p
  obtain ⟨_, _, hflip, hrand⟩ := partner_follows_shuffle_mode hc hx
  have hperm : ((List.range B).map p).Perm (List.range B) :=
    c10x_partnerSpec_perm cfg.shuffle B out.perm (fun hs hB => by
      obtain ⟨l, hl, hp, _⟩ := hrand hB hs hok
      exact ⟨l, hl, hp⟩)
  refine ⟨hperm, c10x_inj_of_map_perm p B hperm, c10x_surj_of_map_perm p B hperm, ?_, ?_, ?_⟩
  · intro hs i hi
    by_cases hB : B = 1
    · have : i = 0 := by omega
      subst this
      simp [p, partnerSpec, hB]
    · simp only [p, partnerSpec, hB, if_false, hs]
      omega
  · intro hs hB i hi
    have hB1 : B ≠ 1 := by omega
    simp only [p, partnerSpec, hB1, if_false, hs]
    rw [c10x_roll_closed B i hi, c10x_roll_closed B ((i + 1) % B) (Nat.mod_lt _ (by omega))]
    by_cases hlast : i + 1 = B
    · have : (i + 1) % B = 0 := by rw [hlast]; exact Nat.mod_self B
      rw [this]
      refine ⟨?_, ?_⟩
      · split <;> omega
      · simp only [if_true]; omega
    · have : (i + 1) % B = i + 1 := Nat.mod_eq_of_lt (by omega)
      rw [this]
      refine ⟨?_, ?_⟩
      · split <;> omega
      · simp
  · intro hs hB
    obtain ⟨l, hl, hp, hpi⟩ := hrand hB hs hok
    refine ⟨l, hl, hp, ?_⟩
    have hlen : l.length = B := by rw [hp.length_eq]; simp [B]
    rw [← c10x_map_getD_range l, hlen]
    apply List.map_congr_left
    intro i _
    exact hpi i

example : ((List.range 4).map (partnerSpec .roll 4 none)) = [3, 0, 1, 2] ∧
    ((List.range 4).map (partnerSpec .flip 4 none)) = [3, 2, 1, 0] ∧
    ((List.range 3).map (partnerSpec .random 3 (some [2, 0, 1]))) = [2, 0, 1] := by decide

example : ∃ out, collate exCfg exHalves exTape exMode exBatch = .ok out ∧
    ((List.range 3).map (partnerSpec exCfg.shuffle 3 out.perm)).Perm (List.range 3) := by
  obtain ⟨out, h⟩ := ex_ok
  exact ⟨out, h, (partner_is_permutation h ex_getX ex_tapeOk).1⟩

/-- **The weight reported in the context is the weight used** (clause of that name, stated on the raw context
    tensors instead of through `ctxWeight`). `ctx["lambda"]` and `ctx["use_cutmix"]` have one entry per batch
    (lamb_mode=batch) or one per sample (lamb_mode=sample); for every sample `i` the entry
    `lam = ctx["lambda"][i]` (`[0]` in batch mode) exists and is *the* number that
    * mixes the label row: `y'_i = lam·y_i + (1-lam)·y_p(i)`,
    * mixes the image if `ctx["use_cutmix"]` says mixup: `x'_i = lam·x_i + (1-lam)·x_p(i)` pixel by pixel,
    * is the retained pixel fraction if `ctx["use_cutmix"]` says cutmix: `x'_i` is `x_i` with the slice `b` of
      `x_p(i)` pasted, `b` inside the (non-empty) image, and the number of pixel positions outside `b`, counted
      position by position (`retainedCount`), divided by `h·w` equals `lam` (the area-corrected lambda, not the
      Beta draw),
    all with the same partner `p(i)`.
    Hypotheses: `TapeOk` = the generator's contract; `0 ≤ total_p` holds for every constructed collator
    (`ctor_total_p`). -/
theorem ctx_lambda_is_weight_used {cfg halves tape mode batch out h w imgs rows}
    (hc : collate cfg halves tape mode batch = .ok out) (hx : getItem mode "x" batch = some (.x h w imgs))
    (hm : "class" ∈ mode) (hy : getItem mode "class" batch = some (.cls2 rows))
    (hok : TapeOk tape) (htp : 0 ≤ cfg.totalP) :
    out.ctxLambda.length = perLen cfg.lambMode imgs.length ∧
    out.ctxUseCutmix.length = perLen cfg.lambMode imgs.length ∧
    ∃ imgs' rows', getItem mode "x" out.batch = some (.x h w imgs') ∧
      getItem mode "class" out.batch = some (.cls2 rows') ∧
      ∀ i, i < imgs.length →
        ∃ lam uc, out.ctxLambda[pick cfg.lambMode i]? = some lam ∧ out.ctxUseCutmix[pick cfg.lambMode i]? = some uc ∧
          let p := partnerSpec cfg.shuffle imgs.length out.perm i
          rows'.getD i [] = mixRow lam (rows.getD i []) (rows.getD p []) ∧
          (uc = false → ∀ c r k, imgs'.getD i zeroImg c r k =
              lam * imgs.getD i zeroImg c r k + (1 - lam) * imgs.getD p zeroImg c r k) ∧
          (uc = true → ∃ b : Box, b.top ≤ b.bot ∧ b.bot ≤ h ∧ b.left ≤ b.right ∧ b.right ≤ w ∧ 0 < h ∧ 0 < w ∧
              (∀ c r k, imgs'.getD i zeroImg c r k =
                if b.mem r k = true then imgs.getD p zeroImg c r k else imgs.getD i zeroImg c r k) ∧
              (retainedCount h w b : Rat) / ((h * w : Nat) : Rat) = lam) := by
  obtain ⟨r⟩ := collate_run hc
  have hg := r.getX
  rw [hx] at hg
  simp only [Option.some.injEq, Item.x.injEq] at hg
  obtain ⟨hh, hw, himgs⟩ := hg
  subst hh hw himgs
  have f := plan_facts r.hplan
  obtain ⟨hout, hlen⟩ := out_labels_cls2 r hm hy
  have hL : out.ctxLambda.length = perLen cfg.lambMode r.imgs.length := by
    rw [r.ctxL, f.lam_len]; cases cfg.lambMode <;> rfl
  have hU : out.ctxUseCutmix.length = perLen cfg.lambMode r.imgs.length := by
    rw [r.ctxU, f.flag_len]; cases cfg.lambMode <;> rfl
  refine ⟨hL, hU, outImgs cfg r.pl r.imgs, outRows cfg r.pl rows, out_images r, hout, ?_⟩
  intro i hi
  have hpick : pick cfg.lambMode i < perLen cfg.lambMode r.imgs.length := by
    cases cfg.lambMode <;> simp [pick, perLen] <;> omega
  have e1 : out.ctxLambda[pick cfg.lambMode i]? = some (lamAt cfg r.pl i) := by
    rw [List.getElem?_eq_getElem (by omega)]
    simp [lamAt, ← r.ctxL, List.getD_eq_getElem?_getD, List.getElem?_eq_getElem (show pick cfg.lambMode i < out.ctxLambda.length by omega)]
  have e2 : out.ctxUseCutmix[pick cfg.lambMode i]? = some (flagAt cfg r.pl i) := by
    rw [List.getElem?_eq_getElem (by omega)]
    simp [flagAt, ← r.ctxU, List.getD_eq_getElem?_getD, List.getElem?_eq_getElem (show pick cfg.lambMode i < out.ctxUseCutmix.length by omega)]
  refine ⟨lamAt cfg r.pl i, flagAt cfg r.pl i, e1, e2, ?_, ?_, ?_⟩
  · rw [outRows_getD cfg r.pl rows i (by omega), f.idxY_eq, f.partner i hi, r.perm]
  · intro hfl c rr k
    rw [outImgs_getD cfg r.pl r.imgs i hi]
    simp only [hfl, Bool.false_eq_true, if_false, mixImg]
    rw [f.partner i hi, r.perm]
  · intro hfl
    obtain ⟨hlam, ch, cw, hhf, whf, hbox, hch, hcw⟩ := f.cut hok htp i hi hfl
    have hb := mkBox_bounds r.h r.w ch cw hhf whf hch hcw
    rw [← hbox] at hb
    simp only at hb
    refine ⟨boxAt cfg r.pl i, hb.1, hb.2.1, hb.2.2.1, hb.2.2.2, by omega, by omega, ?_, ?_⟩
    · intro c rr k
      rw [outImgs_getD cfg r.pl r.imgs i hi]
      simp only [hfl, if_true, paste]
      rw [f.partner i hi, r.perm]
    · rw [hlam]
      exact c10x_retained_fraction r.h r.w _ hb.1 hb.2.1 hb.2.2.1 hb.2.2.2 (by omega) (by omega)

/-- on the shared witness: weights `7/8` (cutmix, 14 of 16 pixels kept), `2/5` (mixup), `3/4` (cutmix) -/
example : ∃ out, collate exCfg exHalves exTape exMode exBatch = .ok out ∧ out.ctxLambda.length = 3 ∧
    out.ctxLambda = [7/8, 2/5, 3/4] := by
  obtain ⟨out, h⟩ := ex_ok
  refine ⟨out, h, (ctx_lambda_is_weight_used h ex_getX ex_classMode ex_getY ex_tapeOk ex_totalP).1, ?_⟩
  have hv := ex_values
  rw [h] at hv
  simp only [Bool.and_eq_true, beq_iff_eq] at hv
  exact hv.1.2

example : retainedCount 4 4 (mkBox 4 4 1 0 1 1) = 14 ∧ pastedCount 4 4 (mkBox 4 4 1 0 1 1) = 2 ∧
    (mkBox 4 4 1 0 1 1) = ⟨0, 0, 2, 1⟩ := by decide

/-- **lamb_mode=batch: one weight, one decision and one box for the whole batch** ("use the same lambda/bbox
    for all samples in the batch"; this is the mode `MAEFinetuneMixCollator` runs in). For every successful
    call on a non-empty batch with a contract-respecting tape: the context holds exactly one weight `lam ∈ [0,1]`
    and one flag `uc`; every sample's reported weight/flag is that one; if `uc` is mixup every image is
    `lam·x_i + (1-lam)·x_p(i)`; if `uc` is cutmix there is ONE slice `b`, inside the non-empty image, pasted
    into every image from its partner, and the retained pixel fraction of `b` (counted position by position) is
    `lam`. (`0 < B`: a DataLoader never collates an empty batch; without a sample the box facts have no witness.) -/
theorem lamb_mode_batch_shared {cfg halves tape mode batch out h w imgs}
    (hc : collate cfg halves tape mode batch = .ok out) (hx : getItem mode "x" batch = some (.x h w imgs))
    (hm : cfg.lambMode = .batch) (hok : TapeOk tape) (htp : 0 ≤ cfg.totalP) (hB : 0 < imgs.length) :
    ∃ lam uc imgs', out.ctxLambda = [lam] ∧ out.ctxUseCutmix = [uc] ∧ 0 ≤ lam ∧ lam ≤ 1 ∧
      (∀ i, ctxWeight cfg out i = lam ∧ ctxFlag cfg out i = uc) ∧
      getItem mode "x" out.batch = some (.x h w imgs') ∧ imgs'.length = imgs.length ∧
      (uc = false → ∀ i, i < imgs.length → ∀ c r k, imgs'.getD i zeroImg c r k =
          lam * imgs.getD i zeroImg c r k +
          (1 - lam) * imgs.getD (partnerSpec cfg.shuffle imgs.length out.perm i) zeroImg c r k) ∧
      (uc = true → ∃ b : Box, b.top ≤ b.bot ∧ b.bot ≤ h ∧ b.left ≤ b.right ∧ b.right ≤ w ∧ 0 < h ∧ 0 < w ∧
          (retainedCount h w b : Rat) / ((h * w : Nat) : Rat) = lam ∧
          ∀ i, i < imgs.length → ∀ c r k, imgs'.getD i zeroImg c r k =
            if b.mem r k = true then imgs.getD (partnerSpec cfg.shuffle imgs.length out.perm i) zeroImg c r k
            else imgs.getD i zeroImg c r k) := by
  obtain ⟨r⟩ := collate_run hc
  have hg := r.getX
  rw [hx] at hg
  simp only [Option.some.injEq, Item.x.injEq] at hg
  obtain ⟨hh, hw, himgs⟩ := hg
  subst hh hw himgs
  have f := plan_facts r.hplan
  have hlamI : ∀ i, lamAt cfg r.pl i = lamAt cfg r.pl 0 := by intro i; simp [lamAt, hm, pick]
  have hflI : ∀ i, flagAt cfg r.pl i = flagAt cfg r.pl 0 := by intro i; simp [flagAt, hm, pick]
  have hboxI : ∀ i, boxAt cfg r.pl i = boxAt cfg r.pl 0 := by intro i; simp [boxAt, hm, pick]
  have hL : r.pl.lambda = [lamAt cfg r.pl 0] := by
    have hl := f.lam_len
    rw [hm] at hl
    simp only at hl
    cases hlam : r.pl.lambda with
    | nil => rw [hlam] at hl; cases hl
    | cons x xs =>
      rw [hlam] at hl
      have : xs = [] := List.eq_nil_of_length_eq_zero (by simpa using hl)
      subst this
      simp [lamAt, hm, pick, hlam]
  have hU : r.pl.useCutmix = [flagAt cfg r.pl 0] := by
    have hl := f.flag_len
    rw [hm] at hl
    simp only at hl
    cases hfl : r.pl.useCutmix with
    | nil => rw [hfl] at hl; cases hl
    | cons x xs =>
      rw [hfl] at hl
      have : xs = [] := List.eq_nil_of_length_eq_zero (by simpa using hl)
      subst this
      simp [flagAt, hm, pick, hfl]
  have hrange := ctx_weight_range hc r.getX hok htp 0 hB
  have hW : ∀ i, ctxWeight cfg out i = lamAt cfg r.pl 0 := by
    intro i; rw [← hlamI i]; simp [ctxWeight, lamAt, r.ctxL]
  rw [hW 0] at hrange
  refine ⟨lamAt cfg r.pl 0, flagAt cfg r.pl 0, outImgs cfg r.pl r.imgs, by rw [r.ctxL, hL], by rw [r.ctxU, hU],
    hrange.1, hrange.2, ?_, out_images r, by simp [outImgs], ?_, ?_⟩
  · intro i
    refine ⟨hW i, ?_⟩
    rw [← hflI i]; simp [ctxFlag, flagAt, r.ctxU]
  · intro hfl i hi c rr k
    rw [outImgs_getD cfg r.pl r.imgs i hi]
    simp only [hflI i, hfl, Bool.false_eq_true, if_false, mixImg, hlamI i]
    rw [f.partner i hi, r.perm]
  · intro hfl
    obtain ⟨hlam, ch, cw, hhf, whf, hbox, hch, hcw⟩ := f.cut hok htp 0 hB hfl
    have hb := mkBox_bounds r.h r.w ch cw hhf whf hch hcw
    rw [← hbox] at hb
    simp only at hb
    refine ⟨boxAt cfg r.pl 0, hb.1, hb.2.1, hb.2.2.1, hb.2.2.2, by omega, by omega, ?_, ?_⟩
    · rw [hlam]
      exact c10x_retained_fraction r.h r.w _ hb.1 hb.2.1 hb.2.2.1 hb.2.2.2 (by omega) (by omega)
    · intro i hi c rr k
      rw [outImgs_getD cfg r.pl r.imgs i hi]
      simp only [hflI i, hfl, if_true, paste, hboxI i]
      rw [f.partner i hi, r.perm]

/-- **Totality** (non-vacuity of every theorem above, over the whole quantifier of the property). For every
    constructor call that is accepted, every dataset mode containing `x`, every batch whose `x` item is a
    stack of `B` images of extent `h × w` and whose label item (if the mode has `class`) is a `(B, C)` tensor
    or a `(B,)` tensor with entries in `[0,1]`, every apply / lamb / shuffle mode (for `flip`: `B = 1` or `B`
    even — the code asserts it), and every generator that answers the calls the code makes
    (`expectedTape … v`: the draws in source order, built from arbitrary raw values `v` of the requested sizes
    `ValsFit` that respect the value contract `ValsOk`): the tape satisfies `TapeOk` and `collate` returns a
    batch. Hypotheses beyond the property's domain: `hexact` — IEEE addition `0.0 + x` is exact, so the float
    sum handed to the model equals `cutmix_p` when `mixup_p` is `None`/`0`; `hhalves` — the float front end
    hands in one pair of half extents per box when (and only when it matters: if) boxes are computed. -/
theorem collate_total {a : CtorArgs} {cfg : Cfg} (hctor : ctor a = .ok cfg)
    (hexact : orZero a.mixupP = 0 → a.floatSum = orZero a.cutmixP)
    {mode : List String} {batch : List Item} {h w : Nat} {imgs : List Img}
    (hmx : "x" ∈ mode) (hx : getItem mode "x" batch = some (.x h w imgs))
    (hlab : LabelsWellFormed mode batch imgs.length)
    (hflip : cfg.shuffle = .flip → imgs.length = 1 ∨ imgs.length % 2 = 0)
    {v : Vals} (hfit : ValsFit cfg imgs.length v) (hok : ValsOk imgs.length h w v)
    {halves : List (Nat × Nat)}
    (hhalves : usesBoxes cfg v = true → halves.length = perLen cfg.lambMode imgs.length) :
    TapeOk (expectedTape cfg imgs.length h w v) ∧
    ∃ out, collate cfg halves (expectedTape cfg imgs.length h w v) mode batch = .ok out := by
  obtain ⟨hcfg, hmp, hcp, htp, _⟩ := c10x_ctor_facts hctor
  have hsum0 : cfg.mixupP = 0 → cfg.cutmixP = cfg.totalP := by
    intro h0; rw [hcp, htp]; exact (hexact (by rw [← hmp]; exact h0)).symm
  refine ⟨c10x_expectedTape_ok cfg hok, ?_⟩
  obtain ⟨pl, hpl⟩ := c10x_plan_total (halves := halves) (h := h) (w := w) hcfg hsum0 hfit hok.cutU hflip hhalves
  exact c10x_collate_of_plan hmx hx hlab hpl

/-- the raw generator values behind the shared witness `exTape` -/
def exVals : Vals := ⟨[1/10], [1/4, 3/4, 1/3], [1/5, 2/5, 3/5], [1/2, 1/2, 1/2], [1, 2, 3], [0, 1, 2], [0, 1, 2]⟩

/-- the hypotheses of `collate_total` are satisfiable, and `expectedTape` reproduces the recorded tape -/
example : expectedTape exCfg 3 4 4 exVals = exTape ∧ ValsFit exCfg 3 exVals ∧ ValsOk 3 4 4 exVals ∧
    LabelsWellFormed exMode exBatch 3 ∧ usesBoxes exCfg exVals = true ∧ exHalves.length = perLen exCfg.lambMode 3 := by
  have h1 : (0 : Rat) < exCfg.mixupP := by decide +kernel
  have h2 : (0 : Rat) < exCfg.cutmixP := by decide +kernel
  have ht : expectedTape exCfg 3 4 4 exVals = exTape := by
    simp only [expectedTape, expectedTapeSample, h1, h2, if_true]
    rfl
  refine ⟨ht, ⟨rfl, rfl, rfl, rfl, rfl, rfl, rfl⟩, ⟨?_, ?_, ?_, ?_, ?_, ?_, ?_⟩, ?_, by decide +kernel, rfl⟩
  · decide +kernel
  · decide +kernel
  · decide +kernel
  · decide +kernel
  · decide
  · decide
  · decide
  · exact Or.inr (Or.inl ⟨exRows, ex_getY, rfl⟩)

/-- **`empty_never_selected`, connected to the run** (lamb_mode=sample). The model writes `[]` for the
    uninitialised `torch.empty(batch_size)` that stands in for the lambdas of a branch with probability `0`;
    reading it would fall back to the default `0` of `getD`. This theorem shows it is never read, for every
    accepted constructor and every successful call with a contract-respecting tape: the per-sample flags are
    `u_i * total_p < cutmix_p` for the `rng.random(B)` draw `us` found on the tape; a sample flagged mixup has
    `mixup_p > 0`, so the `rng.beta(mixup_alpha, mixup_alpha, size=B)` call was made and the reported weight is
    entry `i` of that draw; a sample flagged cutmix has `cutmix_p > 0`, so the Beta/box branch ran (its weight
    is then the retained fraction of its own box, `ctx_lambda_is_weight_used`).
    `hexact`: IEEE `0.0 + x = x` (see `collate_total`). -/
theorem sample_weights_come_from_draws {a : CtorArgs} {cfg halves tape mode batch out h w imgs}
    (hctor : ctor a = .ok cfg) (hexact : orZero a.mixupP = 0 → a.floatSum = orZero a.cutmixP)
    (hc : collate cfg halves tape mode batch = .ok out) (hx : getItem mode "x" batch = some (.x h w imgs))
    (hm : cfg.lambMode = .sample) (hok : TapeOk tape) :
    ∃ us, Draw.unifs us ∈ tape ∧ us.length = imgs.length ∧
      ∀ i, i < imgs.length →
        ctxFlag cfg out i = decide (us.getD i 0 * cfg.totalP < cfg.cutmixP) ∧
        (ctxFlag cfg out i = false → 0 < cfg.mixupP ∧
          ∃ alpha vs, cfg.mixupAlpha = some alpha ∧ Draw.betas alpha vs ∈ tape ∧ vs.length = imgs.length ∧
            ctxWeight cfg out i = vs.getD i 0) ∧
        (ctxFlag cfg out i = true → 0 < cfg.cutmixP ∧
          ∃ alpha vs, cfg.cutmixAlpha = some alpha ∧ Draw.betas alpha vs ∈ tape ∧ vs.length = imgs.length) := by
  obtain ⟨hcfg, hmp, hcp, htp, _⟩ := c10x_ctor_facts hctor
  have hsum0 : cfg.mixupP = 0 → cfg.cutmixP = cfg.totalP := by
    intro h0; rw [hcp, htp]; exact (hexact (by rw [← hmp]; exact h0)).symm
  obtain ⟨r⟩ := collate_run hc
  have hg := r.getX
  rw [hx] at hg
  simp only [Option.some.injEq, Item.x.injEq] at hg
  obtain ⟨_, _, himgs⟩ := hg
  subst himgs
  have hp := r.hplan
  unfold plan at hp
  rw [hm] at hp
  simp only at hp
  obtain ⟨us, hmem, hlen, hflag, hmix, hcut⟩ := c10x_planSample_sources hm hp
  have hus : ∀ v ∈ us, 0 ≤ v ∧ v < 1 := hok _ hmem
  refine ⟨us, hmem, hlen, ?_⟩
  intro i hi
  have hF : ctxFlag cfg out i = flagAt cfg r.pl i := by simp [ctxFlag, flagAt, r.ctxU]
  have hW : ctxWeight cfg out i = lamAt cfg r.pl i := by simp [ctxWeight, lamAt, r.ctxL]
  have hv := hus _ (getD_mem us i 0 (by omega))
  obtain ⟨e1, e2⟩ := empty_never_selected (us.getD i 0) cfg.totalP cfg.cutmixP cfg.mixupP hv hcfg.totalP hcfg.mp0 hsum0
  rw [hF]
  refine ⟨hflag i hi, ?_, ?_⟩
  · intro hfl
    have hpos := e2 (by rw [← hflag i hi]; exact hfl)
    obtain ⟨alpha, vs, h1, h2, h3, h4⟩ := hmix hpos
    exact ⟨hpos, alpha, vs, h1, h2, h3, by rw [hW]; exact h4 i hi hfl⟩
  · intro hfl
    have hpos := e1 (by rw [← hflag i hi]; exact hfl)
    exact ⟨hpos, (hcut hpos).2⟩

/-- the constructor call behind the shared witness `exCfg` -/
def exArgs : CtorArgs := ⟨some (1/2), some (1/2), some (4/5), some 1, 1, some .batch, some .sample, some .roll⟩

example : ctor exArgs = .ok exCfg ∧ (orZero exArgs.mixupP = 0 → exArgs.floatSum = orZero exArgs.cutmixP) ∧
    exCfg.lambMode = .sample := by
  refine ⟨by with_unfolding_all rfl, fun h => absurd h (by decide +kernel), rfl⟩

/-! ### MAEFinetuneMixCollator = `KDMixCollator(0.8, 1.0, 0.5, 0.5, "batch", "batch", "flip")` on mode "x class" -/

/-- the constructor call of `MAEFinetuneMixCollator` is accepted and yields `maeCfg` -/
theorem mae_ctor : ctor maeArgs = .ok maeCfg := by with_unfolding_all rfl

theorem mae_getX (h w : Nat) (imgs : List Img) (rows : List (List Rat)) :
    getItem maeMode "x" [.x h w imgs, .cls2 rows] = some (.x h w imgs) := by
  have h0 : maeMode.idxOf "x" = 0 := by decide +kernel
  simp [getItem, h0]

theorem mae_getY (h w : Nat) (imgs : List Img) (rows : List (List Rat)) :
    getItem maeMode "class" [.x h w imgs, .cls2 rows] = some (.cls2 rows) := by
  have h1 : maeMode.idxOf "class" = 1 := by decide +kernel
  simp [getItem, h1]

/-- **MAEFinetuneMixCollator** (anchor `common/collators/mae_finetune_mix_collator.py`): the corollary of the
    theorems above for its fixed configuration, on a default-collated `(x, class)` batch with one-hot/soft
    `(B, C)` labels. Every successful call with a contract-respecting tape on a non-empty batch: `B` is `1` or
    even (flip), labels and images have the same batch size, the output is again an `(x, class)` pair, there
    is one weight `lam ∈ [0,1]` and one decision `uc` in the context, sample `i` is mixed with sample `B-1-i`
    — label row `lam·y_i + (1-lam)·y_{B-1-i}`; image `lam·x_i + (1-lam)·x_{B-1-i}` (mixup) or `x_i` with the one
    common slice `b` of `x_{B-1-i}` pasted, `b` retaining exactly the fraction `lam` of the pixels (cutmix). -/
theorem mae_collate {halves tape h w imgs rows out}
    (hc : collate maeCfg halves tape maeMode [.x h w imgs, .cls2 rows] = .ok out)
    (hok : TapeOk tape) (hB : 0 < imgs.length) :
    (imgs.length = 1 ∨ imgs.length % 2 = 0) ∧ rows.length = imgs.length ∧
    ∃ lam uc imgs' rows', out.ctxLambda = [lam] ∧ out.ctxUseCutmix = [uc] ∧ 0 ≤ lam ∧ lam ≤ 1 ∧
      out.batch = [.x h w imgs', .cls2 rows'] ∧ imgs'.length = imgs.length ∧ rows'.length = imgs.length ∧
      (∀ i, i < imgs.length →
        rows'.getD i [] = mixRow lam (rows.getD i []) (rows.getD (imgs.length - 1 - i) [])) ∧
      (uc = false → ∀ i, i < imgs.length → ∀ c r k, imgs'.getD i zeroImg c r k =
          lam * imgs.getD i zeroImg c r k + (1 - lam) * imgs.getD (imgs.length - 1 - i) zeroImg c r k) ∧
      (uc = true → ∃ b : Box, b.top ≤ b.bot ∧ b.bot ≤ h ∧ b.left ≤ b.right ∧ b.right ≤ w ∧ 0 < h ∧ 0 < w ∧
          (retainedCount h w b : Rat) / ((h * w : Nat) : Rat) = lam ∧
          ∀ i, i < imgs.length → ∀ c r k, imgs'.getD i zeroImg c r k =
            if b.mem r k = true then imgs.getD (imgs.length - 1 - i) zeroImg c r k
            else imgs.getD i zeroImg c r k) := by
  have hx := mae_getX h w imgs rows
  have hy := mae_getY h w imgs rows
  have hcm : "class" ∈ maeMode := by decide
  have htp : (0 : Rat) ≤ maeCfg.totalP := by decide +kernel
  -- partner of flip
  have hpart : ∀ i, i < imgs.length → partnerSpec maeCfg.shuffle imgs.length out.perm i = imgs.length - 1 - i := by
    intro i hi
    by_cases h1 : imgs.length = 1
    · have : i = 0 := by omega
      subst this
      simp [partnerSpec, h1]
    · simp [partnerSpec, h1, maeCfg]
  have heven : imgs.length = 1 ∨ imgs.length % 2 = 0 := by
    by_cases h1 : imgs.length = 1
    · exact Or.inl h1
    · exact Or.inr ((partner_follows_shuffle_mode hc hx).2.2.1 h1 rfl).1
  obtain ⟨lam, uc, imgs', hL, hU, l0, l1, hall, hgx, hlen, hmix, hcut⟩ :=
    lamb_mode_batch_shared hc hx rfl hok htp hB
  obtain ⟨rows', hgy, hrl, hrows⟩ := label_formula hc hcm hy
  obtain ⟨r⟩ := collate_run hc
  obtain ⟨_, hrlen⟩ := out_labels_cls2 r hcm hy
  have hri : r.imgs = imgs := by
    have := r.getX; rw [hx] at this
    simp only [Option.some.injEq, Item.x.injEq] at this
    exact this.2.2.symm
  rw [hri] at hrlen
  have hblen := (passthrough hc).1
  have hbatch : out.batch = [.x h w imgs', .cls2 rows'] := by
    have h0 : maeMode.idxOf "x" = 0 := by decide +kernel
    have h1 : maeMode.idxOf "class" = 1 := by decide +kernel
    unfold getItem at hgx hgy
    rw [h0] at hgx
    rw [h1] at hgy
    match hb : out.batch, hblen, hgx, hgy with
    | [a, b], _, hgx, hgy =>
      simp only [List.getElem?_cons_zero, List.getElem?_cons_succ, Option.some.injEq] at hgx hgy
      rw [hgx, hgy]
  refine ⟨heven, hrlen, lam, uc, imgs', rows', hL, hU, l0, l1, hbatch, hlen, by rw [hrl, hrlen], ?_, ?_, ?_⟩
  · intro i hi
    rw [hrows i (by omega), (hall i).1, hrlen, hpart i hi]
  · intro hfl i hi c rr k
    rw [hmix hfl i hi c rr k, hpart i hi]
  · intro hfl
    obtain ⟨b, b1, b2, b3, b4, b5, b6, b7, b8⟩ := hcut hfl
    refine ⟨b, b1, b2, b3, b4, b5, b6, b7, ?_⟩
    intro i hi c rr k
    rw [b8 i hi c rr k, hpart i hi]

/-- `MAEFinetuneMixCollator` never fails on a well-formed batch: an `(x, class)` batch of `B` images and a
    `(B, C)` label tensor, `B = 1` or even, any generator answering the calls the code makes, half extents
    handed in iff the cutmix branch is taken -/
theorem mae_total {h w : Nat} {imgs : List Img} {rows : List (List Rat)} (hrows : rows.length = imgs.length)
    (heven : imgs.length = 1 ∨ imgs.length % 2 = 0)
    {v : Vals} (hfit : ValsFit maeCfg imgs.length v) (hok : ValsOk imgs.length h w v)
    {halves : List (Nat × Nat)} (hhalves : usesBoxes maeCfg v = true → halves.length = 1) :
    TapeOk (expectedTape maeCfg imgs.length h w v) ∧
    ∃ out, collate maeCfg halves (expectedTape maeCfg imgs.length h w v) maeMode [.x h w imgs, .cls2 rows] = .ok out :=
  collate_total mae_ctor (fun h0 => absurd h0 (by decide +kernel)) (by decide) (mae_getX h w imgs rows)
    (Or.inr (Or.inl ⟨rows, mae_getY h w imgs rows, hrows⟩)) (fun _ => heven) hfit hok hhalves

/-! ### further non-vacuity witnesses: the mode combinations the shared witness does not cover
Each is a concrete successful call (kernel-evaluated): reported weights / flags / permutation, emitted labels and
one emitted pixel. Images encode the sample id: `wImg s c r k = 100·s + 1000·c + 10·r + k`. -/

def wImg (s : Nat) : Img := fun c r k => ((s * 100 + c * 1000 + r * 10 + k : Nat) : Rat)

/-- pixel `(c, r, k)` of image `i` of the emitted batch (`-1` if there is no image item) -/
def outPixel (mode : List String) (o : Out) (i c r k : Nat) : Rat :=
  match getItem mode "x" o.batch with
  | some (.x _ _ imgs) => imgs.getD i zeroImg c r k
  | _ => -1

/-- 2-d labels of the emitted batch -/
def outRows2 (mode : List String) (o : Out) : List (List Rat) :=
  match getItem mode "class" o.batch with
  | some (.cls2 rows) => rows
  | _ => []

/-- 1-d labels of the emitted batch -/
def outYs (mode : List String) (o : Out) : List Rat :=
  match getItem mode "class" o.batch with
  | some (.cls1 ys) => ys
  | _ => []

/-- MAE configuration (lamb_mode=batch, flip), cutmix branch, `B = 2`, 4×4 images: one box `[1:3, 0:2]`, weight
    `12/16`, image 0 shows image 1 inside the box and itself outside -/
example : (match collate maeCfg [(1, 1)] [.unif (1/10), .unif (1/4), .beta 1 (1/2), .ints 4 [2], .ints 4 [1]] maeMode
      [.x 4 4 [wImg 0, wImg 1], .cls2 [[1, 0, 0], [0, 0, 1]]] with
    | .ok o => o.ctxLambda == [3/4] && o.ctxUseCutmix == [true] && o.perm == none &&
        outRows2 maeMode o == [[3/4, 0, 1/4], [1/4, 0, 3/4]] &&
        outPixel maeMode o 0 0 1 0 == 110 && outPixel maeMode o 0 0 0 0 == 0 && outPixel maeMode o 1 0 2 1 == 21
    | .error _ => false) = true := by decide +kernel

/-- MAE configuration, mixup branch: weight `1/4` for both samples and both tensors -/
example : (match collate maeCfg [] [.unif (1/10), .unif (3/4), .beta (4/5) (1/4)] maeMode
      [.x 2 2 [wImg 0, wImg 1], .cls2 [[1, 0, 0], [0, 0, 1]]] with
    | .ok o => o.ctxLambda == [1/4] && o.ctxUseCutmix == [false] &&
        outRows2 maeMode o == [[1/4, 0, 3/4], [3/4, 0, 1/4]] &&
        outPixel maeMode o 0 0 0 0 == 75 && outPixel maeMode o 1 0 1 1 == 36
    | .error _ => false) = true := by decide +kernel

/-- lamb_mode=batch, shuffle_mode=random, apply_mode=sample, pure mixup (`cutmix_p = None`), binary scalar labels,
    layout "x index class", `B = 3`: the permutation `[2, 0, 1]` is drawn once and used for image and label -/
example : (match collate ⟨1, 0, 1, some (1/2), none, .sample, .batch, .random⟩ []
      [.unifs [1/10, 1/5, 1/2], .unif (1/4), .beta (1/2) (1/4), .perm 3 [2, 0, 1]] ["x", "index", "class"]
      [.x 1 2 [wImg 0, wImg 1, wImg 2], .other 5, .cls1 [0, 1, 1]] with
    | .ok o => o.ctxLambda == [1/4] && o.ctxUseCutmix == [false] && o.perm == some [2, 0, 1] &&
        o.ctxApply == [true, true, true] && outYs ["x", "index", "class"] o == [3/4, 1/4, 1] &&
        outPixel ["x", "index", "class"] o 0 0 0 0 == 150 && outPixel ["x", "index", "class"] o 1 0 0 1 == 26
    | .error _ => false) = true := by decide +kernel

/-- lamb_mode=sample, shuffle_mode=random, pure cutmix (`mixup_p = None`: the `torch.empty` mixup lambdas), `B = 3`,
    2×4 images: per-sample boxes (two of them empty ⇒ weight 1), permutation `[1, 2, 0]` -/
example : (match collate ⟨0, 1, 1, none, some 1, .batch, .sample, .random⟩ [(1, 1), (0, 1), (1, 0)]
      [.unif (1/10), .unifs [1/4, 3/4, 1/3], .betas 1 [1/2, 9/10, 1/2], .ints 2 [0, 1, 1], .ints 4 [0, 1, 3],
       .perm 3 [1, 2, 0]] ["x", "class"]
      [.x 2 4 [wImg 0, wImg 1, wImg 2], .cls2 [[1, 0], [0, 1], [1, 0]]] with
    | .ok o => o.ctxLambda == [7/8, 1, 1] && o.ctxUseCutmix == [true, true, true] && o.perm == some [1, 2, 0] &&
        outRows2 ["x", "class"] o == [[7/8, 1/8], [0, 1], [1, 0]] &&
        outPixel ["x", "class"] o 0 0 0 0 == 100 && outPixel ["x", "class"] o 0 0 0 1 == 1
    | .error _ => false) = true := by decide +kernel

/-- lamb_mode=sample, apply_mode=sample, shuffle_mode=flip, mixed mixup/cutmix flags, `B = 4` -/
example : (match collate ⟨1/2, 1/2, 1, some (4/5), some 1, .sample, .sample, .flip⟩ [(1, 1), (1, 1), (1, 1), (1, 1)]
      [.unifs [1/10, 1/10, 1/10, 1/10], .unifs [1/4, 3/4, 1/3, 9/10], .betas (4/5) [1/5, 2/5, 3/5, 4/5],
       .betas 1 [1/2, 1/2, 1/2, 1/2], .ints 2 [0, 1, 1, 0], .ints 2 [0, 1, 1, 0]] ["x", "class"]
      [.x 2 2 [wImg 0, wImg 1, wImg 2, wImg 3], .cls2 [[1, 0], [0, 1], [1, 0], [0, 1]]] with
    | .ok o => o.ctxLambda == [3/4, 2/5, 0, 4/5] && o.ctxUseCutmix == [true, false, true, false] && o.perm == none &&
        outRows2 ["x", "class"] o == [[3/4, 1/4], [3/5, 2/5], [0, 1], [1/5, 4/5]] &&
        outPixel ["x", "class"] o 0 0 0 0 == 300 && outPixel ["x", "class"] o 1 0 0 0 == 160
    | .error _ => false) = true := by decide +kernel

/-- flip on an odd batch (`B = 3`) is the code's `assert len(item) % 2 == 0` -/
example : (match collate maeCfg [] [.unif (1/10), .unif (3/4), .beta (4/5) (1/4)] maeMode
      [.x 2 2 [wImg 0, wImg 1, wImg 2], .cls2 [[1, 0], [0, 1], [1, 0]]] with
    | .error e => e == .assertion
    | .ok _ => false) = true := by decide +kernel

/-! ### the general theorems applied to a concrete `MAEFinetuneMixCollator` call (hypotheses satisfiable) -/

def maeExTape : Tape := [.unif (1/10), .unif (1/4), .beta 1 (1/2), .ints 4 [2], .ints 4 [1]]
def maeExImgs : List Img := [wImg 0, wImg 1]
def maeExRows : List (List Rat) := [[1, 0, 0], [0, 0, 1]]
/-- raw generator values behind `maeExTape` (`mixLam` is not requested in the cutmix branch) -/
def maeExVals : Vals := ⟨[1/10], [1/4], [0], [1/2], [2], [1], [0, 1]⟩

theorem maeEx_ok : ∃ out, collate maeCfg [(1, 1)] maeExTape maeMode [.x 4 4 maeExImgs, .cls2 maeExRows] = .ok out := by
  have h : (match collate maeCfg [(1, 1)] maeExTape maeMode [.x 4 4 maeExImgs, .cls2 maeExRows] with
      | .ok _ => true | .error _ => false) = true := by decide +kernel
  cases hc : collate maeCfg [(1, 1)] maeExTape maeMode [.x 4 4 maeExImgs, .cls2 maeExRows] with
  | ok o => exact ⟨o, rfl⟩
  | error e => rw [hc] at h; cases h

theorem maeEx_valsOk : ValsOk 2 4 4 maeExVals := by
  refine ⟨?_, ?_, ?_, ?_, ?_, ?_, ?_⟩
  · decide +kernel
  · decide +kernel
  · decide +kernel
  · decide +kernel
  · decide
  · decide
  · decide

theorem maeEx_tape : expectedTape maeCfg 2 4 4 maeExVals = maeExTape := by
  have h1 : maeExVals.cutU.getD 0 0 * maeCfg.totalP < maeCfg.cutmixP := by decide +kernel
  have h2 : expectedTape maeCfg 2 4 4 maeExVals = expectedTapeBatch maeCfg 2 4 4 maeExVals := rfl
  rw [h2]
  unfold expectedTapeBatch
  simp only [h1, if_true]
  rfl

/-- `mae_total` applies (and reproduces the tape), `mae_collate` and `lamb_mode_batch_shared` apply to the resulting
    call: one weight, one flag -/
example : (∃ out, collate maeCfg [(1, 1)] (expectedTape maeCfg 2 4 4 maeExVals) maeMode
      [.x 4 4 maeExImgs, .cls2 maeExRows] = .ok out) ∧
    (∃ out lam uc, collate maeCfg [(1, 1)] maeExTape maeMode [.x 4 4 maeExImgs, .cls2 maeExRows] = .ok out ∧
      out.ctxLambda = [lam] ∧ out.ctxUseCutmix = [uc] ∧ 0 ≤ lam ∧ lam ≤ 1 ∧ out.batch.length = 2) := by
  have hfit : ValsFit maeCfg 2 maeExVals := ⟨rfl, rfl, rfl, rfl, rfl, rfl, rfl⟩
  obtain ⟨hok, hex⟩ := mae_total (imgs := maeExImgs) (rows := maeExRows) (h := 4) (w := 4) rfl (Or.inr rfl) hfit
    maeEx_valsOk (halves := [(1, 1)]) (fun _ => rfl)
  refine ⟨hex, ?_⟩
  obtain ⟨out, hc⟩ := maeEx_ok
  have hok' : TapeOk maeExTape := by rw [← maeEx_tape]; exact hok
  obtain ⟨_, _, lam, uc, imgs', rows', hL, hU, l0, l1, hb, _⟩ := mae_collate hc hok' (by decide)
  exact ⟨out, lam, uc, hc, hL, hU, l0, l1, by rw [hb]; rfl⟩

/-- `sample_weights_come_from_draws` applies to the shared witness: the flags are decided by the recorded
    `rng.random(3)` draw -/
example : ∃ out us, collate exCfg exHalves exTape exMode exBatch = .ok out ∧ Draw.unifs us ∈ exTape ∧ us.length = 3 := by
  obtain ⟨out, h⟩ := ex_ok
  obtain ⟨us, h1, h2, _⟩ := sample_weights_come_from_draws (a := exArgs) (by with_unfolding_all rfl)
    (fun h0 => absurd h0 (by decide +kernel)) h ex_getX rfl ex_tapeOk
  exact ⟨out, us, h, h1, h2⟩

end KDVerif.C10
