/-
C20 — Global-to-local copy is crash-safe and idempotent.

Theorems about the small-step machine `KDVerif.CopyProtocol` (model of `copy_folder_from_global_to_local` and its
image-folder twin).  `attempt src tape fs` is one invocation on file system `fs` that performs one mutating step per
tape element and is killed when the tape is exhausted; the tape also fixes the (arbitrary) order in which entries are
deleted / files are written.  Quantifying over all tapes therefore quantifies over every crash point and every order;
`history` chains any number of such invocations.
-/
import KDVerif.Lemmas.CopyProtocol

namespace KDVerif.C20
open KDVerif.CopyProtocol

/-- the invariant holds when nothing was ever copied: no destination folder (whatever the staging folder holds) -/
theorem inv_init_absent (src : Src) (tmp : Option Bool) : Inv src .auto ⟨none, tmp⟩ := by
  intro d hd; cases hd

/-- … and for a user-provided folder (any content, no start marker) -/
theorem inv_init_user (src : Src) (d0 : Dir) (tmp : Option Bool) (h : d0.start = false) :
    Inv src (.user d0) ⟨some d0, tmp⟩ := ⟨rfl, h⟩

/-- **Every step, every crash point.**  One invocation — killed before any of its mutating steps (tape exhausted) or
    running to its return, deleting and writing entries in any order — leaves the file system in a state satisfying the
    invariant: an end marker implies start marker + every file whole + nothing foreign; an automatically created
    destination always carries its start marker; a user-provided folder is exactly as the user left it. -/
theorem inv_attempt (src : Src) (o : Origin) (fs : FS) (tape : List Choice) (h : Inv src o fs) :
    Inv src o (attempt src tape fs).fs := by
  cases o with
  | auto => exact PAuto_inv _ _ (exec_auto src tape ⟨fs, .entry⟩ h)
  | user d0 =>
    have := exec_user src d0 tape ⟨fs, .entry⟩ ⟨h.1, h.2, Or.inl rfl⟩
    exact ⟨this.1, this.2.1⟩

/-- **Induction over histories**: any number of successive invocations, each killed anywhere or completed -/
theorem inv_history (src : Src) (o : Origin) (fs : FS) (tapes : List (List Choice)) (h : Inv src o fs) :
    Inv src o (history src tapes fs) := by
  induction tapes generalizing fs with
  | nil => exact h
  | cons t rest ih => exact ih _ (inv_attempt src o fs t h)

/-- **Normal return ⇒ complete copy or untouched user folder** — no matter how many earlier invocations were killed
    at arbitrary points: if the destination did not exist before the first automatic copy, a normal return leaves
    both markers, every file whole and nothing else; if it was user-provided it is untouched and the result says
    that nothing was done. -/
theorem normal_return_complete (src : Src) (o : Origin) (fs0 : FS) (h0 : Inv src o fs0)
    (tapes : List (List Choice)) (tape : List Choice) (r : Result)
    (hret : (attempt src tape (history src tapes fs0)).pc = .ret r) :
    match o with
    | .auto => ∃ d, (attempt src tape (history src tapes fs0)).fs.dst = some d ∧ Complete src d
    | .user d0 => (attempt src tape (history src tapes fs0)).fs.dst = some d0 ∧ r = nothingDone := by
  have hh := inv_history src o fs0 tapes h0
  cases o with
  | auto =>
    have := exec_auto src tape ⟨history src tapes fs0, .entry⟩ hh
    unfold attempt at hret
    unfold PAuto at this
    rw [hret] at this
    exact this
  | user d0 =>
    have := exec_user src d0 tape ⟨history src tapes fs0, .entry⟩ ⟨hh.1, hh.2, Or.inl rfl⟩
    unfold attempt at hret
    obtain ⟨hd, _, hpc⟩ := this
    refine ⟨hd, ?_⟩
    rw [hret] at hpc
    rcases hpc with h | h | h
    · cases h
    · cases h; rfl
    · cases h

/-- non-vacuity (auto): two files; killed after 4 mutating steps (staged, renamed, first file half-written), then an
    uninterrupted call: it returns `was_copied ∧ was_deleted` -/
example : (attempt ⟨true, false, 2, 0, 2⟩ (List.replicate 7 .any)
    (history ⟨true, false, 2, 0, 2⟩ [List.replicate 4 .any] ⟨none, none⟩)).pc = .ret ⟨true, true, some .raw⟩ := by decide

/-- **A completed copy is never deleted or redone**: with both markers present every invocation (valid source) performs no
    mutating step at all, leaves the file system as it is and reports that nothing was done. -/
theorem completed_copy_never_redone (src : Src) (fs : FS) (d : Dir) (tape : List Choice)
    (hsrc : checkSrc src = true) (hd : fs.dst = some d) (hs : d.start = true) (he : d.end_ = true) :
    attempt src tape fs = ⟨fs, .ret nothingDone⟩ ∧ trace src tape ⟨fs, .entry⟩ = [] := by
  have hsettle : settle src ⟨fs, .entry⟩ = ⟨fs, .ret nothingDone⟩ := by
    simp [settle, tau, hsrc, hd, hs, he]
  have hret : ∀ (tape : List Choice), trace src tape ⟨fs, .ret nothingDone⟩ = [] := by
    intro tape
    induction tape with
    | nil => rfl
    | cons ch rest ih => simpa [trace, settle, tau, mstep] using ih
  constructor
  · unfold attempt
    cases tape with
    | nil => exact hsettle
    | cons ch rest =>
      show exec src rest (mstep src ch (settle src ⟨fs, .entry⟩)).1 = _
      rw [hsettle]
      exact exec_ret src rest fs nothingDone
  · cases tape with
    | nil => rfl
    | cons ch rest =>
      simp only [trace, hsettle, mstep]
      exact hret rest

/-- non-vacuity: the state an uninterrupted copy leaves satisfies the hypotheses (both markers) -/
example : ∃ d, (attempt ⟨true, false, 2, 0, 2⟩ (List.replicate 8 .any) ⟨none, none⟩).fs.dst = some d ∧
    d.start = true ∧ d.end_ = true := ⟨_, rfl, rfl, rfl⟩

/-- **An interrupted copy is never reported as usable**: if the destination carries a start marker and no end marker, an
    invocation that returns has deleted the leftovers and copied again (`was_deleted ∧ was_copied`) — there is no
    return path that reports the folder as it was found; in particular no invocation returns without a mutating step.
    With the invariant (the folder stems from automatic copies) the result is a complete copy. -/
theorem interrupted_never_usable (src : Src) (fs : FS) (tape : List Choice) (r : Result)
    (hint : Interrupted fs) (hret : (attempt src tape fs).pc = .ret r) :
    r.wasCopied = true ∧ r.wasDeleted = true ∧ tape ≠ [] ∧
    (Inv src .auto fs → ∃ d, (attempt src tape fs).fs.dst = some d ∧ Complete src d) := by
  have ht := (exec_track src fs tape ⟨fs, .entry⟩ ⟨rfl, trivial⟩).1
  unfold attempt at hret
  unfold Track at ht
  rw [hret] at ht
  obtain ⟨d, hd, hs, he⟩ := hint
  have hcd : r.wasCopied = true ∧ r.wasDeleted = true := by
    rcases ht with ⟨_, _, d', hd', himp⟩ | ⟨hc, _, _, _, hnd⟩
    · rw [hd] at hd'; cases hd'
      have := himp hs
      rw [he] at this; cases this
    · refine ⟨hc, ?_⟩
      cases hdel : r.wasDeleted with
      | true => rfl
      | false => have := hnd hdel; rw [hd] at this; cases this
  refine ⟨hcd.1, hcd.2, ?_, ?_⟩
  · intro hnil
    subst hnil
    -- without a mutating step the machine cannot have written the end marker
    rcases ht with ⟨_, _, d', hd', himp⟩ | ⟨hc, _, _, _, _⟩
    · rw [hd] at hd'; cases hd'
      have := himp hs; rw [he] at this; cases this
    · -- was_copied = true is only produced by the `createEnd` step
      have hpc : ∀ c : Cfg, (∀ r, c.pc = .ret r → r.wasCopied = false) → ∀ r, (tau src c).pc = .ret r → r.wasCopied = false := by
        intro c hc0 r' hr'
        rcases c with ⟨f, pc⟩
        cases pc <;> simp only [tau] at hr'
        case entry =>
          by_cases hc : checkSrc src = true
          · simp only [hc, Bool.not_true, Bool.false_eq_true, if_false] at hr'
            cases hf : f.dst with
            | none => rw [hf] at hr'; cases hr'
            | some d =>
              rw [hf] at hr'
              simp only at hr'
              split at hr'
              · split at hr'
                · cases hr'; rfl
                · cases hr'
              · cases hr'; rfl
          · have hc' : checkSrc src = false := by simpa using hc
            simp [hc'] at hr'
        case wipe =>
          cases hf : f.dst with
          | none => rw [hf] at hr'; cases hr'
          | some d => rw [hf] at hr'; simp only at hr'; split at hr' <;> cases hr'
        case stageClean => cases hf : f.tmp <;> rw [hf] at hr' <;> cases hr'
        case copy del =>
          cases hf : f.dst with
          | none => rw [hf] at hr'; cases hr'
          | some d => rw [hf] at hr'; simp only at hr'; split at hr' <;> cases hr'
        case ret r0 => cases hr'; exact hc0 _ rfl
        all_goals cases hr'
      have h0 : ∀ r, (⟨fs, Pc.entry⟩ : Cfg).pc = .ret r → r.wasCopied = false := by intro r h; cases h
      have := hpc _ (hpc _ (hpc _ (hpc _ h0))) r (by simpa [exec, settle] using hret)
      rw [hc] at this; cases this
  · intro hinv
    have := exec_auto src tape ⟨fs, .entry⟩ hinv
    unfold PAuto at this
    rw [hret] at this
    exact this

/-- non-vacuity: a copy killed after 4 mutating steps is `Interrupted`, and a later uninterrupted call returns -/
example : Interrupted (history ⟨true, false, 2, 0, 2⟩ [List.replicate 4 .any] ⟨none, none⟩) :=
  ⟨_, rfl, rfl, rfl⟩

/-- **The result is truthful.**  If an invocation started on `fs` returns `r` then
    * `was_copied = false` ⇒ `r` says nothing was done, the file system is exactly `fs`, and the destination existed and
      was either finished (start ⇒ end marker) or carries no start marker (manual copy);
    * `was_copied = true` ⇒ the source was valid, `source_format` is the detected format, and
      `was_deleted = true` exactly when an interrupted copy was found (and deleted), `was_deleted = false` exactly when
      there was no destination folder at all. -/
theorem result_truthful (src : Src) (fs : FS) (tape : List Choice) (r : Result)
    (hret : (attempt src tape fs).pc = .ret r) :
    (r.wasCopied = false →
        r = nothingDone ∧ (attempt src tape fs).fs = fs ∧ ∃ d, fs.dst = some d ∧ (d.start = true → d.end_ = true)) ∧
    (r.wasCopied = true →
        (∃ f, fmtOf src = some f ∧ r.fmt = some f) ∧
        (r.wasDeleted = true ↔ Interrupted fs) ∧ (r.wasDeleted = false ↔ fs.dst = none)) := by
  have ht := (exec_track src fs tape ⟨fs, .entry⟩ ⟨rfl, trivial⟩).1
  unfold attempt at hret ⊢
  unfold Track at ht
  rw [hret] at ht
  constructor
  · intro hc
    rcases ht with ⟨h1, h2, h3⟩ | ⟨hc', _⟩
    · exact ⟨h1, h2, h3⟩
    · rw [hc] at hc'; cases hc'
  · intro hc
    rcases ht with ⟨h1, _, _⟩ | ⟨_, hf, hsrc, hdel, hnd⟩
    · rw [h1] at hc; cases hc
    · obtain ⟨f, hf'⟩ := checkSrc_fmt src hsrc
      refine ⟨⟨f, hf', by rw [hf, hf']⟩, ⟨hdel, ?_⟩, ⟨hnd, ?_⟩⟩
      · intro ⟨d, hd, _, _⟩
        cases hdl : r.wasDeleted with
        | true => rfl
        | false => have := hnd hdl; rw [hd] at this; cases this
      · intro hnone
        cases hdl : r.wasDeleted with
        | false => rfl
        | true =>
          obtain ⟨d, hd, _, _⟩ := hdel hdl
          rw [hnone] at hd; cases hd

/-- non-vacuity: a fresh uninterrupted copy of a folder of two zips returns `(true, false, zips)` -/
example : (attempt ⟨true, false, 3, 2, 4⟩ (List.replicate 12 .any) ⟨none, none⟩).pc = .ret ⟨true, false, some .zips⟩ := by
  decide

/-- **Control transitions only read**: an invocation killed before its first mutating step leaves the file system exactly
    as it found it (the `exists()` cascade, `listdir`, format detection change nothing). -/
theorem killed_before_first_step_changes_nothing (src : Src) (fs : FS) : (attempt src [] fs).fs = fs :=
  settle_fs src ⟨fs, .entry⟩

/-- the executable check the correspondence evaluates on every state observed after a real kill is the invariant -/
theorem observed_invariant_check (src : Src) (fs : FS) : invAutoB src fs = true ↔ Inv src .auto fs :=
  invAutoB_iff src fs

/-- format detection on the three clear-cut source layouts -/
theorem fmt_clear_cut (s : Src) :
    (s.isDir = true → s.nZips = 0 → fmtOf s = some .raw) ∧
    (s.isDir = true → 0 < s.nZips → s.nItems ≤ s.nZips + 1 → fmtOf s = some .zips) ∧
    (s.isDir = false → s.zipSibling = true → fmtOf s = some .zip) := by
  refine ⟨?_, ?_, ?_⟩
  · intro hd hz; simp [fmtOf, hd, mostlyZips, hz]
  · intro hd hz hn
    have : s.nItems / 2 ≤ s.nZips := by omega
    simp [fmtOf, hd, mostlyZips, hz, this]
  · intro hd hz; simp [fmtOf, hd, hz]

end KDVerif.C20
