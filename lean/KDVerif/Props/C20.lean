/-
C20 — Global-to-local copy is crash-safe and idempotent.

Theorems about the small-step machine `KDVerif.CopyProtocol` (model of `copy_folder_from_global_to_local` and its
image-folder twin).  `attempt src tape fs` is one invocation on file system `fs` that performs one mutating step per
tape element and is killed when the tape is exhausted; the tape also fixes the (arbitrary) order in which entries are
deleted / files are written.  Quantifying over all tapes therefore quantifies over every crash point and every order;
`history` chains any number of such invocations.
-/
import KDVerif.Lemmas.CopyProtocol
import KDVerif.Lemmas.C20Extra
import KDVerif.Model.C20Spec

namespace KDVerif.C20
open KDVerif.CopyProtocol

/-- the invariant holds when nothing was ever copied: no destination folder (whatever the staging folder holds) -/
theorem inv_init_absent (src : Src) (tmp : Option Bool) : Inv src .auto ⟨none, tmp⟩ := by
  intro d hd; cases hd

/-- … and for a user-provided folder (any content, no start marker) -/
theorem inv_init_user (src : Src) (d0 : Dir) (tmp : Option Bool) (h : d0.start = false) :
    Inv src (.user d0) ⟨some d0, tmp⟩ := ⟨rfl, h⟩

/-- **Every step, every crash point.**  One invocation — killed before any of its mutating steps (tape exhausted) or
    running to its return, deleting and writing entries in any order — leaves the file system in a state satisfying the
    invariant: an end marker implies start marker + every file whole + nothing foreign; an automatically created
    destination always carries its start marker; a user-provided folder is exactly as the user left it. -/
theorem inv_attempt (src : Src) (o : Origin) (fs : FS) (tape : List Choice) (h : Inv src o fs) :
    Inv src o (attempt src tape fs).fs := by
  cases o with
  | auto => exact PAuto_inv _ _ (exec_auto src tape ⟨fs, .entry⟩ h)
  | user d0 =>
    have := exec_user src d0 tape ⟨fs, .entry⟩ ⟨h.1, h.2, Or.inl rfl⟩
    exact ⟨this.1, this.2.1⟩

/-- **Induction over histories**: any number of successive invocations, each killed anywhere or completed -/
theorem inv_history (src : Src) (o : Origin) (fs : FS) (tapes : List (List Choice)) (h : Inv src o fs) :
    Inv src o (history src tapes fs) := by
  induction tapes generalizing fs with
  | nil => exact h
  | cons t rest ih => exact ih _ (inv_attempt src o fs t h)

/-- **Normal return ⇒ complete copy or untouched user folder** — no matter how many earlier invocations were killed
    at arbitrary points: if the destination did not exist before the first automatic copy, a normal return leaves
    both markers, every file whole and nothing else; if it was user-provided it is untouched and the result says
    that nothing was done. -/
theorem normal_return_complete (src : Src) (o : Origin) (fs0 : FS) (h0 : Inv src o fs0)
    (tapes : List (List Choice)) (tape : List Choice) (r : Result)
    (hret : (attempt src tape (history src tapes fs0)).pc = .ret r) :
    match o with
    | .auto => ∃ d, (attempt src tape (history src tapes fs0)).fs.dst = some d ∧ Complete src d
    | .user d0 => (attempt src tape (history src tapes fs0)).fs.dst = some d0 ∧ r = nothingDone := by
  have hh := inv_history src o fs0 tapes h0
  cases o with
  | auto =>
    have := exec_auto src tape ⟨history src tapes fs0, .entry⟩ hh
    unfold attempt at hret
    unfold PAuto at this
    rw [hret] at this
    exact this
  | user d0 =>
    have := exec_user src d0 tape ⟨history src tapes fs0, .entry⟩ ⟨hh.1, hh.2, Or.inl rfl⟩
    unfold attempt at hret
    obtain ⟨hd, _, hpc⟩ := this
    refine ⟨hd, ?_⟩
    rw [hret] at hpc
    rcases hpc with h | h | h
    · cases h
    · cases h; rfl
    · cases h

/-- non-vacuity (auto): two files; killed after 4 mutating steps (staged, renamed, first file half-written), then an
    uninterrupted call: it returns `was_copied ∧ was_deleted` -/
example : (attempt ⟨true, false, 2, 0, 2⟩ (List.replicate 7 .any)
    (history ⟨true, false, 2, 0, 2⟩ [List.replicate 4 .any] ⟨none, none⟩)).pc = .ret ⟨true, true, some .raw⟩ := by decide

/-- **A completed copy is never deleted or redone**: with both markers present every invocation (valid source) performs no
    mutating step at all, leaves the file system as it is and reports that nothing was done. -/
theorem completed_copy_never_redone (src : Src) (fs : FS) (d : Dir) (tape : List Choice)
    (hsrc : checkSrc src = true) (hd : fs.dst = some d) (hs : d.start = true) (he : d.end_ = true) :
    attempt src tape fs = ⟨fs, .ret nothingDone⟩ ∧ trace src tape ⟨fs, .entry⟩ = [] := by
  have hsettle : settle src ⟨fs, .entry⟩ = ⟨fs, .ret nothingDone⟩ := by
    simp [settle, tau, hsrc, hd, hs, he]
  have hret : ∀ (tape : List Choice), trace src tape ⟨fs, .ret nothingDone⟩ = [] := by
    intro tape
    induction tape with
    | nil => rfl
    | cons ch rest ih => simpa [trace, settle, tau, mstep] using ih
  constructor
  · unfold attempt
    cases tape with
    | nil => exact hsettle
    | cons ch rest =>
      show exec src rest (mstep src ch (settle src ⟨fs, .entry⟩)).1 = _
      rw [hsettle]
      exact exec_ret src rest fs nothingDone
  · cases tape with
    | nil => rfl
    | cons ch rest =>
      simp only [trace, hsettle, mstep]
      exact hret rest

/-- non-vacuity: the state an uninterrupted copy leaves satisfies the hypotheses (both markers) -/
example : ∃ d, (attempt ⟨true, false, 2, 0, 2⟩ (List.replicate 8 .any) ⟨none, none⟩).fs.dst = some d ∧
    d.start = true ∧ d.end_ = true := ⟨_, rfl, rfl, rfl⟩

/-- **An interrupted copy is never reported as usable**: if the destination carries a start marker and no end marker, an
    invocation that returns has deleted the leftovers and copied again (`was_deleted ∧ was_copied`) — there is no
    return path that reports the folder as it was found; in particular no invocation returns without a mutating step.
    With the invariant (the folder stems from automatic copies) the result is a complete copy. -/
theorem interrupted_never_usable (src : Src) (fs : FS) (tape : List Choice) (r : Result)
    (hint : Interrupted fs) (hret : (attempt src tape fs).pc = .ret r) :
    r.wasCopied = true ∧ r.wasDeleted = true ∧ tape ≠ [] ∧
    (Inv src .auto fs → ∃ d, (attempt src tape fs).fs.dst = some d ∧ Complete src d) := by
  have ht := (exec_track src fs tape ⟨fs, .entry⟩ ⟨rfl, trivial⟩).1
  unfold attempt at hret
  unfold Track at ht
  rw [hret] at ht
  obtain ⟨d, hd, hs, he⟩ := hint
  have hcd : r.wasCopied = true ∧ r.wasDeleted = true := by
    rcases ht with ⟨_, _, d', hd', himp⟩ | ⟨hc, _, _, _, hnd⟩
    · rw [hd] at hd'; cases hd'
      have := himp hs
      rw [he] at this; cases this
    · refine ⟨hc, ?_⟩
      cases hdel : r.wasDeleted with
      | true => rfl
      | false => have := hnd hdel; rw [hd] at this; cases this
  refine ⟨hcd.1, hcd.2, ?_, ?_⟩
  · intro hnil
    subst hnil
    -- without a mutating step the machine cannot have written the end marker
    rcases ht with ⟨_, _, d', hd', himp⟩ | ⟨hc, _, _, _, _⟩
    · rw [hd] at hd'; cases hd'
      have := himp hs; rw [he] at this; cases this
    · -- was_copied = true is only produced by the `createEnd` step
      have hpc : ∀ c : Cfg, (∀ r, c.pc = .ret r → r.wasCopied = false) → ∀ r, (tau src c).pc = .ret r → r.wasCopied = false := by
        intro c hc0 r' hr'
        rcases c with ⟨f, pc⟩
        cases pc <;> simp only [tau] at hr'
        case entry =>
          by_cases hc : checkSrc src = true
          · simp only [hc, Bool.not_true, Bool.false_eq_true, if_false] at hr'
            cases hf : f.dst with
            | none => rw [hf] at hr'; cases hr'
            | some d =>
              rw [hf] at hr'
              simp only at hr'
              split at hr'
              · split at hr'
                · cases hr'; rfl
                · cases hr'
              · cases hr'; rfl
          · have hc' : checkSrc src = false := by simpa using hc
            simp [hc'] at hr'
        case wipe =>
          cases hf : f.dst with
          | none => rw [hf] at hr'; cases hr'
          | some d => rw [hf] at hr'; simp only at hr'; split at hr' <;> cases hr'
        case stageClean => cases hf : f.tmp <;> rw [hf] at hr' <;> cases hr'
        case copy del =>
          cases hf : f.dst with
          | none => rw [hf] at hr'; cases hr'
          | some d => rw [hf] at hr'; simp only at hr'; split at hr' <;> cases hr'
        case ret r0 => cases hr'; exact hc0 _ rfl
        all_goals cases hr'
      have h0 : ∀ r, (⟨fs, Pc.entry⟩ : Cfg).pc = .ret r → r.wasCopied = false := by intro r h; cases h
      have := hpc _ (hpc _ (hpc _ (hpc _ h0))) r (by simpa [exec, settle] using hret)
      rw [hc] at this; cases this
  · intro hinv
    have := exec_auto src tape ⟨fs, .entry⟩ hinv
    unfold PAuto at this
    rw [hret] at this
    exact this

/-- non-vacuity: a copy killed after 4 mutating steps is `Interrupted`, and a later uninterrupted call returns -/
example : Interrupted (history ⟨true, false, 2, 0, 2⟩ [List.replicate 4 .any] ⟨none, none⟩) :=
  ⟨_, rfl, rfl, rfl⟩

/-- **The result is truthful.**  If an invocation started on `fs` returns `r` then
    * `was_copied = false` ⇒ `r` says nothing was done, the file system is exactly `fs`, and the destination existed and
      was either finished (start ⇒ end marker) or carries no start marker (manual copy);
    * `was_copied = true` ⇒ the source was valid, `source_format` is the detected format, and
      `was_deleted = true` exactly when an interrupted copy was found (and deleted), `was_deleted = false` exactly when
      there was no destination folder at all. -/
theorem result_truthful (src : Src) (fs : FS) (tape : List Choice) (r : Result)
    (hret : (attempt src tape fs).pc = .ret r) :
    (r.wasCopied = false →
        r = nothingDone ∧ (attempt src tape fs).fs = fs ∧ ∃ d, fs.dst = some d ∧ (d.start = true → d.end_ = true)) ∧
    (r.wasCopied = true →
        (∃ f, fmtOf src = some f ∧ r.fmt = some f) ∧
        (r.wasDeleted = true ↔ Interrupted fs) ∧ (r.wasDeleted = false ↔ fs.dst = none)) := by
  have ht := (exec_track src fs tape ⟨fs, .entry⟩ ⟨rfl, trivial⟩).1
  unfold attempt at hret ⊢
  unfold Track at ht
  rw [hret] at ht
  constructor
  · intro hc
    rcases ht with ⟨h1, h2, h3⟩ | ⟨hc', _⟩
    · exact ⟨h1, h2, h3⟩
    · rw [hc] at hc'; cases hc'
  · intro hc
    rcases ht with ⟨h1, _, _⟩ | ⟨_, hf, hsrc, hdel, hnd⟩
    · rw [h1] at hc; cases hc
    · obtain ⟨f, hf'⟩ := checkSrc_fmt src hsrc
      refine ⟨⟨f, hf', by rw [hf, hf']⟩, ⟨hdel, ?_⟩, ⟨hnd, ?_⟩⟩
      · intro ⟨d, hd, _, _⟩
        cases hdl : r.wasDeleted with
        | true => rfl
        | false => have := hnd hdl; rw [hd] at this; cases this
      · intro hnone
        cases hdl : r.wasDeleted with
        | false => rfl
        | true =>
          obtain ⟨d, hd, _, _⟩ := hdel hdl
          rw [hnone] at hd; cases hd

/-- non-vacuity: a fresh uninterrupted copy of a folder of two zips returns `(true, false, zips)` -/
example : (attempt ⟨true, false, 3, 2, 4⟩ (List.replicate 12 .any) ⟨none, none⟩).pc = .ret ⟨true, false, some .zips⟩ := by
  decide

/-- **Control transitions only read**: an invocation killed before its first mutating step leaves the file system exactly
    as it found it (the `exists()` cascade, `listdir`, format detection change nothing). -/
theorem killed_before_first_step_changes_nothing (src : Src) (fs : FS) : (attempt src [] fs).fs = fs :=
  settle_fs src ⟨fs, .entry⟩

/-- the executable check the correspondence evaluates on every state observed after a real kill is the invariant -/
theorem observed_invariant_check (src : Src) (fs : FS) : invAutoB src fs = true ↔ Inv src .auto fs :=
  invAutoB_iff src fs

/-- format detection on the three clear-cut source layouts -/
theorem fmt_clear_cut (s : Src) :
    (s.isDir = true → s.nZips = 0 → fmtOf s = some .raw) ∧
    (s.isDir = true → 0 < s.nZips → s.nItems ≤ s.nZips + 1 → fmtOf s = some .zips) ∧
    (s.isDir = false → s.zipSibling = true → fmtOf s = some .zip) := by
  refine ⟨?_, ?_, ?_⟩
  · intro hd hz; simp [fmtOf, hd, mostlyZips, hz]
  · intro hd hz hn
    have : s.nItems / 2 ≤ s.nZips := by omega
    simp [fmtOf, hd, mostlyZips, hz, this]
  · intro hd hz; simp [fmtOf, hd, hz]

/-! ## Progress (clause "whenever it returns normally" is not vacuous: an invocation that is not killed returns) -/

/-- **Progress / termination with an explicit bound** (clause: the function *does* return normally when it is not
    killed).  For a valid source (`_check_src_path` holds — the property's "plain folder, single zip or folder of zips";
    for an invalid one the code raises `AssertionError`, which is not a normal return) and **every** file system `fs`
    whatsoever (reachable or not: any leftovers in the destination, any state of the staging folder), an invocation
    that is allowed `c20x_stepBound src fs` mutating steps returns normally, whatever order the scandir / worker oracle
    picks.  The bound is
    * `2·nFiles + 6` if there is no destination (≤ 2 unlinks of a stale staging folder, mkdir, start marker, rename,
      create + fill per file, end marker),
    * `3·nFiles + #foreign + 1` for an interrupted copy (one unlink per leftover, then create + fill per file, end marker),
    * `0` for a finished copy or a folder without start marker. -/
theorem returns_when_not_killed (src : Src) (hsrc : checkSrc src = true) (fs : FS) (tape : List Choice)
    (hlen : c20x_stepBound src fs ≤ tape.length) : ∃ r, (attempt src tape fs).pc = .ret r :=
  c20x_attempt_returns src hsrc fs tape hlen

/-- the bound of `returns_when_not_killed` in closed form (it is a definition by cases, restated here for the reader) -/
theorem stepBound_closed_form (src : Src) (fs : FS) :
    (fs.dst = none → c20x_stepBound src fs = 2 * src.nFiles + 6) ∧
    (∀ d, fs.dst = some d → d.start = true → d.end_ = false →
        c20x_stepBound src fs = 3 * src.nFiles + d.foreign.length + 1) ∧
    (∀ d, fs.dst = some d → (d.start = true → d.end_ = true) → c20x_stepBound src fs = 0) := by
  refine ⟨?_, ?_, ?_⟩
  · intro h; simp [c20x_stepBound, h]
  · intro d h hs he; simp [c20x_stepBound, h, hs, he]
  · intro d h himp
    have : ¬ (d.start = true ∧ d.end_ = false) := by
      intro ⟨hs, he⟩; rw [himp hs] at he; cases he
    simp [c20x_stepBound, h, this]

/-- the bound is sharp: two files and a stale staging folder with start marker need exactly `2·2 + 6 = 10` steps —
    with 10 the invocation returns, killed after 9 it has not (the end marker is still missing) -/
example : c20x_stepBound ⟨true, false, 2, 0, 2⟩ ⟨none, some true⟩ = 10 ∧
    (attempt ⟨true, false, 2, 0, 2⟩ (List.replicate 10 .any) ⟨none, some true⟩).pc = .ret ⟨true, false, some .raw⟩ ∧
    (attempt ⟨true, false, 2, 0, 2⟩ (List.replicate 9 .any) ⟨none, some true⟩).pc = .writeEnd false := by decide

/-- **Uniform bound on reachable states**: on every file system that crashed automatic copies (or a user) can have left
    behind — i.e. satisfying the invariant, which `inv_init_absent` / `inv_init_user` / `inv_history` establish — the
    bound is at most `3·nFiles + 6`. -/
theorem stepBound_reachable (src : Src) (o : Origin) (fs : FS) (h : Inv src o fs) :
    c20x_stepBound src fs ≤ 3 * src.nFiles + 6 :=
  c20x_stepBound_inv src o fs h

/-- **Progress from every point inside an invocation** (every reachable configuration, not only invocation starts):
    wherever an invocation on a destination stemming from automatic copies currently is — after any mutating steps `t1`,
    in any order — `3·nFiles + 6` further steps without a kill reach the normal return. -/
theorem returns_from_every_point (src : Src) (hsrc : checkSrc src = true) (fs : FS) (hinv : Inv src .auto fs)
    (t1 t2 : List Choice) (hlen : 3 * src.nFiles + 6 ≤ t2.length) :
    ∃ r, (attempt src (t1 ++ t2) fs).pc = .ret r :=
  c20x_attempt_returns_from src hsrc fs hinv t1 t2 hlen

/-- non-vacuity: the state a copy killed after 6 steps leaves satisfies the invariant (checked through its executable
    form), so the hypotheses of `returns_from_every_point` hold there; and the hypothesis `checkSrc src = true` of the
    progress theorems is necessary: with an invalid source the invocation ends in `AssertionError`, never in a return -/
example : invAutoB ⟨true, false, 2, 0, 2⟩ (history ⟨true, false, 2, 0, 2⟩ [List.replicate 6 .any] ⟨none, none⟩) = true ∧
    (attempt ⟨false, false, 0, 0, 2⟩ (List.replicate 12 .any) ⟨none, none⟩).pc = .failed := by decide +kernel

/-- an invocation is a sequence of resumable pieces: being killed after `t1` and looking at the configuration is the
    same as the first `t1` steps of a longer run (so "every configuration an invocation passes through" = "every
    `exec src t1 c`") -/
theorem exec_append (src : Src) (t1 t2 : List Choice) (c : Cfg) :
    exec src (t1 ++ t2) c = exec src t2 (exec src t1 c) :=
  c20x_exec_append src t1 t2 c

/-! ## The headline in the property's words, without an invariant hypothesis -/

/-- **Headline, automatic destination** (clause 1: "whenever it returns normally — no matter how many earlier
    invocations were killed at arbitrary points — the local folder holds a complete copy").  Start: no destination
    folder (the staging folder may be in any state `tmp0`, e.g. left over from an earlier kill).  `tapes`: any number
    of earlier invocations, each killed after any number of mutating steps (or completed), in any order of entries.
    If the final invocation returns, the destination exists with both markers, every file whole and nothing else.
    No hypothesis on the source is needed (an invalid source never returns). -/
theorem crash_safe_from_absent (src : Src) (tmp0 : Option Bool) (tapes : List (List Choice)) (tape : List Choice)
    (r : Result) (hret : (attempt src tape (history src tapes ⟨none, tmp0⟩)).pc = .ret r) :
    ∃ d, (attempt src tape (history src tapes ⟨none, tmp0⟩)).fs.dst = some d ∧ Complete src d :=
  normal_return_complete src .auto ⟨none, tmp0⟩ (inv_init_absent src tmp0) tapes tape r hret

/-- **Headline, total form**: valid source, absent destination, any crash history; a final invocation that is given
    `3·nFiles + 6` steps *does* return, and the destination is then a complete copy. -/
theorem eventually_complete_from_absent (src : Src) (hsrc : checkSrc src = true) (tmp0 : Option Bool)
    (tapes : List (List Choice)) (tape : List Choice) (hlen : 3 * src.nFiles + 6 ≤ tape.length) :
    ∃ r d, (attempt src tape (history src tapes ⟨none, tmp0⟩)).pc = .ret r ∧
      (attempt src tape (history src tapes ⟨none, tmp0⟩)).fs.dst = some d ∧ Complete src d := by
  have hinv := inv_history src .auto ⟨none, tmp0⟩ tapes (inv_init_absent src tmp0)
  have hb := c20x_stepBound_inv src .auto _ hinv
  obtain ⟨r, hr⟩ := c20x_attempt_returns src hsrc (history src tapes ⟨none, tmp0⟩) tape (by omega)
  obtain ⟨d, hd, hc⟩ := crash_safe_from_absent src tmp0 tapes tape r hr
  exact ⟨r, d, hr, hd, hc⟩

/-- non-vacuity: three earlier invocations killed after 1, 4 and 3 steps (staging folder made; stale staging folder
    removed, staged again and renamed; second file whole and first file partial), then 12 = 3·2+6 steps: returns
    `was_copied ∧ was_deleted` -/
example : (attempt ⟨true, false, 2, 0, 2⟩ (List.replicate 12 .any)
    (history ⟨true, false, 2, 0, 2⟩ [[.any], List.replicate 4 .any, List.replicate 3 (.file 1)] ⟨none, none⟩)).pc =
      .ret ⟨true, true, some .raw⟩ := by decide +kernel

/-- **Headline, user-provided folder** (clause 2: "unless it was a user-provided folder that existed before any
    automatic copy started, which is left untouched").  `d0` is any folder content without a start marker (what
    distinguishes a user folder in the protocol), `tmp0` any state of the staging folder.  Then for every history of
    invocations and every final invocation, killed anywhere or not, valid or invalid source:
    the *entire* file system (destination and staging folder) is exactly as before, no mutating step is ever
    performed, a return can only report "nothing done", and with a valid source every invocation does return so. -/
theorem user_folder_untouched (src : Src) (d0 : Dir) (tmp0 : Option Bool) (hs : d0.start = false)
    (tapes : List (List Choice)) (tape : List Choice) :
    history src tapes ⟨some d0, tmp0⟩ = ⟨some d0, tmp0⟩ ∧
    (attempt src tape (history src tapes ⟨some d0, tmp0⟩)).fs = ⟨some d0, tmp0⟩ ∧
    trace src tape ⟨history src tapes ⟨some d0, tmp0⟩, .entry⟩ = [] ∧
    (∀ r, (attempt src tape (history src tapes ⟨some d0, tmp0⟩)).pc = .ret r → r = nothingDone) ∧
    (checkSrc src = true → (attempt src tape (history src tapes ⟨some d0, tmp0⟩)).pc = .ret nothingDone) := by
  have himp : d0.start = true → d0.end_ = true := by intro h; rw [hs] at h; cases h
  have hh := c20x_history_done src ⟨some d0, tmp0⟩ d0 tapes rfl himp
  obtain ⟨ha, ht⟩ := c20x_attempt_done src ⟨some d0, tmp0⟩ d0 tape rfl himp
  rw [hh, ha]
  refine ⟨rfl, rfl, ht, ?_, ?_⟩
  · intro r hr
    cases hc : checkSrc src with
    | false => simp [hc] at hr
    | true => simp [hc] at hr; exact hr.symm
  · intro hc; simp [hc]

/-- non-vacuity: a user folder with two foreign entries and a half-present file survives three invocations -/
example : (history ⟨true, false, 2, 0, 2⟩ [[.any], [], List.replicate 20 .any]
    ⟨some ⟨false, false, fun i => if i = 0 then .whole else .absent, [7, 8]⟩, none⟩).dst.map (·.foreign) = some [7, 8] := by
  decide +kernel

/-! ## Idempotence -/

/-- **A completed automatic copy is never deleted or redone** (clause 3), closed over histories and without any
    hypothesis on the source: once the end marker is present (the start marker is not even needed for this), *any* later sequence of invocations — killed anywhere or
    completed, in any number, even with a source that meanwhile became invalid — leaves the whole file system exactly
    as it is; each of these invocations performs no mutating step, and (valid source) returns "nothing done". -/
theorem completed_copy_idempotent (src : Src) (fs : FS) (d : Dir) (hd : fs.dst = some d)
    (he : d.end_ = true) (tapes : List (List Choice)) :
    history src tapes fs = fs ∧
    ∀ tape, (attempt src tape (history src tapes fs)).fs = fs ∧
      trace src tape ⟨history src tapes fs, .entry⟩ = [] ∧
      (checkSrc src = true → (attempt src tape (history src tapes fs)).pc = .ret nothingDone) := by
  have hh := c20x_history_done src fs d tapes hd (fun _ => he)
  refine ⟨hh, ?_⟩
  intro tape
  obtain ⟨ha, ht⟩ := c20x_attempt_done src fs d tape hd (fun _ => he)
  rw [hh, ha]
  exact ⟨rfl, ht, by intro hc; simp [hc]⟩

/-- in particular for a `Complete` destination (the form asked for: `Complete → history … fs = fs`) -/
theorem complete_history_fixed (src : Src) (fs : FS) (d : Dir) (hd : fs.dst = some d) (hc : Complete src d)
    (tapes : List (List Choice)) : history src tapes fs = fs :=
  (completed_copy_idempotent src fs d hd hc.2.1 tapes).1

/-- **After the first normal return nothing ever changes again**: any origin (`Inv` holds initially by
    `inv_init_absent` / `inv_init_user`), any crash history, a returning invocation, then any later history. -/
theorem after_return_frozen (src : Src) (o : Origin) (fs0 : FS) (h0 : Inv src o fs0)
    (tapes : List (List Choice)) (tape : List Choice) (r : Result)
    (hret : (attempt src tape (history src tapes fs0)).pc = .ret r) (later : List (List Choice)) :
    history src later (attempt src tape (history src tapes fs0)).fs = (attempt src tape (history src tapes fs0)).fs := by
  have h := normal_return_complete src o fs0 h0 tapes tape r hret
  cases o with
  | auto =>
    obtain ⟨d, hd, hc⟩ := h
    exact complete_history_fixed src _ d hd hc later
  | user d0 =>
    exact c20x_history_done src _ d0 later h.1 (by intro hs'; rw [h0.2] at hs'; cases hs')

/-- … spelled out for the absent start, as one statement over a single list of invocations: if the `k`-th invocation
    of a history returned, the file system after the whole history is the one right after that invocation. -/
theorem after_return_frozen_from_absent (src : Src) (tmp0 : Option Bool) (tapes : List (List Choice))
    (tape : List Choice) (r : Result) (later : List (List Choice))
    (hret : (attempt src tape (history src tapes ⟨none, tmp0⟩)).pc = .ret r) :
    history src (tapes ++ tape :: later) ⟨none, tmp0⟩ = (attempt src tape (history src tapes ⟨none, tmp0⟩)).fs ∧
    ∃ d, (history src (tapes ++ tape :: later) ⟨none, tmp0⟩).dst = some d ∧ Complete src d := by
  have hf := after_return_frozen src .auto ⟨none, tmp0⟩ (inv_init_absent src tmp0) tapes tape r hret later
  have e : history src (tapes ++ tape :: later) ⟨none, tmp0⟩ =
      history src later (attempt src tape (history src tapes ⟨none, tmp0⟩)).fs := by
    rw [c20x_history_append]; rfl
  rw [e, hf]
  exact ⟨rfl, crash_safe_from_absent src tmp0 tapes tape r hret⟩

/-- non-vacuity / what it evaluates to: a completed copy followed by a crashed, an empty and a long invocation that
    try to delete everything — the result of a further call is "nothing done" -/
example : (attempt ⟨true, false, 2, 0, 2⟩ (List.replicate 5 .endMarker)
    (history ⟨true, false, 2, 0, 2⟩ [List.replicate 8 .any, [.endMarker], [], List.replicate 30 (.file 0)] ⟨none, none⟩)).pc
      = .ret nothingDone := by decide +kernel

/-! ## "An interrupted copy is never reported as usable", closed over histories -/

/-- **Only a complete copy is ever reported as already there** (clause 4).  Absent start, any crash history, a final
    invocation that returns `r`: it reports `was_copied = false` ("use what is there") **iff** the destination it
    found was already a complete copy — and then `r` is "nothing done" and the file system is unchanged.  Hence an
    interrupted (or absent) destination is never reported as usable: for it the call returns `was_copied = true`, having
    produced a complete copy (`crash_safe_from_absent`). -/
theorem reported_usable_iff_complete (src : Src) (tmp0 : Option Bool) (tapes : List (List Choice)) (tape : List Choice)
    (r : Result) (hret : (attempt src tape (history src tapes ⟨none, tmp0⟩)).pc = .ret r) :
    (r.wasCopied = false ↔ ∃ d, (history src tapes ⟨none, tmp0⟩).dst = some d ∧ Complete src d) ∧
    (r.wasCopied = false → r = nothingDone ∧
        (attempt src tape (history src tapes ⟨none, tmp0⟩)).fs = history src tapes ⟨none, tmp0⟩) := by
  have htr := (result_truthful src _ tape r hret).1
  refine ⟨⟨?_, ?_⟩, fun h => ⟨(htr h).1, (htr h).2.1⟩⟩
  · intro h
    obtain ⟨_, hfs, _⟩ := htr h
    obtain ⟨d, hd, hc⟩ := crash_safe_from_absent src tmp0 tapes tape r hret
    rw [hfs] at hd
    exact ⟨d, hd, hc⟩
  · intro ⟨d, hd, hc⟩
    by_cases hsrc : checkSrc src = true
    · have := ((completed_copy_idempotent src _ d hd hc.2.1 []).2 tape).2.2 hsrc
      have e : history src [] (history src tapes ⟨none, tmp0⟩) = history src tapes ⟨none, tmp0⟩ := rfl
      rw [e] at this
      rw [this] at hret
      cases hret
      rfl
    · have ha := (c20x_attempt_done src _ d tape hd (fun _ => hc.2.1)).1
      rw [ha] at hret
      simp [hsrc] at hret

/-- **… and an interrupted one is deleted and copied again**: if the crash history left an interrupted copy (start
    marker without end marker), a returning invocation reports `was_copied ∧ was_deleted`, took at least one mutating
    step, and the destination is a complete copy afterwards. -/
theorem interrupted_after_history_recopied (src : Src) (tmp0 : Option Bool) (tapes : List (List Choice))
    (tape : List Choice) (r : Result) (hint : Interrupted (history src tapes ⟨none, tmp0⟩))
    (hret : (attempt src tape (history src tapes ⟨none, tmp0⟩)).pc = .ret r) :
    r.wasCopied = true ∧ r.wasDeleted = true ∧ tape ≠ [] ∧
    ∃ d, (attempt src tape (history src tapes ⟨none, tmp0⟩)).fs.dst = some d ∧ Complete src d := by
  obtain ⟨h1, h2, h3, _⟩ := interrupted_never_usable src _ tape r hint hret
  exact ⟨h1, h2, h3, crash_safe_from_absent src tmp0 tapes tape r hret⟩

/-- non-vacuity: history killed after 6 steps is interrupted; the next call (12 steps allowed) reports
    `was_copied ∧ was_deleted`; the call after that reports "nothing done" -/
example : Interrupted (history ⟨true, false, 2, 0, 2⟩ [List.replicate 6 .any] ⟨none, none⟩) ∧
    (attempt ⟨true, false, 2, 0, 2⟩ (List.replicate 12 .any)
      (history ⟨true, false, 2, 0, 2⟩ [List.replicate 6 .any] ⟨none, none⟩)).pc = .ret ⟨true, true, some .raw⟩ ∧
    (attempt ⟨true, false, 2, 0, 2⟩ []
      (history ⟨true, false, 2, 0, 2⟩ [List.replicate 6 .any, List.replicate 12 .any] ⟨none, none⟩)).pc =
        .ret nothingDone := ⟨⟨_, rfl, rfl, rfl⟩, by decide +kernel, by decide +kernel⟩

/-! ## Source formats as abstract file sets (`Model/C20Spec.lean`; see its header for what the machine distinguishes:
    the format only via `source_format` and `nFiles`; `relative_path` and `num_workers` not at all — the former is
    applied to both paths before the modelled code starts, the latter only permutes steps, which the tape oracle
    already quantifies over). -/

/-- the machine's `nFiles` for a source layout is the size of its file list -/
theorem toSrc_nFiles (t : SrcTree) : t.toSrc.nFiles = t.members.length := by cases t <;> rfl

/-- **Format detection on the three layouts**: a clear-cut layout passes `_check_src_path` and is detected (and reported
    in `source_format`) as what it is. -/
theorem format_of_layout (t : SrcTree) (h : t.Clear) : checkSrc t.toSrc = true ∧ fmtOf t.toSrc = some t.format := by
  cases t with
  | raw sib nItems nZips files =>
    refine ⟨rfl, ?_⟩
    have : mostlyZips ⟨true, sib, nItems, nZips, files.length⟩ = false := by
      simp only [SrcTree.Clear] at h
      simp only [mostlyZips, Bool.and_eq_false_iff, decide_eq_false_iff_not]
      omega
    show fmtOf ⟨true, sib, nItems, nZips, files.length⟩ = some .raw
    simp only [fmtOf, this, if_true, Bool.false_eq_true, if_false]
  | zip ms => exact ⟨rfl, rfl⟩
  | zips sib archives others =>
    refine ⟨rfl, ?_⟩
    have : mostlyZips ⟨true, sib, archives.length + others, archives.length, archives.flatten.length⟩ = true := by
      simp only [SrcTree.Clear] at h
      simp only [mostlyZips, Bool.and_eq_true, decide_eq_true_eq]
      exact h
    show fmtOf ⟨true, sib, archives.length + others, archives.length, archives.flatten.length⟩ = some .zips
    simp only [fmtOf, this, if_true]

/-- **Per-format completeness** (clause "a complete copy of the source (plain folder, single zip or folder of zips)"):
    for each of the three layouts, a `Complete` destination holds, completely written, exactly the files of the source
    — the tree's files / the archive's members / the members of all archives —, none of them partially, and nothing
    else (apart from the two markers). -/
theorem complete_holds_exactly_source_files (t : SrcTree) (d : Dir) (h : Complete t.toSrc d) :
    (∀ p, holdsWhole t d p ↔ p ∈ t.members) ∧ (∀ p, holdsSome t d p → holdsWhole t d p) ∧ d.foreign = [] := by
  obtain ⟨_, _, hw, hf⟩ := h
  rw [toSrc_nFiles] at hw
  refine ⟨?_, ?_, hf⟩
  · intro p
    constructor
    · rintro ⟨i, hi, _⟩
      exact List.mem_of_getElem? hi
    · intro hp
      obtain ⟨i, hlt, hi⟩ := List.getElem_of_mem hp
      exact ⟨i, by rw [List.getElem?_eq_getElem hlt, hi], hw i hlt⟩
  · rintro p ⟨i, hi, _⟩
    have hlt : i < t.members.length := by
      obtain ⟨h, _⟩ := List.getElem?_eq_some_iff.mp hi
      exact h
    exact ⟨i, hi, hw i hlt⟩

/-- **Headline per format**: absent destination, any crash history, a returning final invocation on a source of any of
    the three layouts: the destination then holds exactly the source's files, all whole. -/
theorem crash_safe_file_set (t : SrcTree) (tmp0 : Option Bool) (tapes : List (List Choice)) (tape : List Choice)
    (r : Result) (hret : (attempt t.toSrc tape (history t.toSrc tapes ⟨none, tmp0⟩)).pc = .ret r) :
    ∃ d, (attempt t.toSrc tape (history t.toSrc tapes ⟨none, tmp0⟩)).fs.dst = some d ∧
      (∀ p, holdsWhole t d p ↔ p ∈ t.members) ∧ (∀ p, holdsSome t d p → holdsWhole t d p) ∧ d.foreign = [] ∧
      d.start = true ∧ d.end_ = true := by
  obtain ⟨d, hd, hc⟩ := crash_safe_from_absent t.toSrc tmp0 tapes tape r hret
  obtain ⟨h1, h2, h3⟩ := complete_holds_exactly_source_files t d hc
  exact ⟨d, hd, h1, h2, h3, hc.1, hc.2.1⟩

/-- non-vacuity: a folder of two archives (2 + 1 members) and a README; one crashed attempt, then a full one: detected
    as `zips`, 3 files -/
example : (SrcTree.zips false [["a/1.png", "a/2.png"], ["b/1.png"]] 1).Clear ∧
    (SrcTree.zips false [["a/1.png", "a/2.png"], ["b/1.png"]] 1).members = ["a/1.png", "a/2.png", "b/1.png"] ∧
    (attempt (SrcTree.zips false [["a/1.png", "a/2.png"], ["b/1.png"]] 1).toSrc (List.replicate 15 .any)
      (history (SrcTree.zips false [["a/1.png", "a/2.png"], ["b/1.png"]] 1).toSrc [List.replicate 5 .any] ⟨none, none⟩)).pc
      = .ret ⟨true, true, some .zips⟩ := ⟨by simp [SrcTree.Clear], rfl, by decide +kernel⟩

/-- **Headline for a clear-cut layout, with file names and the reported format** (this is the statement the correspondence leg
    `_srctree_leg` compares with the real run, cf. DESIGN 11.9): the source is one of the three layouts the property names, it is
    clear-cut (`SrcTree.Clear`: a plain folder is not "mostly zips", a folder of zips is) and names each of its files once.  Then for an
    absent destination, any crash history and a final invocation that returns having copied: the reported `source_format` is the
    layout's format, the destination holds exactly the layout's files, all whole, nothing foreign, both markers — and the machine's file
    numbers and the layout's paths correspond one to one, so "file `i` is whole" is a statement about one path. -/
theorem crash_safe_clear_layout (t : SrcTree) (hclear : t.Clear) (hnodup : t.members.Nodup) (tmp0 : Option Bool)
    (tapes : List (List Choice)) (tape : List Choice) (r : Result)
    (hret : (attempt t.toSrc tape (history t.toSrc tapes ⟨none, tmp0⟩)).pc = .ret r) (hcopied : r.wasCopied = true) :
    r.fmt = some t.format ∧
    (∃ d, (attempt t.toSrc tape (history t.toSrc tapes ⟨none, tmp0⟩)).fs.dst = some d ∧
      (∀ p, holdsWhole t d p ↔ p ∈ t.members) ∧ (∀ p, holdsSome t d p → holdsWhole t d p) ∧ d.foreign = [] ∧
      d.start = true ∧ d.end_ = true) ∧
    (∀ (i j : Nat) (p : String), t.members[i]? = some p → t.members[j]? = some p → i = j) := by
  refine ⟨?_, crash_safe_file_set t tmp0 tapes tape r hret, ?_⟩
  · obtain ⟨f, hf, hr⟩ := ((result_truthful t.toSrc _ tape r hret).2 hcopied).1
    rw [(format_of_layout t hclear).2] at hf
    rw [hr, ← hf]
  · intro i j p hi hj
    have hlt : i < t.members.length := (List.getElem?_eq_some_iff.mp hi).1
    exact (List.getElem?_inj hlt hnodup).mp (hi.trans hj.symm)

/-- non-vacuity: the layout of the example above is clear, names its files once, and the run returns having copied -/
example : (SrcTree.zips false [["a/1.png", "a/2.png"], ["b/1.png"]] 1).Clear ∧
    (SrcTree.zips false [["a/1.png", "a/2.png"], ["b/1.png"]] 1).members.Nodup ∧
    (attempt (SrcTree.zips false [["a/1.png", "a/2.png"], ["b/1.png"]] 1).toSrc (List.replicate 15 .any)
      (history (SrcTree.zips false [["a/1.png", "a/2.png"], ["b/1.png"]] 1).toSrc [List.replicate 5 .any] ⟨none, none⟩)).pc
      = .ret ⟨true, true, some .zips⟩ := ⟨by simp [SrcTree.Clear], by decide, by decide +kernel⟩

/-- the `Clear` hypothesis is needed for the format: one archive among four other entries is copied as a plain folder -/
example : ¬ (SrcTree.zips false [["a/1.png"]] 4).Clear ∧ fmtOf (SrcTree.zips false [["a/1.png"]] 4).toSrc = some .raw := by
  constructor
  · simp [SrcTree.Clear]
  · decide

end KDVerif.C20
