/-
C03 — each dataset-manipulation wrapper selects exactly the promised samples.

The functions of `KDVerif/Model/Selection.lean` mirror the constructors of the ten wrappers statement by statement
(tied to the code by the differential correspondence of `harness/kdv/selection.py`). The theorems below hold for
every class list `cls` (any length, any layout incl. absent classes), every constructor argument, every rounding
function satisfying the stated hypotheses and every tape satisfying the generator contract (a permutation).
`cls[i]? = some c` reads "sample `i` exists and has class `c`".
-/
import KDVerif.Lemmas.Selection
import KDVerif.Lemmas.SelectionBlocks
import KDVerif.Lemmas.C03Extra

namespace KDVerif.C03
open KDVerif.Selection

/-! ## class filter -/

/-- `ClassFilterWrapper(valid_classes=valid)` is accepted and keeps exactly the samples whose class is listed,
    in their original (strictly increasing) order -/
theorem classFilter_valid_spec (cls valid : List Int) :
    ∃ res, classFilter cls (some valid) none = .ok res ∧ res.Pairwise (· < ·) ∧
      ∀ i, i ∈ res ↔ ∃ c, cls[i]? = some c ∧ c ∈ valid := by
  refine ⟨_, rfl, idxFrom_pairwise _ cls 0, ?_⟩
  intro i
  rw [mem_idxFrom]
  simp

/-- `ClassFilterWrapper(invalid_classes=invalid)` keeps exactly the samples whose class is *not* listed,
    in original order -/
theorem classFilter_invalid_spec (cls invalid : List Int) :
    ∃ res, classFilter cls none (some invalid) = .ok res ∧ res.Pairwise (· < ·) ∧
      ∀ i, i ∈ res ↔ ∃ c, cls[i]? = some c ∧ c ∉ invalid := by
  refine ⟨_, rfl, idxFrom_pairwise _ cls 0, ?_⟩
  intro i
  rw [mem_idxFrom]
  simp

/-- giving both lists or none is rejected (the constructor's assert) -/
theorem classFilter_rejects (cls : List Int) (valid invalid : Option (List Int))
    (h : valid.isSome = invalid.isSome) : classFilter cls valid invalid = .error .assertion := by
  cases valid <;> cases invalid <;> simp_all [classFilter]

example : classFilter [2, 0, 1, 2, 5] (some [2, 5]) none = .ok [0, 3, 4] := by decide
example : classFilter [2, 0, 1, 2, 5] none (some [2, 5]) = .ok [1, 2] := by decide

/-! ## percent filter -/

/-- every accepted percent filter is a block of consecutive sample numbers `a, a+1, …, b-1` -/
theorem percentFilter_contiguous (cutF cutC : Rat → Nat → Nat) (n : Nat) (fp tp : Option Rat) (cf ct : Bool)
    (res : List Nat) (h : percentFilter cutF cutC n fp tp cf ct = .ok res) :
    ∃ a b, res = List.range' a (b - a) := by
  unfold percentFilter at h
  dsimp only at h
  by_cases hg : 0 ≤ pyOrRat fp 0 ∧ pyOrRat fp 0 ≤ 1 ∧ 0 ≤ tp.getD 1 ∧ tp.getD 1 ≤ 1
  · rw [if_pos hg] at h; injection h with h; exact ⟨_, _, h.symm⟩
  · rw [if_neg hg] at h; cases h

/-- **complementary percent ranges partition the dataset**: for every `p ∈ [0,1]` — including 0 and 1 — and both
    rounding modes `m` (floor/floor or ceil/ceil at the shared bound), the range "up to p" (lower bound omitted or
    0.0) followed by the range "from p" (upper bound omitted or 1.0) is exactly `0, 1, …, n-1` -/
theorem percentFilter_partition (cutF cutC : Rat → Nat → Nat) (n : Nat) (p : Rat) (m m' m'' : Bool)
    (hp0 : 0 ≤ p) (hp1 : p ≤ 1)
    (hF0 : cutF 0 n = 0) (hC0 : cutC 0 n = 0) (hF1 : cutF 1 n = n) (hC1 : cutC 1 n = n)
    (hle : (if m then cutC else cutF) p n ≤ n)
    (fa tb : Option Rat) (hfa : fa = none ∨ fa = some 0) (htb : tb = none ∨ tb = some 1) :
    ∃ A B, percentFilter cutF cutC n fa (some p) m' m = .ok A ∧
           percentFilter cutF cutC n (some p) tb m m'' = .ok B ∧ A ++ B = List.range n := by
  have hfa' : pyOrRat fa 0 = 0 := by rcases hfa with h | h <;> simp [h, pyOrRat]
  have htb' : tb.getD 1 = 1 := by rcases htb with h | h <;> simp [h]
  have hpp : pyOrRat (some p) 0 = p := by
    by_cases h : p = 0 <;> simp [pyOrRat, h]
  have h01 : (0 : Rat) ≤ 1 := by decide
  have c0 : (if m' then cutC else cutF) 0 n = 0 := by cases m' <;> simp [hF0, hC0]
  have c1 : (if m'' then cutC else cutF) 1 n = n := by cases m'' <;> simp [hF1, hC1]
  refine ⟨arange 0 ((if m then cutC else cutF) p n), arange ((if m then cutC else cutF) p n) n, ?_, ?_, ?_⟩
  · unfold percentFilter
    simp only [hfa', Option.getD_some, c0]
    rw [if_pos ⟨Rat.le_refl, h01, hp0, hp1⟩]
  · unfold percentFilter
    simp only [hpp, htb', c1]
    rw [if_pos ⟨hp0, hp1, h01, Rat.le_refl⟩]
  · rw [arange_append 0 _ n (Nat.zero_le _) hle, arange_zero]

/-- adjacent percent ranges chain: for `0 ≤ p ≤ q ≤ r ≤ 1` and one rounding mode with a monotone rounding function,
    `[p,q]` followed by `[q,r]` is `[p,r]` (no sample lost or doubled at the shared bound) -/
theorem percentFilter_chain (cutF cutC : Rat → Nat → Nat) (n : Nat) (p q r : Rat) (m : Bool)
    (hp0 : 0 ≤ p) (hpq : p ≤ q) (hqr : q ≤ r) (hr1 : r ≤ 1)
    (hmono : ∀ x y : Rat, x ≤ y → (if m then cutC else cutF) x n ≤ (if m then cutC else cutF) y n) :
    ∃ A B C, percentFilter cutF cutC n (some p) (some q) m m = .ok A ∧
             percentFilter cutF cutC n (some q) (some r) m m = .ok B ∧
             percentFilter cutF cutC n (some p) (some r) m m = .ok C ∧ A ++ B = C := by
  have hor : ∀ x : Rat, pyOrRat (some x) 0 = x := by
    intro x; by_cases h : x = 0 <;> simp [pyOrRat, h]
  have hq0 : 0 ≤ q := Rat.le_trans hp0 hpq
  have hq1 : q ≤ 1 := Rat.le_trans hqr hr1
  have hr0 : 0 ≤ r := Rat.le_trans hq0 hqr
  have hp1 : p ≤ 1 := Rat.le_trans hpq hq1
  refine ⟨arange ((if m then cutC else cutF) p n) ((if m then cutC else cutF) q n),
    arange ((if m then cutC else cutF) q n) ((if m then cutC else cutF) r n),
    arange ((if m then cutC else cutF) p n) ((if m then cutC else cutF) r n), ?_, ?_, ?_, ?_⟩
  · unfold percentFilter
    simp only [hor, Option.getD_some]
    rw [if_pos ⟨hp0, hp1, hq0, hq1⟩]
  · unfold percentFilter
    simp only [hor, Option.getD_some]
    rw [if_pos ⟨hq0, hq1, hr0, hr1⟩]
  · unfold percentFilter
    simp only [hor, Option.getD_some]
    rw [if_pos ⟨hp0, hp1, hr0, hr1⟩]
  · exact arange_append _ _ _ (hmono p q hpq) (hmono q r hqr)

/-- non-vacuity of the rounding hypotheses: exact floor / ceil rounding satisfies them (here n = 7, p = 1/3) -/
example : let cutF : Rat → Nat → Nat := fun p n => (p * n).floor.toNat
          let cutC : Rat → Nat → Nat := fun p n => (p * n).ceil.toNat
          cutF 0 7 = 0 ∧ cutC 0 7 = 0 ∧ cutF 1 7 = 7 ∧ cutC 1 7 = 7 ∧ cutF (1/3) 7 ≤ 7 ∧ cutC (1/3) 7 ≤ 7 := by
  decide +kernel

/-- non-vacuity: exact floor rounding on 7 samples, split at p = 1/3 and at the end points 0 and 1 -/
example : percentFilter (fun p n => (p * n).floor.toNat) (fun p n => (p * n).ceil.toNat) 7 none (some (1/3)) false false
    = .ok [0, 1] := by decide +kernel
example : percentFilter (fun p n => (p * n).floor.toNat) (fun p n => (p * n).ceil.toNat) 7 (some (1/3)) none true false
    = .ok [3, 4, 5, 6] := by decide +kernel
example : percentFilter (fun p n => (p * n).floor.toNat) (fun p n => (p * n).ceil.toNat) 3 none (some 0) false false
    = .ok [] := by decide +kernel

/-! ## subset by index / by percent / by explicit list -/

/-- an accepted index subset is exactly the samples `start, …, min(end, n) - 1` (`None` ↦ 0 resp. `n`) -/
theorem subsetIndex_spec (cutF : Rat → Nat → Nat) (n : Nat) (si ei : Option Nat) (res : List Nat)
    (hgiven : (si.isSome || ei.isSome) = true)
    (h : subsetRange cutF n si ei none none = .ok res) :
    res = List.range' (si.getD 0) (min (ei.getD n) n - si.getD 0) ∧ si.getD 0 ≤ min (ei.getD n) n := by
  have hs : pyOrNat si 0 = si.getD 0 := by
    cases si with
    | none => rfl
    | some v => by_cases hv : v = 0 <;> simp [pyOrNat, hv]
  unfold subsetRange at h
  simp only [hgiven, if_true, Option.isSome_none, Bool.or_self, Bool.false_eq_true, if_false, hs] at h
  split at h
  · rename_i hle
    injection h with h
    exact ⟨h.symm, hle⟩
  · cases h

/-- **complementary index ranges partition the dataset**: for every split point `k ≤ n` — including 0 and n —
    `end_index=k` (start omitted or 0) followed by `start_index=k` (end omitted or ≥ n) is `0, …, n-1` -/
theorem subsetIndex_partition (cutF : Rat → Nat → Nat) (n k : Nat) (hk : k ≤ n)
    (sa eb : Option Nat) (hsa : sa = none ∨ sa = some 0) (heb : eb = none ∨ ∃ e, eb = some e ∧ n ≤ e) :
    ∃ A B, subsetRange cutF n sa (some k) none none = .ok A ∧
           subsetRange cutF n (some k) eb none none = .ok B ∧ A ++ B = List.range n := by
  have hsa' : pyOrNat sa 0 = 0 := by rcases hsa with h | h <;> simp [h, pyOrNat]
  have hk' : pyOrNat (some k) 0 = k := by by_cases h : k = 0 <;> simp [pyOrNat, h]
  have heb' : min (eb.getD n) n = n := by
    rcases heb with h | ⟨e, h, hn⟩
    · simp [h]
    · simp [h]; omega
  refine ⟨arange 0 k, arange k n, ?_, ?_, ?_⟩
  · unfold subsetRange
    simp [hsa', Nat.min_eq_left hk]
  · unfold subsetRange
    simp [hk', heb', hk]
  · rw [arange_append 0 k n (Nat.zero_le _) hk, arange_zero]

/-- **complementary percent ranges of the subset wrapper partition the dataset**, for every `p ∈ [0,1]` incl. 0 and 1 -/
theorem subsetPercent_partition (cutF : Rat → Nat → Nat) (n : Nat) (p : Rat) (hp0 : 0 ≤ p) (hp1 : p ≤ 1)
    (hF0 : cutF 0 n = 0) (hF1 : cutF 1 n = n) (hle : cutF p n ≤ n)
    (sa eb : Option Rat) (hsa : sa = none ∨ sa = some 0) (heb : eb = none ∨ eb = some 1) :
    ∃ A B, subsetRange cutF n none none sa (some p) = .ok A ∧
           subsetRange cutF n none none (some p) eb = .ok B ∧ A ++ B = List.range n := by
  have hsa' : pyOrRat sa 0 = 0 := by rcases hsa with h | h <;> simp [h, pyOrRat]
  have heb' : eb.getD 1 = 1 := by rcases heb with h | h <;> simp [h]
  have hpp : pyOrRat (some p) 0 = p := by by_cases h : p = 0 <;> simp [pyOrRat, h]
  have h01 : (0 : Rat) ≤ 1 := by decide
  have hsaok : pctOk sa = true := by rcases hsa with h | h <;> simp [h, pctOk, h01]
  have hebok : pctOk eb = true := by rcases heb with h | h <;> simp [h, pctOk, h01]
  have hpok : pctOk (some p) = true := by simp [pctOk, hp0, hp1]
  refine ⟨arange 0 (cutF p n), arange (cutF p n) n, ?_, ?_, ?_⟩
  · unfold subsetRange
    simp [hsa', hsaok, hpok, hp0, hF0]
  · unfold subsetRange
    simp [hpp, heb', hebok, hpok, hp1, hF1]
  · rw [arange_append 0 _ n (Nat.zero_le _) hle, arange_zero]

/-- every accepted percent subset is a block of consecutive sample numbers -/
theorem subsetRange_contiguous (cutF : Rat → Nat → Nat) (n : Nat) (si ei : Option Nat) (sp ep : Option Rat)
    (res : List Nat) (h : subsetRange cutF n si ei sp ep = .ok res) : ∃ a b, res = List.range' a (b - a) := by
  unfold subsetRange at h
  dsimp only at h
  repeat' split at h
  all_goals first
    | (cases h; exact ⟨_, _, rfl⟩)
    | cases h

/-- an explicit index list is accepted iff every entry lies in `[-n, n)`; it is kept as given and every entry
    addresses a sample of the dataset (negative entries count from the end) -/
theorem subsetExplicit_spec (n : Nat) (idx res : List Int) (h : subsetExplicit n idx false = .ok res) :
    res = idx ∧ ∀ i ∈ idx, pyIndex n i < n := by
  unfold subsetExplicit at h
  simp only [Bool.false_eq_true, if_false] at h
  split at h
  · rename_i hall
    injection h with h
    refine ⟨h.symm, ?_⟩
    intro i hi
    rw [List.all_eq_true] at hall
    have := hall i hi
    simp only [Bool.and_eq_true, decide_eq_true_eq] at this
    unfold pyIndex
    split <;> omega
  · cases h

example : subsetRange (fun p n => (p * n).floor.toNat) 5 none (some 0) none none = .ok [] := by decide +kernel
example : subsetRange (fun p n => (p * n).floor.toNat) 5 (some 0) none none none = .ok [0, 1, 2, 3, 4] := by decide +kernel
example : subsetRange (fun p n => (p * n).floor.toNat) 5 none none (some (1/2)) none = .ok [2, 3, 4] := by decide +kernel
example : subsetExplicit 4 [-1, 2, -4] false = .ok [-1, 2, -4] ∧ [-1, 2, -4].map (pyIndex 4) = [3, 2, 0] := by decide +kernel

/-! ## shuffle -/

/-- for every draw of the generator (a permutation of the positions) the shuffled selection is a permutation
    of the whole dataset: every sample exactly once -/
theorem shuffle_perm (n : Nat) (perm : List Nat) (h : perm.Perm (List.range n)) :
    (shuffle n perm).Perm (List.range n) := by
  unfold shuffle
  apply gather_perm
  simpa using h

example : shuffle 4 [2, 0, 3, 1] = [2, 0, 3, 1] := by decide

/-! ## repeat -/

/-- `RepeatWrapper(repetitions=r)`, `r > 0`, non-empty dataset: exactly `r` whole round-robin copies
    (`r·n` entries, the `k`-th one is sample `k mod n`) -/
theorem repeat_repetitions_spec (n r : Nat) (hn : 0 < n) (hr : 0 < r) :
    ∃ res, repeatW n (some (r : Int)) none = .ok res ∧ res.length = r * n ∧
      ∀ k, k < r * n → res[k]? = some (k % n) := by
  refine ⟨tile (List.range n) r, ?_, ?_, ?_⟩
  · unfold repeatW
    simp [Nat.ne_of_gt hn, Nat.ne_of_gt hr]
  · simp [length_tile]
  · intro k hk
    rw [getElem?_tile _ r k (by simpa using hk)]
    simp only [List.length_range]
    rw [List.getElem?_range (Nat.mod_lt _ hn)]

/-- `RepeatWrapper(min_size=m)`, `m > 0`, non-empty dataset: whole round-robin copies, and their number `r` is the
    least one reaching the requested size (`r·n ≥ m` but `(r-1)·n < m`) -/
theorem repeat_min_size_spec (n m : Nat) (hn : 0 < n) (hm : 0 < m) :
    ∃ r res, repeatW n none (some (m : Int)) = .ok res ∧ res.length = r * n ∧
      (∀ k, k < r * n → res[k]? = some (k % n)) ∧ m ≤ r * n ∧ (r - 1) * n < m := by
  refine ⟨(m + n - 1) / n, tile (List.range n) ((m + n - 1) / n), ?_, ?_, ?_, ?_, ?_⟩
  · unfold repeatW
    simp [Nat.ne_of_gt hn, Nat.ne_of_gt hm]
  · simp [length_tile]
  · intro k hk
    rw [getElem?_tile _ _ k (by simpa using hk)]
    simp only [List.length_range]
    rw [List.getElem?_range (Nat.mod_lt _ hn)]
  · have h2 : m + n - 1 < ((m + n - 1) / n + 1) * n := by
      have := Nat.lt_div_mul_add (a := m + n - 1) hn
      rw [Nat.add_mul]; omega
    rw [Nat.add_mul] at h2
    omega
  · have h1 : (m + n - 1) / n * n ≤ m + n - 1 := Nat.div_mul_le_self _ _
    have h3 : ((m + n - 1) / n - 1) * n = (m + n - 1) / n * n - 1 * n := Nat.sub_mul _ _ _
    omega

/-- the argument asserts: both / neither of `repetitions`, `min_size`, or an empty dataset, are rejected -/
theorem repeat_rejects (n : Nat) (reps minSize : Option Int)
    (h : reps.isSome = minSize.isSome ∨ n = 0) : repeatW n reps minSize = .error .assertion := by
  unfold repeatW
  rcases h with h | h
  · simp [h]
  · by_cases h' : reps.isSome = minSize.isSome <;> simp [h, h']

example : repeatW 3 none (some 7) = .ok [0, 1, 2, 0, 1, 2, 0, 1, 2] := by decide
example : repeatW 3 (some 2) none = .ok [0, 1, 2, 0, 1, 2] := by decide

/-! ## sort by class -/

/-- sort-by-class lists the samples with non-decreasing class, and samples of equal class keep their original
    (increasing) order: for entries `i` before `j`, `class i < class j`, or the classes are equal and `i < j` -/
theorem sortByClass_sorted_stable (cls : List Int) (nc : Nat) :
    (sortByClass cls nc).Pairwise
      (fun i j => ∃ a b, cls[i]? = some a ∧ cls[j]? = some b ∧ (a < b ∨ (a = b ∧ i < j))) :=
  sorted_blocks cls _ nc (fun a x hx => (mem_whereEq cls a x).1 hx) (fun a _ => whereEq_pairwise cls a)

/-- when every label lies in `[0, n_classes)`, sort-by-class is a permutation of the dataset
    (every sample exactly once), whatever classes are absent -/
theorem sortByClass_perm (cls : List Int) (nc : Nat) (hdom : ∀ c ∈ cls, 0 ≤ c ∧ c < (nc : Int)) :
    (sortByClass cls nc).Perm (List.range cls.length) := by
  apply perm_range_of_nodup_mem
  · exact nodup_blocks cls _ nc (fun a x hx => (mem_whereEq cls a x).1 hx) (fun a _ => whereEq_nodup cls a)
  · intro i
    unfold sortByClass
    rw [List.mem_flatMap]
    constructor
    · rintro ⟨a, _, hx⟩
      exact whereEq_lt cls a i hx
    · intro hi
      obtain ⟨h0, h1⟩ := hdom cls[i] (List.getElem_mem hi)
      refine ⟨cls[i].toNat, List.mem_range.2 (by omega), ?_⟩
      rw [mem_whereEq, Int.toNat_of_nonneg h0]
      exact List.getElem?_eq_getElem hi

example : sortByClass [2, 0, 2, 1, 0] 4 = [1, 4, 3, 0, 2] := by decide
/-- non-vacuity of the hypothesis: labels 0..2 with `n_classes = 4` (class 3 absent) -/
example : (sortByClass [2, 0, 2, 1, 0] 4).Perm (List.range 5) := sortByClass_perm _ _ (by decide)

/-! ## oversampling -/

/-- mode "multiply": whenever the constructor accepts, with `mx` the largest labeled class count,
    (1) the original samples are kept as a prefix `0, …, n-1`, (2) every present class `c` ends up with
    `count c · ⌊mx / count c⌋` entries (more than half of `mx`, at most `mx`), (3) unlabeled samples (-1) are not
    duplicated -/
theorem oversampleMultiply_spec (fuel : Nat) (cls : List Int) (nc : Nat) (res : List Nat)
    (h : oversample fuel cls nc .multiply = .ok res) :
    ∃ mx, (∀ c : Int, c ≠ -1 → cls.count c ≤ mx) ∧ (∃ c : Nat, cls.count (c : Int) = mx) ∧
      List.range cls.length <+: res ∧
      (∀ c : Nat, 0 < cls.count (c : Int) →
        res.countP (fun i => cls[i]? == some (c : Int)) = cls.count (c : Int) * (mx / cls.count (c : Int))) ∧
      res.countP (fun i => cls[i]? == some (-1)) = cls.count (-1) := by
  unfold oversample at h
  split at h
  · cases h
  · split at h
    · cases h
    · rename_i counts hc
      split at h
      · cases h
      · rename_i hlen
        simp only at h
        injection h with h
        obtain ⟨hl, hget, hdom⟩ := classCounts_ok cls nc counts hc
        obtain ⟨hmax, c0, _, hc0⟩ := mx_spec cls nc counts hc hlen
        refine ⟨counts.foldl max 0, hmax, ⟨c0, hc0⟩, ?_, ?_, ?_⟩
        · rw [← h]; exact List.prefix_append _ _
        · intro c hpos
          have hmem : (c : Int) ∈ cls := List.count_pos_iff.1 hpos
          have hclt : c < counts.length := by
            rcases hdom _ hmem with h' | ⟨_, h'⟩ <;> omega
          have hg : ∀ a, ∀ x ∈ multiplyExtra cls (counts.foldl max 0) a (counts.getD a 0), cls[x]? = some (a : Int) :=
            fun a x hx => mem_multiplyExtra cls _ a _ x hx
          rw [← h]
          unfold oversampleMultiply
          rw [List.countP_append, countP_range_cls, List.countP_eq_length_filter,
            filter_blocks cls _ hg c _ List.nodup_range, if_pos (List.mem_range.2 hclt)]
          rw [hget c (by omega)]
          have hne : cls.count (c : Int) ≠ 0 := by omega
          have hle := hmax (c : Int) (by omega)
          have hq : 0 < counts.foldl max 0 / cls.count (c : Int) := Nat.div_pos hle hpos
          rw [length_multiplyExtra cls _ c _ hne]
          generalize counts.foldl max 0 / cls.count (c : Int) = q at hq
          have hsub : (q - 1) * cls.count (c : Int) = q * cls.count (c : Int) - 1 * cls.count (c : Int) :=
            Nat.sub_mul _ _ _
          have hqle : 1 * cls.count (c : Int) ≤ q * cls.count (c : Int) := Nat.mul_le_mul_right _ hq
          rw [Nat.mul_comm (cls.count (c : Int)) q]
          omega
        · have hg : ∀ a, ∀ x ∈ multiplyExtra cls (counts.foldl max 0) a (counts.getD a 0), cls[x]? = some (a : Int) :=
            fun a x hx => mem_multiplyExtra cls _ a _ x hx
          rw [← h]
          unfold oversampleMultiply
          rw [List.countP_append, countP_range_cls, List.countP_eq_length_filter,
            filter_blocks_none cls _ hg (-1) _ (fun a _ => by omega)]
          simp

example : oversample 0 [0, 0, 0, 0, 1, 1, -1, 3] 4 .multiply = .ok [0, 1, 2, 3, 4, 5, 6, 7, 4, 5, 7, 7, 7] := by decide

/-- **the literal `while` loop of mode "exact" terminates**: for a class with at least one sample, a fuel of
    `remaining` iterations suffices, and the loop yields the class' samples round-robin until `remaining` entries
    are reached (entry `k` is the `(k mod count)`-th sample of the class) -/
theorem exactLoop_terminates_round_robin (idxs : List Nat) (hpos : 0 < idxs.length) (fuel rem : Nat) (hf : rem ≤ fuel) :
    ∃ r, exactLoop fuel idxs rem [] = .ok r ∧ r.length = rem ∧ ∀ k, k < rem → r[k]? = idxs[k % idxs.length]? := by
  refine ⟨cycTake idxs rem, ?_, length_cycTake idxs rem hpos, getElem?_cycTake idxs hpos rem⟩
  rw [exactLoop_eq idxs hpos fuel rem [] hf]; rfl

/-- why classes without samples must be skipped (defect F04 of the unrepaired code): on an empty class the same loop
    makes no progress — it runs out of every fuel -/
theorem exactLoop_diverges_on_empty_class (fuel rem : Nat) (acc : List Nat) (h : 0 < rem) :
    exactLoop fuel [] rem acc = .error .outOfFuel :=
  exactLoop_diverges [] rfl fuel rem acc h

/-- mode "exact" on a non-empty dataset whose labels lie in `[0, n_classes)` — any classes may be absent:
    construction terminates (a fuel of the dataset size suffices for every class' loop), every sample is kept,
    no foreign index appears, and every present class ends up with exactly `mx` entries, `mx` being the largest
    class count -/
theorem oversampleExact_terminates_and_balances (fuel : Nat) (cls : List Int) (nc : Nat) (hne : cls ≠ [])
    (hdom : ∀ c ∈ cls, 0 ≤ c ∧ c < (nc : Int)) (hfuel : cls.length ≤ fuel) :
    ∃ res mx, oversample fuel cls nc .exact = .ok res ∧
      (∀ c : Int, cls.count c ≤ mx) ∧ (∃ c : Nat, cls.count (c : Int) = mx) ∧
      (∀ i, i < cls.length → i ∈ res) ∧ (∀ i ∈ res, i < cls.length) ∧
      (∀ c : Nat, 0 < cls.count (c : Int) → res.countP (fun i => cls[i]? == some (c : Int)) = mx) := by
  have hcl := le_countsLen nc
  have hdom' : ∀ c ∈ cls, c = -1 ∨ (0 ≤ c ∧ c < (countsLen nc : Int)) := by
    intro c hc; right; have := hdom c hc; omega
  have hc := classCounts_of_dom cls nc hdom'
  generalize hcounts : (List.range (countsLen nc)).map (fun (i : Nat) => cls.count (i : Int)) = counts at hc
  obtain ⟨hl, hget, _⟩ := classCounts_ok cls nc counts hc
  have hlen0 : cls.length ≠ 0 := by
    intro h0; exact hne (List.eq_nil_of_length_eq_zero h0)
  obtain ⟨c1, hc1⟩ := List.exists_mem_of_ne_nil cls hne
  have hnc : 0 < nc := by have := hdom c1 hc1; omega
  have hlen : counts.length ≠ 0 := by omega
  obtain ⟨hmax, c0, hc0lt, hc0⟩ := mx_spec cls nc counts hc hlen
  have hmaxall : ∀ c : Int, cls.count c ≤ counts.foldl max 0 := by
    intro c
    by_cases hm : c ∈ cls
    · exact hmax c (by have := hdom c hm; omega)
    · rw [List.count_eq_zero.2 hm]; exact Nat.zero_le _
  have hmxpos : counts.foldl max 0 ≠ 0 := by
    have := hmaxall c1
    have := List.count_pos_iff.2 hc1
    omega
  have hmxle : counts.foldl max 0 ≤ fuel := by
    rw [← hc0]
    exact Nat.le_trans (List.count_le_length) hfuel
  have hgo := exactGo_eq fuel cls counts (counts.foldl max 0) hmxle (List.range counts.length)
    (fun i hi => hget i (by rw [← hl]; exact List.mem_range.1 hi))
  have hg : ∀ a, ∀ x ∈ exactBlock cls (counts.foldl max 0) a (counts.getD a 0), cls[x]? = some (a : Int) := by
    intro a x hx
    unfold exactBlock at hx
    split at hx
    · cases hx
    · exact (mem_whereEq cls a x).1 (mem_cycTake _ _ _ hx)
  refine ⟨(List.range counts.length).flatMap (fun i => exactBlock cls (counts.foldl max 0) i (counts.getD i 0)),
    counts.foldl max 0, ?_, hmaxall, ⟨c0, hc0⟩, ?_, ?_, ?_⟩
  · unfold oversample
    simp only [hlen0, if_false, hc, hlen, hmxpos]
    exact hgo
  · intro i hi
    obtain ⟨h0, h1⟩ := hdom cls[i] (List.getElem_mem hi)
    rw [List.mem_flatMap]
    have hcast : ((cls[i].toNat : Nat) : Int) = cls[i] := Int.toNat_of_nonneg h0
    have hiw : i ∈ whereEq cls ((cls[i].toNat : Nat) : Int) := by
      rw [mem_whereEq, hcast]; exact List.getElem?_eq_getElem hi
    have hcnt : counts.getD cls[i].toNat 0 = cls.count ((cls[i].toNat : Nat) : Int) := hget _ (by omega)
    have hpos : 0 < (whereEq cls ((cls[i].toNat : Nat) : Int)).length := List.length_pos_of_mem hiw
    refine ⟨cls[i].toNat, List.mem_range.2 (by omega), ?_⟩
    unfold exactBlock
    rw [if_neg (by rw [hcnt, ← length_whereEq]; omega)]
    have hpre := prefix_cycTake (whereEq cls ((cls[i].toNat : Nat) : Int)) (counts.foldl max 0) hpos
      (by rw [length_whereEq]; exact hmaxall _)
    exact hpre.subset hiw
  · intro i hi
    rw [List.mem_flatMap] at hi
    obtain ⟨a, _, hx⟩ := hi
    have := hg a i hx
    exact (List.getElem?_eq_some_iff.1 this).1
  · intro c hpos
    have hmem : (c : Int) ∈ cls := List.count_pos_iff.1 hpos
    have hclt : c < counts.length := by have := hdom _ hmem; omega
    rw [List.countP_eq_length_filter, filter_blocks cls _ hg c _ List.nodup_range,
      if_pos (List.mem_range.2 hclt)]
    unfold exactBlock
    rw [hget c (by omega), if_neg (by omega)]
    exact length_cycTake _ _ (by rw [length_whereEq]; exact hpos)

/-- non-vacuity: class 1 absent, class 3 absent at the end; the hypotheses of the theorem hold for this input -/
example : oversample 5 [0, 0, 2, 0, 2] 4 .exact = .ok [0, 1, 3, 2, 4, 2] := by decide
example : ([0, 0, 2, 0, 2] : List Int) ≠ [] ∧ (∀ c ∈ ([0, 0, 2, 0, 2] : List Int), 0 ≤ c ∧ c < ((4 : Nat) : Int)) ∧
    ([0, 0, 2, 0, 2] : List Int).length ≤ 5 := by decide

/-! ## few-shot -/

/-- few-shot with `shots ≥ 0` on a non-empty dataset, for every tape of per-class permutations: the selection has no
    repeated sample, lists the classes in non-decreasing order, and contains exactly `min(shots, count c)` samples
    of every class `c` (hence none of an absent class) -/
theorem fewshot_spec (cls : List Int) (shots : Nat) (tape : List (List Nat)) (hne : cls ≠ [])
    (hlen : tape.length = fewshotNumClasses cls)
    (htape : ∀ i, i < fewshotNumClasses cls → (tape.getD i []).Perm (List.range (cls.count (i : Int)))) :
    ∃ res, fewshot cls (shots : Int) tape = .ok res ∧ res.Nodup ∧
      res.Pairwise (fun i j => ∃ a b, cls[i]? = some a ∧ cls[j]? = some b ∧ a ≤ b) ∧
      ∀ c : Nat, res.countP (fun i => cls[i]? == some (c : Int)) = min shots (cls.count (c : Int)) := by
  have hlen0 : cls.length ≠ 0 := by
    intro h0; exact hne (List.eq_nil_of_length_eq_zero h0)
  have hslice : ∀ t : List Nat, pySliceTo t (shots : Int) = t.take shots := by
    intro t; unfold pySliceTo; simp
  have hg : ∀ a : Nat, ∀ x ∈ gather (whereEq cls (a : Int)) (pySliceTo (tape.getD a []) (shots : Int)),
      cls[x]? = some (a : Int) := by
    intro a x hx
    exact (mem_whereEq cls a x).1 (mem_gather _ _ _ hx)
  refine ⟨(List.range (fewshotNumClasses cls)).flatMap (fun (i : Nat) =>
      gather (whereEq cls (i : Int)) (pySliceTo (tape.getD i []) (shots : Int))), ?_, ?_, ?_, ?_⟩
  · unfold fewshot
    simp only [hlen0, if_false, hlen, ne_eq, not_true_eq_false]
  · apply nodup_blocks cls _ _ hg
    intro a ha
    have hp := gather_perm (whereEq cls (a : Int)) (tape.getD a [])
      (by rw [length_whereEq]; exact htape a ha)
    have hnd : (gather (whereEq cls (a : Int)) (tape.getD a [])).Nodup :=
      (hp.nodup_iff).2 (whereEq_nodup cls a)
    refine List.Nodup.sublist (gather_sublist _ ?_) hnd
    rw [hslice]; exact List.take_sublist _ _
  · apply pairwise_blocks
    · intro a _
      apply List.pairwise_of_forall_mem_list
      intro x hx y hy
      exact ⟨a, a, hg a x hx, hg a y hy, Int.le_refl _⟩
    · intro a b hab _ x hx y hy
      exact ⟨a, b, hg a x hx, hg b y hy, by omega⟩
  · intro c
    rw [List.countP_eq_length_filter, filter_blocks cls _ hg c _ List.nodup_range]
    by_cases hc : c < fewshotNumClasses cls
    · rw [if_pos (List.mem_range.2 hc), hslice]
      have hp := htape c hc
      have hlt : ∀ j ∈ (tape.getD c []).take shots, j < (whereEq cls (c : Int)).length := by
        intro j hj
        have := (hp.mem_iff).1 (List.mem_of_mem_take hj)
        rw [length_whereEq]; exact List.mem_range.1 this
      rw [length_gather _ _ hlt, List.length_take, hp.length_eq, List.length_range]
    · rw [if_neg (by rw [List.mem_range]; exact hc)]
      have : cls.count (c : Int) = 0 := by
        rw [List.count_eq_zero]
        intro hm; exact hc (lt_fewshotNumClasses cls c hm)
      rw [this]; simp

example : fewshot [1, 0, 1, 1, 3] 2 [[0], [2, 0, 1], [], [0]] = .ok [1, 3, 0, 4] := by decide
/-- non-vacuity: this tape satisfies the generator contract for the class list (class 2 absent) -/
example : ∀ i, i < fewshotNumClasses [1, 0, 1, 1, 3] →
    (([[0], [2, 0, 1], [], [0]] : List (List Nat)).getD i []).Perm (List.range (([1, 0, 1, 1, 3] : List Int).count (i : Int))) := by
  decide

/-! ## intra-class shuffle -/

/-- intra-class shuffle with a seed, labels in `[0, n_classes)`, for every tape of per-class permutations:
    construction succeeds, the selection is a permutation of the dataset (every sample exactly once) and the
    class seen at every position is unchanged (`class of res[j] = class of j`) -/
theorem intraClassShuffle_perm_keeps_class_seq (cls : List Int) (nc : Nat) (tape : List (List Nat))
    (hdom : ∀ c ∈ cls, 0 ≤ c ∧ c < (nc : Int)) (hlen : tape.length = nc)
    (htape : ∀ i, i < nc → (tape.getD i []).Perm (List.range (cls.count (i : Int)))) :
    ∃ res, intraClassShuffle cls nc true tape = .ok res ∧ res.Perm (List.range cls.length) ∧
      res.map (fun i => cls[i]?) = cls.map some := by
  -- the permuted index list of every class
  have hctplen : (clsToPerm cls nc tape).length = nc := by simp [clsToPerm]
  have hP : ∀ i, i < nc → (clsToPerm cls nc tape).getD i [] = gather (whereEq cls (i : Int)) (tape.getD i []) := by
    intro i hi
    unfold clsToPerm
    rw [List.getD_eq_getElem?_getD, List.getElem?_map, List.getElem?_range hi]
    rfl
  have hPperm : ∀ i, i < nc → ((clsToPerm cls nc tape).getD i []).Perm (whereEq cls (i : Int)) := by
    intro i hi
    rw [hP i hi]
    exact gather_perm _ _ (by rw [length_whereEq]; exact htape i hi)
  have hcast : ∀ c ∈ cls, ((c.toNat : Nat) : Int) = c := fun c hc => Int.toNat_of_nonneg (hdom c hc).1
  have htoNat : ∀ c ∈ cls, c.toNat < nc := fun c hc => by have := hdom c hc; omega
  obtain ⟨res, hres, hreslen, hresget⟩ := icsGo_spec (clsToPerm cls nc tape) cls (fun _ => 0)
    (fun c hc => ⟨(hdom c hc).1, by rw [hctplen]; exact htoNat c hc⟩)
    (fun c hc => by
      rw [(hPperm c.toNat (htoNat c hc)).length_eq, length_whereEq, hcast c hc]; omega)
  -- every entry is a sample of the class found at its position
  have hcls : ∀ j (hj : j < cls.length), ∃ v, res[j]? = some v ∧ v ∈ whereEq cls cls[j] := by
    intro j hj
    have hm : cls[j] ∈ cls := List.getElem_mem hj
    have h1 := hresget j cls[j] (List.getElem?_eq_getElem hj)
    have hjr : j < res.length := by omega
    refine ⟨res[j], List.getElem?_eq_getElem hjr, ?_⟩
    rw [List.getElem?_eq_getElem hjr] at h1
    have hmem := List.mem_of_getElem? h1.symm
    have := (hPperm _ (htoNat _ hm)).mem_iff.1 hmem
    rw [hcast _ hm] at this
    exact this
  refine ⟨res, ?_, ?_, ?_⟩
  · unfold intraClassShuffle
    simp [hlen, hres]
  · apply perm_of_nodup_subset_length
    · rw [List.Nodup, List.pairwise_iff_getElem]
      intro j1 j2 h1 h2 h12 heq
      have hj1 : j1 < cls.length := by omega
      have hj2 : j2 < cls.length := by omega
      obtain ⟨v1, hv1, hw1⟩ := hcls j1 hj1
      obtain ⟨v2, hv2, hw2⟩ := hcls j2 hj2
      rw [List.getElem?_eq_getElem h1] at hv1
      rw [List.getElem?_eq_getElem h2] at hv2
      injection hv1 with hv1
      injection hv2 with hv2
      rw [hv1, hv2] at heq
      subst heq
      have hc1 := (mem_whereEq _ _ _).1 hw1
      have hc2 := (mem_whereEq _ _ _).1 hw2
      rw [hc1] at hc2
      injection hc2 with hc2
      have hm : cls[j1] ∈ cls := List.getElem_mem hj1
      have g1 := hresget j1 cls[j1] (List.getElem?_eq_getElem hj1)
      have g2 := hresget j2 cls[j1] (by rw [hc2]; exact List.getElem?_eq_getElem hj2)
      rw [List.getElem?_eq_getElem h1, hv1] at g1
      rw [List.getElem?_eq_getElem h2, hv2] at g2
      have hnd : ((clsToPerm cls nc tape).getD cls[j1].toNat []).Nodup :=
        (hPperm _ (htoNat _ hm)).nodup_iff.2 (whereEq_nodup _ _)
      have hk1 : 0 + (cls.take j1).count cls[j1] < ((clsToPerm cls nc tape).getD cls[j1].toNat []).length :=
        (List.getElem?_eq_some_iff.1 g1.symm).1
      have := (List.getElem?_inj hk1 hnd).1 (g1.symm.trans g2)
      have hlt := count_take_lt cls cls[j1] j1 j2 (List.getElem?_eq_getElem hj1) h12
      omega
    · intro v hv
      obtain ⟨j, hj, hjv⟩ := List.mem_iff_getElem.1 hv
      obtain ⟨v', hv', hw⟩ := hcls j (by omega)
      rw [List.getElem?_eq_getElem hj, hjv] at hv'
      injection hv' with hv'
      subst hv'
      exact List.mem_range.2 (whereEq_lt _ _ _ hw)
    · simp [hreslen]
  · apply List.ext_getElem?
    intro j
    by_cases hj : j < cls.length
    · obtain ⟨v, hv, hw⟩ := hcls j hj
      rw [List.getElem?_map, List.getElem?_map, hv, List.getElem?_eq_getElem hj]
      simp only [Option.map_some]
      rw [(mem_whereEq _ _ _).1 hw]
    · rw [List.getElem?_map, List.getElem?_map, List.getElem?_eq_none (by omega), List.getElem?_eq_none (by omega)]
      rfl

example : intraClassShuffle [1, 0, 1, 1, 0] 3 true [[1, 0], [2, 0, 1], []] = .ok [3, 4, 0, 2, 1] := by decide
/-- non-vacuity: this tape satisfies the generator contract (class 2 absent) -/
example : ∀ i, i < 3 →
    (([[1, 0], [2, 0, 1], []] : List (List Nat)).getD i []).Perm (List.range (([1, 0, 1, 1, 0] : List Int).count (i : Int))) := by
  decide

/-! ## class-wise subset -/

/-- class-wise subset by index: whenever the constructor accepts (`start ≤ min(end, n)`, and with
    `check_enough_samples` every class has at least `end` samples), the selection lists the classes in order with
    original order inside a class, and the entries of every class `c < n_classes` are exactly the samples number
    `start … min(end, n)-1` *of that class* -/
theorem classwiseSubset_index_spec (cutT : Rat → Nat → Nat) (cls : List Int) (nc : Nat) (si ei : Option Nat)
    (check : Bool) (res : List Nat) (hgiven : (si.isSome || ei.isSome) = true)
    (h : classwiseSubset cutT cls nc si ei none none check = .ok res) :
    si.getD 0 ≤ min (ei.getD cls.length) cls.length ∧
    (check = true → ∀ c : Nat, c < nc → min (ei.getD cls.length) cls.length ≤ cls.count (c : Int)) ∧
    res.Pairwise (fun i j => ∃ a b, cls[i]? = some a ∧ cls[j]? = some b ∧ (a < b ∨ (a = b ∧ i < j))) ∧
    ∀ c : Nat, c < nc → res.filter (fun i => cls[i]? == some (c : Int)) =
      ((whereEq cls (c : Int)).take (min (ei.getD cls.length) cls.length)).drop (si.getD 0) := by
  unfold classwiseSubset at h
  cases hc : classCounts cls nc with
  | error e => rw [hc] at h; cases h
  | ok counts =>
    rw [hc] at h
    obtain ⟨hl, hget, _⟩ := classCounts_ok cls nc counts hc
    have hcl := le_countsLen nc
    simp only [hgiven, if_true, Option.isSome_none, Bool.or_self, Bool.false_eq_true, if_false, pyOrNat_zero] at h
    split at h
    · rename_i hse
      split at h
      · cases h
      · rename_i hchk
        injection h with h
        have hg : ∀ a, ∀ x ∈ (if counts.getD a 0 ≤ si.getD 0 then []
            else pySlice (whereEq cls (a : Int)) (si.getD 0) (min (min (ei.getD cls.length) cls.length) (counts.getD a 0))),
            x ∈ whereEq cls (a : Int) := by
          intro a x hx
          split at hx
          · cases hx
          · exact (pySlice_sublist _ _ _).subset hx
        refine ⟨hse, ?_, ?_, ?_⟩
        · intro hck c hcn
          rw [hck] at hchk
          simp only [Bool.true_and, Bool.not_eq_true, List.any_eq_false, List.mem_range, decide_eq_true_eq] at hchk
          have := hchk c hcn
          rw [hget c (by omega)] at this
          omega
        · rw [← h]
          apply sorted_blocks cls _ nc (fun a x hx => (mem_whereEq cls a x).1 (hg a x hx))
          intro a _
          split
          · exact List.Pairwise.nil
          · exact (whereEq_pairwise cls a).sublist (pySlice_sublist _ _ _)
        · intro c hcn
          rw [← h, filter_blocks cls _ (fun a x hx => (mem_whereEq cls a x).1 (hg a x hx)) c _ List.nodup_range,
            if_pos (List.mem_range.2 hcn)]
          exact classwise_index_block _ _ _ _ (by rw [hget c (by omega), length_whereEq])
    · cases h

/-- class-wise subset by percent: whenever the constructor accepts, the selection lists the classes in order with
    original order inside a class, and the entries of every class `c < n_classes` are exactly the samples number
    `cut(start_percent, count c) … cut(end_percent, count c)-1` of that class -/
theorem classwiseSubset_percent_spec (cutT : Rat → Nat → Nat) (cls : List Int) (nc : Nat) (sp ep : Option Rat)
    (check : Bool) (res : List Nat) (hgiven : (sp.isSome || ep.isSome) = true)
    (h : classwiseSubset cutT cls nc none none sp ep check = .ok res) :
    sp.getD 0 ≤ ep.getD 1 ∧
    res.Pairwise (fun i j => ∃ a b, cls[i]? = some a ∧ cls[j]? = some b ∧ (a < b ∨ (a = b ∧ i < j))) ∧
    ∀ c : Nat, c < nc → res.filter (fun i => cls[i]? == some (c : Int)) =
      ((whereEq cls (c : Int)).take (cutT (ep.getD 1) (cls.count (c : Int)))).drop (cutT (sp.getD 0) (cls.count (c : Int))) := by
  unfold classwiseSubset at h
  cases hc : classCounts cls nc with
  | error e => rw [hc] at h; cases h
  | ok counts =>
    rw [hc] at h
    obtain ⟨hl, hget, _⟩ := classCounts_ok cls nc counts hc
    have hcl := le_countsLen nc
    simp only [Option.isSome_none, Bool.or_self, Bool.false_eq_true, if_false, hgiven, if_true, pyOrRat_zero] at h
    split at h
    · split at h
      · rename_i hse
        injection h with h
        have hg : ∀ a : Nat, ∀ x ∈ pySlice (whereEq cls (a : Int)) (cutT (sp.getD 0) (counts.getD a 0)) (cutT (ep.getD 1) (counts.getD a 0)),
            x ∈ whereEq cls (a : Int) := fun a x hx => (pySlice_sublist _ _ _).subset hx
        refine ⟨hse, ?_, ?_⟩
        · rw [← h]
          apply sorted_blocks cls _ nc (fun a x hx => (mem_whereEq cls a x).1 (hg a x hx))
          intro a _
          exact (whereEq_pairwise cls a).sublist (pySlice_sublist _ _ _)
        · intro c hcn
          rw [← h, filter_blocks cls _ (fun a x hx => (mem_whereEq cls a x).1 (hg a x hx)) c _ List.nodup_range,
            if_pos (List.mem_range.2 hcn), hget c (by omega)]
          rfl
      · cases h
    · cases h

/-- class-wise subset takes the requested amount per class: by index `min(end, n, count c) - start` samples of class
    `c`, by percent `min(cut(end_percent, count c), count c) - cut(start_percent, count c)` -/
theorem classwiseSubset_counts (cutT : Rat → Nat → Nat) (cls : List Int) (nc : Nat) (check : Bool) (res : List Nat) :
    (∀ si ei : Option Nat, (si.isSome || ei.isSome) = true →
      classwiseSubset cutT cls nc si ei none none check = .ok res →
      ∀ c : Nat, c < nc → res.countP (fun i => cls[i]? == some (c : Int)) =
        min (min (ei.getD cls.length) cls.length) (cls.count (c : Int)) - si.getD 0) ∧
    (∀ sp ep : Option Rat, (sp.isSome || ep.isSome) = true →
      classwiseSubset cutT cls nc none none sp ep check = .ok res →
      ∀ c : Nat, c < nc → res.countP (fun i => cls[i]? == some (c : Int)) =
        min (cutT (ep.getD 1) (cls.count (c : Int))) (cls.count (c : Int)) - cutT (sp.getD 0) (cls.count (c : Int))) := by
  constructor
  · intro si ei hg h c hc
    obtain ⟨_, _, _, f⟩ := classwiseSubset_index_spec cutT cls nc si ei check res hg h
    rw [List.countP_eq_length_filter, f c hc, List.length_drop, List.length_take, length_whereEq]
  · intro sp ep hg h c hc
    obtain ⟨_, _, f⟩ := classwiseSubset_percent_spec cutT cls nc sp ep check res hg h
    rw [List.countP_eq_length_filter, f c hc, List.length_drop, List.length_take, length_whereEq]

/-- **class-wise complementary index ranges partition every class**: for every split `k ≤ n` incl. 0 and n,
    `end_index=k` followed by `start_index=k` (no sample check) gives, class by class, all samples of the class -/
theorem classwiseSubset_index_partition (cutT : Rat → Nat → Nat) (cls : List Int) (nc k : Nat) (sa : Option Nat)
    (A B : List Nat) (hsa : sa = none ∨ sa = some 0)
    (hA : classwiseSubset cutT cls nc sa (some k) none none false = .ok A)
    (hB : classwiseSubset cutT cls nc (some k) none none none false = .ok B) :
    ∀ c : Nat, c < nc → A.filter (fun i => cls[i]? == some (c : Int)) ++ B.filter (fun i => cls[i]? == some (c : Int))
      = whereEq cls (c : Int) := by
  intro c hc
  obtain ⟨_, _, _, fA⟩ := classwiseSubset_index_spec cutT cls nc sa (some k) false A (by simp) hA
  obtain ⟨hkn, _, _, fB⟩ := classwiseSubset_index_spec cutT cls nc (some k) none false B (by simp) hB
  rw [fA c hc, fB c hc]
  have hsa0 : sa.getD 0 = 0 := by rcases hsa with h | h <;> simp [h]
  have hW : (whereEq cls (c : Int)).take cls.length = whereEq cls (c : Int) :=
    List.take_of_length_le (by rw [length_whereEq]; exact List.count_le_length)
  simp only [Option.getD_some, Option.getD_none, Nat.min_self] at hkn ⊢
  rw [hsa0, List.drop_zero, Nat.min_eq_left hkn, hW]
  exact List.take_append_drop _ _

/-- **class-wise complementary percent ranges partition every class**, for every `p` incl. 0 and 1 and every rounding
    with `cut 0 k = 0`, `cut 1 k = k` -/
theorem classwiseSubset_percent_partition (cutT : Rat → Nat → Nat) (cls : List Int) (nc : Nat) (p : Rat)
    (sa eb : Option Rat) (A B : List Nat) (hsa : sa = none ∨ sa = some 0) (heb : eb = none ∨ eb = some 1)
    (h0 : ∀ k, cutT 0 k = 0) (h1 : ∀ k, cutT 1 k = k)
    (hA : classwiseSubset cutT cls nc none none sa (some p) true = .ok A)
    (hB : classwiseSubset cutT cls nc none none (some p) eb true = .ok B) :
    ∀ c : Nat, c < nc → A.filter (fun i => cls[i]? == some (c : Int)) ++ B.filter (fun i => cls[i]? == some (c : Int))
      = whereEq cls (c : Int) := by
  intro c hc
  obtain ⟨_, _, fA⟩ := classwiseSubset_percent_spec cutT cls nc sa (some p) true A (by simp) hA
  obtain ⟨_, _, fB⟩ := classwiseSubset_percent_spec cutT cls nc (some p) eb true B (by simp) hB
  rw [fA c hc, fB c hc]
  have hsa0 : sa.getD 0 = 0 := by rcases hsa with h | h <;> simp [h]
  have heb1 : eb.getD 1 = 1 := by rcases heb with h | h <;> simp [h]
  have hW : (whereEq cls (c : Int)).take (cls.count (c : Int)) = whereEq cls (c : Int) :=
    List.take_of_length_le (by rw [length_whereEq]; exact Nat.le_refl _)
  simp only [Option.getD_some]
  rw [hsa0, heb1, h0, h1, List.drop_zero, hW]
  exact List.take_append_drop _ _

/-- acceptance (non-vacuity of the two partition theorems): with labels in range, a split `k ≤ n` resp. a percent
    `p ∈ [0,1]` both halves are accepted -/
theorem classwiseSubset_accepts (cutT : Rat → Nat → Nat) (cls : List Int) (nc k : Nat) (p : Rat)
    (hdom : ∀ c ∈ cls, 0 ≤ c ∧ c < (nc : Int)) (hk : k ≤ cls.length) (hp0 : 0 ≤ p) (hp1 : p ≤ 1) :
    (∃ A, classwiseSubset cutT cls nc none (some k) none none false = .ok A) ∧
    (∃ B, classwiseSubset cutT cls nc (some k) none none none false = .ok B) ∧
    (∃ A, classwiseSubset cutT cls nc none none none (some p) true = .ok A) ∧
    (∃ B, classwiseSubset cutT cls nc none none (some p) none true = .ok B) := by
  have hcl := le_countsLen nc
  have hc := classCounts_of_dom cls nc (fun c hc => Or.inr (by have := hdom c hc; omega))
  have h01 : (0 : Rat) ≤ 1 := by decide
  have hpok : pctOk (some p) = true := by simp [pctOk, hp0, hp1]
  have hpp : pyOrRat (some p) 0 = p := by by_cases h : p = 0 <;> simp [pyOrRat, h]
  have hkk : pyOrNat (some k) 0 = k := by by_cases h : k = 0 <;> simp [pyOrNat, h]
  refine ⟨?_, ?_, ?_, ?_⟩
  · unfold classwiseSubset
    simp [hc, pyOrNat]
  · unfold classwiseSubset
    simp [hc, hkk, hk]
  · unfold classwiseSubset
    simp [hc, pctOk, pyOrRat, hp0, hp1]
  · unfold classwiseSubset
    simp [hc, pctOk, hpp, hp0, hp1]

example : classwiseSubset (fun p n => (p * n).floor.toNat) [0, 1, 0, 0, 1, 0] 2 none (some 2) none none true
    = .ok [0, 2, 1, 4] := by decide +kernel
example : classwiseSubset (fun p n => (p * n).floor.toNat) [0, 1, 0, 0, 1, 0] 3 none none none (some (1/2)) true
    = .ok [0, 2, 1] := by decide +kernel
example : classwiseSubset (fun p n => (p * n).floor.toNat) [0, 1, 0, 0, 1, 0] 3 none none (some (1/2)) none true
    = .ok [3, 5, 4] := by decide +kernel

/-! ## Python's `x or default` -/

/-- for the *lower* bounds `x or 0` / `x or 0.` is harmless: it is the same as defaulting `None` -/
theorem pyOr_zero_is_default (x : Option Nat) (y : Option Rat) : pyOrNat x 0 = x.getD 0 ∧ pyOrRat y 0 = y.getD 0 :=
  ⟨pyOrNat_zero x, pyOrRat_zero y⟩

/-- for the *upper* bounds it is not (defect F03 of the unrepaired code): an explicit 0 is replaced by the default,
    which is why the model (and the repaired code) use `default if x is None else x` there -/
theorem pyOr_swallows_zero (n : Nat) : pyOrNat (some 0) n = n ∧ pyOrRat (some 0) 1 = 1 ∧ (some 0 : Option Nat).getD n = 0 := by
  simp [pyOrNat, pyOrRat]

/-! # Additions closing the audit gaps (exact rounding, acceptance, unlabeled samples, seed contract)

The theorems below instantiate the rounding parameters with the real rules over the rationals
(`exactCutF p n = ⌊p·n⌋`, `exactCutC p n = ⌈p·n⌉`, `Model/C03Spec.lean`; the bridge to Mathlib's `⌊·⌋`/`⌈·⌉` notation is
`Lemmas/C03FloorBridge.lean`), say when each constructor accepts, treat unlabeled (`-1`) and out-of-range labels
explicitly, and state the "function of arguments and seed" clause. -/

/-! ## exact rounding over the rationals (percent bounds that do not fall on integer boundaries) -/

/-- **the real rounding rules, exactly**: for a percentage `p ≥ 0` treated as an exact rational and every size `n`,
    `exactCutF p n` (`int(p * n)`) is the unique natural `k` with `k ≤ p·n < k+1`, i.e. `⌊p·n⌋`, and `exactCutC p n`
    (`np.ceil(p * n)`) the unique natural `k` with `p·n ≤ k < p·n+1`, i.e. `⌈p·n⌉`. They differ by at most one and agree
    exactly when `p·n` is an integer. NOTE: the real code evaluates `p * n` in floating point (float64; float32 in the
    class-wise wrapper) and rounds that value; the model treats `p` as an exact rational, so these theorems describe the
    code wherever the float product is rounded to the same integer. -/
theorem exactCut_characterisation (p : Rat) (n : Nat) (hp : 0 ≤ p) :
    ((exactCutF p n : Rat) ≤ p * n ∧ p * n < (exactCutF p n : Rat) + 1) ∧
    (p * n ≤ (exactCutC p n : Rat) ∧ (exactCutC p n : Rat) < p * n + 1) ∧
    (∀ k : Nat, (k : Rat) ≤ p * n → p * n < (k : Rat) + 1 → exactCutF p n = k) ∧
    (∀ k : Nat, p * n ≤ (k : Rat) → (k : Rat) < p * n + 1 → exactCutC p n = k) ∧
    exactCutF p n ≤ exactCutC p n ∧ exactCutC p n ≤ exactCutF p n + 1 ∧
    (exactCutF p n = exactCutC p n ↔ ∃ k : Nat, p * n = (k : Rat)) :=
  ⟨⟨c03x_cutF_le p n hp, c03x_lt_cutF_add_one p n⟩, ⟨c03x_le_cutC p n, c03x_cutC_lt p n hp⟩,
    fun k => c03x_cutF_unique p n k, fun k => c03x_cutC_unique p n k,
    c03x_cutF_le_cutC p n, c03x_cutC_le_cutF_succ p n, c03x_cutF_eq_cutC_iff p n hp⟩

/-- **the hypotheses of `percentFilter_partition` / `percentFilter_chain` / `subsetPercent_partition` /
    `classwiseSubset_percent_partition` hold for the real rounding rules**, for every `n` and all `p ≤ q` in `ℚ`:
    `cut 0 n = 0`, `cut 1 n = n`, `cut p n ≤ n` for `p ≤ 1`, and both cuts are monotone in `p` -/
theorem exactCut_hypotheses (n : Nat) :
    exactCutF 0 n = 0 ∧ exactCutC 0 n = 0 ∧ exactCutF 1 n = n ∧ exactCutC 1 n = n ∧
    (∀ p : Rat, p ≤ 1 → exactCutF p n ≤ n) ∧ (∀ p : Rat, p ≤ 1 → exactCutC p n ≤ n) ∧
    (∀ p q : Rat, p ≤ q → exactCutF p n ≤ exactCutF q n) ∧ (∀ p q : Rat, p ≤ q → exactCutC p n ≤ exactCutC q n) :=
  ⟨c03x_cutF_zero n, c03x_cutC_zero n, c03x_cutF_one n, c03x_cutC_one n,
    fun p => c03x_cutF_le_n p n, fun p => c03x_cutC_le_n p n,
    fun p q => c03x_cutF_mono p q n, fun p q => c03x_cutC_mono p q n⟩

example : exactCutF (1/3) 7 = 2 ∧ exactCutC (1/3) 7 = 3 ∧ exactCutF (2/7) 7 = 2 ∧ exactCutC (2/7) 7 = 2 := by decide +kernel

/-! ## percent filter, exact rounding: acceptance, exact interval, partition -/

/-- **acceptance of `PercentFilterWrapper`** (any rounding functions): the constructor accepts iff both bounds
    (`None` ↦ 0 resp. 1) lie in `[0,1]`; otherwise it raises the `AssertionError`. In particular `from > to` is
    *accepted* (and yields the empty selection, see `percentFilter_exact_interval`). -/
theorem percentFilter_accepts_iff (cutF cutC : Rat → Nat → Nat) (n : Nat) (fp tp : Option Rat) (cf ct : Bool) :
    ((∃ res, percentFilter cutF cutC n fp tp cf ct = .ok res) ↔
      (0 ≤ fp.getD 0 ∧ fp.getD 0 ≤ 1 ∧ 0 ≤ tp.getD 1 ∧ tp.getD 1 ≤ 1)) ∧
    (¬ (0 ≤ fp.getD 0 ∧ fp.getD 0 ≤ 1 ∧ 0 ≤ tp.getD 1 ∧ tp.getD 1 ≤ 1) →
      percentFilter cutF cutC n fp tp cf ct = .error .assertion) := by
  unfold percentFilter
  simp only [pyOrRat_zero]
  by_cases hg : 0 ≤ fp.getD 0 ∧ fp.getD 0 ≤ 1 ∧ 0 ≤ tp.getD 1 ∧ tp.getD 1 ≤ 1
  · rw [if_pos hg]
    exact ⟨⟨fun _ => hg, fun _ => ⟨_, rfl⟩⟩, fun h => absurd hg h⟩
  · rw [if_neg hg]
    refine ⟨⟨?_, fun h => absurd h hg⟩, fun _ => rfl⟩
    rintro ⟨res, h⟩; cases h

/-- **the exact interval of an accepted percent filter**, real rounding rules, every `n`, all bounds in `[0,1] ∩ ℚ`
    (what the constructor's asserts guarantee), all four rounding-mode combinations: the selection is the block
    `a, a+1, …, b-1` with `a = cut(from, n) ≤ n`, `b = cut(to, n) ≤ n` (empty when `b ≤ a`), and sample `i` is selected iff
    * lower bound, floor mode: `from·n < i+1`;  ceil mode: `from·n ≤ i`,
    * upper bound, floor mode: `i+1 ≤ to·n`;   ceil mode: `i < to·n`
    — stated over the rationals, so bounds that do not fall on integer boundaries are covered. -/
theorem percentFilter_exact_interval (n : Nat) (fp tp : Option Rat) (cf ct : Bool)
    (hf : 0 ≤ fp.getD 0 ∧ fp.getD 0 ≤ 1) (ht : 0 ≤ tp.getD 1 ∧ tp.getD 1 ≤ 1) :
    ∃ a b, a = (if cf then exactCutC else exactCutF) (fp.getD 0) n ∧
      b = (if ct then exactCutC else exactCutF) (tp.getD 1) n ∧ a ≤ n ∧ b ≤ n ∧
      percentFilter exactCutF exactCutC n fp tp cf ct = .ok (List.range' a (b - a)) ∧
      ∀ i : Nat, i ∈ List.range' a (b - a) ↔
        (if cf then fp.getD 0 * n ≤ (i : Rat) else fp.getD 0 * n < (i : Rat) + 1) ∧
        (if ct then (i : Rat) < tp.getD 1 * n else (i : Rat) + 1 ≤ tp.getD 1 * n) := by
  refine ⟨_, _, rfl, rfl, ?_, ?_, ?_, ?_⟩
  · cases cf
    · exact c03x_cutF_le_n _ n hf.2
    · exact c03x_cutC_le_n _ n hf.2
  · cases ct
    · exact c03x_cutF_le_n _ n ht.2
    · exact c03x_cutC_le_n _ n ht.2
  · unfold percentFilter
    simp only [pyOrRat_zero]
    rw [if_pos ⟨hf.1, hf.2, ht.1, ht.2⟩]
    rfl
  · intro i
    rw [show List.range' ((if cf then exactCutC else exactCutF) (fp.getD 0) n)
        ((if ct then exactCutC else exactCutF) (tp.getD 1) n - (if cf then exactCutC else exactCutF) (fp.getD 0) n)
        = arange ((if cf then exactCutC else exactCutF) (fp.getD 0) n) ((if ct then exactCutC else exactCutF) (tp.getD 1) n)
        from rfl, mem_arange]
    cases cf <;> cases ct <;>
      simp only [Bool.false_eq_true, if_false, if_true, c03x_cutF_le_iff, c03x_lt_cutF_iff, c03x_cutC_le_iff,
        c03x_lt_cutC_iff]

/-- non-vacuity and what it evaluates to: 7 samples, `[1/3, 5/6]`: floor/floor keeps 2..4 (⌊7/3⌋ = 2, ⌊35/6⌋ = 5),
    ceil/ceil keeps 3..5; a reversed range is accepted and empty -/
example : percentFilter exactCutF exactCutC 7 (some (1/3)) (some (5/6)) false false = .ok [2, 3, 4] ∧
    percentFilter exactCutF exactCutC 7 (some (1/3)) (some (5/6)) true true = .ok [3, 4, 5] ∧
    percentFilter exactCutF exactCutC 7 (some (5/6)) (some (1/3)) false false = .ok [] ∧
    percentFilter exactCutF exactCutC 7 (some (3/2)) none false false = .error .assertion := by decide +kernel

/-- **complementary percent ranges partition the dataset — real rounding rules**: for every size `n`, every
    `p ∈ [0,1] ∩ ℚ` (incl. 0, 1 and every `p` with `p·n` not an integer) and both rounding modes `m` at the shared bound
    (the outer modes `m'`, `m''` are arbitrary): "up to p" followed by "from p" is exactly `0, 1, …, n-1`; the split
    point is `⌊p·n⌋` resp. `⌈p·n⌉`. No hypothesis on the rounding is left. -/
theorem percentFilter_exact_partition (n : Nat) (p : Rat) (m m' m'' : Bool) (hp0 : 0 ≤ p) (hp1 : p ≤ 1)
    (fa tb : Option Rat) (hfa : fa = none ∨ fa = some 0) (htb : tb = none ∨ tb = some 1) :
    ∃ A B, percentFilter exactCutF exactCutC n fa (some p) m' m = .ok A ∧
           percentFilter exactCutF exactCutC n (some p) tb m m'' = .ok B ∧ A ++ B = List.range n ∧
           A = List.range ((if m then exactCutC else exactCutF) p n) ∧
           B = List.range' ((if m then exactCutC else exactCutF) p n) (n - (if m then exactCutC else exactCutF) p n) := by
  have hle : (if m then exactCutC else exactCutF) p n ≤ n := by
    cases m
    · exact c03x_cutF_le_n p n hp1
    · exact c03x_cutC_le_n p n hp1
  obtain ⟨A, B, hA, hB, hAB⟩ := percentFilter_partition exactCutF exactCutC n p m m' m'' hp0 hp1
    (c03x_cutF_zero n) (c03x_cutC_zero n) (c03x_cutF_one n) (c03x_cutC_one n) hle fa tb hfa htb
  refine ⟨A, B, hA, hB, hAB, ?_, ?_⟩
  · have hfa' : fa.getD 0 = 0 := by rcases hfa with h | h <;> simp [h]
    obtain ⟨a, b, ha, hb, _, _, hok, _⟩ := percentFilter_exact_interval n fa (some p) m' m
      (by rw [hfa']; exact ⟨Rat.le_refl, by decide⟩) ⟨hp0, hp1⟩
    rw [hok] at hA
    injection hA with hA
    have ha0 : a = 0 := by
      rw [ha, hfa']; cases m'
      · exact c03x_cutF_zero n
      · exact c03x_cutC_zero n
    rw [← hA, ha0, hb, Option.getD_some, Nat.sub_zero, List.range_eq_range']
  · have htb' : tb.getD 1 = 1 := by rcases htb with h | h <;> simp [h]
    obtain ⟨a, b, ha, hb, _, _, hok, _⟩ := percentFilter_exact_interval n (some p) tb m m''
      ⟨hp0, hp1⟩ (by rw [htb']; exact ⟨by decide, Rat.le_refl⟩)
    rw [hok] at hB
    injection hB with hB
    have hbn : b = n := by
      rw [hb, htb']; cases m''
      · exact c03x_cutF_one n
      · exact c03x_cutC_one n
    rw [← hB, ha, hbn, Option.getD_some]

/-- `n = 7`, `p = 1/3` (7/3 is not an integer): floor mode splits at 2, ceil mode at 3; each pair covers `0..6` -/
example : percentFilter exactCutF exactCutC 7 none (some (1/3)) false false = .ok [0, 1] ∧
    percentFilter exactCutF exactCutC 7 (some (1/3)) none false false = .ok [2, 3, 4, 5, 6] ∧
    percentFilter exactCutF exactCutC 7 none (some (1/3)) false true = .ok [0, 1, 2] ∧
    percentFilter exactCutF exactCutC 7 (some (1/3)) none true false = .ok [3, 4, 5, 6] := by decide +kernel

/-- the rounding mode at the shared bound must be the same on both sides: with floor on the "up to p" side and ceil
    on the "from p" side the sample `⌊p·n⌋` is lost whenever `p·n` is not an integer (here sample 2 of 7, `p = 1/3`) -/
example : percentFilter exactCutF exactCutC 7 none (some (1/3)) false false = .ok [0, 1] ∧
    percentFilter exactCutF exactCutC 7 (some (1/3)) none true false = .ok [3, 4, 5, 6] := by decide +kernel

/-- **adjacent percent ranges chain — real rounding rules**: for all `0 ≤ p ≤ q ≤ r ≤ 1` in `ℚ`, every `n` and either
    rounding mode, `[p,q]` followed by `[q,r]` is `[p,r]` (nothing lost or doubled at the shared bound) -/
theorem percentFilter_exact_chain (n : Nat) (p q r : Rat) (m : Bool)
    (hp0 : 0 ≤ p) (hpq : p ≤ q) (hqr : q ≤ r) (hr1 : r ≤ 1) :
    ∃ A B C, percentFilter exactCutF exactCutC n (some p) (some q) m m = .ok A ∧
             percentFilter exactCutF exactCutC n (some q) (some r) m m = .ok B ∧
             percentFilter exactCutF exactCutC n (some p) (some r) m m = .ok C ∧ A ++ B = C :=
  percentFilter_chain exactCutF exactCutC n p q r m hp0 hpq hqr hr1 (by
    intro x y hxy
    cases m
    · exact c03x_cutF_mono x y n hxy
    · exact c03x_cutC_mono x y n hxy)

example : percentFilter exactCutF exactCutC 10 (some (1/7)) (some (1/2)) true true = .ok [2, 3, 4] ∧
    percentFilter exactCutF exactCutC 10 (some (1/2)) (some (6/7)) true true = .ok [5, 6, 7, 8] ∧
    percentFilter exactCutF exactCutC 10 (some (1/7)) (some (6/7)) true true = .ok [2, 3, 4, 5, 6, 7, 8] := by
  decide +kernel

/-! ## subset wrapper: acceptance and exact intervals -/

/-- **acceptance of `SubsetWrapper(start_index=, end_index=)`**: with at least one index bound given and no percent
    bound, the constructor accepts iff `start ≤ min(end, n)` (`None` ↦ 0 resp. `n`); then the selection is exactly
    `start, …, min(end, n)-1` and both interval ends are `≤ n`; otherwise it raises the `AssertionError` -/
theorem subsetIndex_accepts_iff (cutF : Rat → Nat → Nat) (n : Nat) (si ei : Option Nat)
    (hgiven : (si.isSome || ei.isSome) = true) :
    (si.getD 0 ≤ min (ei.getD n) n →
      subsetRange cutF n si ei none none = .ok (List.range' (si.getD 0) (min (ei.getD n) n - si.getD 0)) ∧
      si.getD 0 ≤ n ∧ min (ei.getD n) n ≤ n) ∧
    (¬ si.getD 0 ≤ min (ei.getD n) n → subsetRange cutF n si ei none none = .error .assertion) := by
  unfold subsetRange
  simp only [hgiven, if_true, Option.isSome_none, Bool.or_self, Bool.false_eq_true, if_false, pyOrNat_zero]
  constructor
  · intro h
    rw [if_pos h]
    exact ⟨rfl, by omega, by omega⟩
  · intro h
    rw [if_neg h]

/-- the argument checks of `SubsetWrapper` (`indices=None`): index and percent bounds together raise the
    `AssertionError`, no bound at all raises `RuntimeError` -/
theorem subsetRange_rejects (cutF : Rat → Nat → Nat) (n : Nat) (si ei : Option Nat) (sp ep : Option Rat) :
    ((si.isSome || ei.isSome) = true → (sp.isSome || ep.isSome) = true →
      subsetRange cutF n si ei sp ep = .error .assertion) ∧
    (si = none → ei = none → sp = none → ep = none → subsetRange cutF n si ei sp ep = .error .runtime) := by
  constructor
  · intro h1 h2
    unfold subsetRange
    simp only [h1, h2, if_true]
  · intro h1 h2 h3 h4
    subst h1 h2 h3 h4
    rfl

/-- **acceptance and exact interval of `SubsetWrapper(start_percent=, end_percent=)`, real rounding rule**
    (`int(p * n)` = `⌊p·n⌋`, percentages exact rationals): with at least one percent bound given and no index bound,
    the constructor accepts iff both given bounds lie in `[0,1]` and `start ≤ end` (`None` ↦ 0 resp. 1); then the
    selection is the block `a, …, b-1` with `a = ⌊start·n⌋ ≤ b = ⌊end·n⌋ ≤ n`, and sample `i` is selected iff
    `start·n < i+1 ≤ end·n`; otherwise it raises the `AssertionError` -/
theorem subsetPercent_exact_spec (n : Nat) (sp ep : Option Rat) (hgiven : (sp.isSome || ep.isSome) = true) :
    ((∀ p, sp = some p → 0 ≤ p ∧ p ≤ 1) → (∀ p, ep = some p → 0 ≤ p ∧ p ≤ 1) → sp.getD 0 ≤ ep.getD 1 →
      ∃ a b, a = exactCutF (sp.getD 0) n ∧ b = exactCutF (ep.getD 1) n ∧ a ≤ b ∧ b ≤ n ∧
        subsetRange exactCutF n none none sp ep = .ok (List.range' a (b - a)) ∧
        ∀ i : Nat, i ∈ List.range' a (b - a) ↔ sp.getD 0 * n < (i : Rat) + 1 ∧ (i : Rat) + 1 ≤ ep.getD 1 * n) ∧
    (¬ ((∀ p, sp = some p → 0 ≤ p ∧ p ≤ 1) ∧ (∀ p, ep = some p → 0 ≤ p ∧ p ≤ 1) ∧ sp.getD 0 ≤ ep.getD 1) →
      subsetRange exactCutF n none none sp ep = .error .assertion) := by
  have hok : ∀ x : Option Rat, pctOk x = true ↔ ∀ p, x = some p → 0 ≤ p ∧ p ≤ 1 := by
    intro x
    cases x with
    | none => simp [pctOk]
    | some v => simp [pctOk]
  have hep1 : (∀ p, ep = some p → 0 ≤ p ∧ p ≤ 1) → ep.getD 1 ≤ 1 := by
    intro h
    cases ep with
    | none => exact Rat.le_refl
    | some v => exact (h v rfl).2
  unfold subsetRange
  simp only [Option.isSome_none, Bool.or_self, Bool.false_eq_true, if_false, hgiven, if_true, pyOrRat_zero]
  constructor
  · intro hs he hle
    rw [if_pos (by rw [Bool.and_eq_true]; exact ⟨(hok sp).2 hs, (hok ep).2 he⟩), if_pos hle]
    refine ⟨_, _, rfl, rfl, c03x_cutF_mono _ _ n hle, c03x_cutF_le_n _ n (hep1 he), rfl, ?_⟩
    intro i
    rw [show List.range' (exactCutF (sp.getD 0) n) (exactCutF (ep.getD 1) n - exactCutF (sp.getD 0) n)
        = arange (exactCutF (sp.getD 0) n) (exactCutF (ep.getD 1) n) from rfl, mem_arange,
      c03x_cutF_le_iff, c03x_lt_cutF_iff]
  · intro h
    by_cases hp : (pctOk sp && pctOk ep) = true
    · rw [if_pos hp]
      rw [Bool.and_eq_true] at hp
      rw [if_neg]
      intro hle
      exact h ⟨(hok sp).1 hp.1, (hok ep).1 hp.2, hle⟩
    · rw [if_neg hp]

example : subsetRange exactCutF 7 none none (some (1/3)) (some (5/6)) = .ok [2, 3, 4] ∧
    subsetRange exactCutF 7 none none (some (5/6)) (some (1/3)) = .error .assertion ∧
    subsetRange exactCutF 7 none none none (some (3/2)) = .error .assertion ∧
    subsetRange exactCutF 7 (some 2) (some 100) none none = .ok [2, 3, 4, 5, 6] ∧
    subsetRange exactCutF 7 (some 8) none none none = .error .assertion := by decide +kernel

/-- **complementary percent ranges of the subset wrapper partition the dataset — real rounding rule**, every `n`, every
    `p ∈ [0,1] ∩ ℚ` incl. 0, 1 and every `p` with `p·n` not an integer; the split point is `⌊p·n⌋` -/
theorem subsetPercent_exact_partition (n : Nat) (p : Rat) (hp0 : 0 ≤ p) (hp1 : p ≤ 1)
    (sa eb : Option Rat) (hsa : sa = none ∨ sa = some 0) (heb : eb = none ∨ eb = some 1) :
    ∃ A B, subsetRange exactCutF n none none sa (some p) = .ok A ∧
           subsetRange exactCutF n none none (some p) eb = .ok B ∧ A ++ B = List.range n :=
  subsetPercent_partition exactCutF n p hp0 hp1 (c03x_cutF_zero n) (c03x_cutF_one n) (c03x_cutF_le_n p n hp1) sa eb hsa heb

example : subsetRange exactCutF 7 none none none (some (1/3)) = .ok [0, 1] ∧
    subsetRange exactCutF 7 none none (some (1/3)) none = .ok [2, 3, 4, 5, 6] := by decide +kernel

/-! ## oversampling with unlabeled samples (label -1) -/

/-- **mode "exact", unlabeled samples treated explicitly.** What the real code does with label `-1`:
    `get_class_counts` drops the unlabeled samples before counting, and mode "exact" rebuilds the index list from the
    per-class loops `for i in range(len(class_counts))` only — so **unlabeled samples are dropped from the selection**
    ("keeps every sample" holds for the *labeled* samples only; mode "multiply" keeps the unlabeled ones once, see
    `oversampleMultiply_spec`). For every non-empty dataset whose labels are `-1` or lie in `[0, countsLen n_classes)`
    (`get_class_counts`' assert; `countsLen 1 = 2`) with at least one labeled sample, any classes absent:
    construction terminates (fuel = dataset size suffices), `mx` is the largest *labeled* class count, the selected
    samples are exactly the labeled ones (every labeled sample kept, no unlabeled, no foreign index), every present
    class has exactly `mx` entries, and the entries of a class are its samples round-robin in original order. -/
theorem oversampleExact_unlabeled_spec (fuel : Nat) (cls : List Int) (nc : Nat)
    (hdom : ∀ c ∈ cls, c = -1 ∨ (0 ≤ c ∧ c < (countsLen nc : Int))) (hlab : ∃ c ∈ cls, c ≠ -1)
    (hfuel : cls.length ≤ fuel) :
    ∃ res mx, oversample fuel cls nc .exact = .ok res ∧ 0 < mx ∧
      (∀ c : Int, c ≠ -1 → cls.count c ≤ mx) ∧ (∃ c : Nat, cls.count (c : Int) = mx) ∧
      (∀ i, i ∈ res ↔ ∃ c, cls[i]? = some c ∧ c ≠ -1) ∧
      res.countP (fun i => cls[i]? == some (-1)) = 0 ∧
      (∀ c : Nat, 0 < cls.count (c : Int) → res.countP (fun i => cls[i]? == some (c : Int)) = mx) ∧
      (∀ c : Nat, 0 < cls.count (c : Int) → ∀ k, k < mx →
        (res.filter (fun i => cls[i]? == some (c : Int)))[k]? = (whereEq cls (c : Int))[k % cls.count (c : Int)]?) := by
  have hc := classCounts_of_dom cls nc hdom
  generalize hcounts : (List.range (countsLen nc)).map (fun (i : Nat) => cls.count (i : Int)) = counts at hc
  obtain ⟨hl, hget, _⟩ := classCounts_ok cls nc counts hc
  obtain ⟨c1, hc1, hc1ne⟩ := hlab
  have hlen0 : cls.length ≠ 0 := by
    intro h0
    rw [List.eq_nil_of_length_eq_zero h0] at hc1
    cases hc1
  have hc1dom : 0 ≤ c1 ∧ c1 < (countsLen nc : Int) := by
    rcases hdom c1 hc1 with h | h
    · exact absurd h hc1ne
    · exact h
  have hlen : counts.length ≠ 0 := by omega
  obtain ⟨hmax, c0, hc0lt, hc0⟩ := mx_spec cls nc counts hc hlen
  have hmxpos : counts.foldl max 0 ≠ 0 := by
    have := hmax c1 hc1ne
    have := List.count_pos_iff.2 hc1
    omega
  have hmxle : counts.foldl max 0 ≤ fuel := by
    rw [← hc0]
    exact Nat.le_trans (List.count_le_length) hfuel
  have hgo := exactGo_eq fuel cls counts (counts.foldl max 0) hmxle (List.range counts.length)
    (fun i hi => hget i (by rw [← hl]; exact List.mem_range.1 hi))
  have hg : ∀ a, ∀ x ∈ exactBlock cls (counts.foldl max 0) a (counts.getD a 0), cls[x]? = some (a : Int) := by
    intro a x hx
    unfold exactBlock at hx
    split at hx
    · cases hx
    · exact (mem_whereEq cls a x).1 (mem_cycTake _ _ _ hx)
  have hfilter : ∀ c : Nat, 0 < cls.count (c : Int) →
      ((List.range counts.length).flatMap (fun i => exactBlock cls (counts.foldl max 0) i (counts.getD i 0))).filter
        (fun i => cls[i]? == some (c : Int)) = cycTake (whereEq cls (c : Int)) (counts.foldl max 0) := by
    intro c hpos
    have hmem : (c : Int) ∈ cls := List.count_pos_iff.1 hpos
    have hclt : c < counts.length := by
      rcases hdom _ hmem with h | h <;> omega
    rw [filter_blocks cls _ hg c _ List.nodup_range, if_pos (List.mem_range.2 hclt)]
    unfold exactBlock
    rw [hget c (by omega), if_neg (by omega)]
  refine ⟨(List.range counts.length).flatMap (fun i => exactBlock cls (counts.foldl max 0) i (counts.getD i 0)),
    counts.foldl max 0, ?_, by omega, hmax, ⟨c0, hc0⟩, ?_, ?_, ?_, ?_⟩
  · unfold oversample
    simp only [hlen0, if_false, hc, hlen, hmxpos]
    exact hgo
  · intro i
    constructor
    · intro hi
      rw [List.mem_flatMap] at hi
      obtain ⟨a, _, hx⟩ := hi
      exact ⟨(a : Int), hg a i hx, by omega⟩
    · rintro ⟨c, hci, hcne⟩
      have hcm : c ∈ cls := List.mem_of_getElem? hci
      have hcd : 0 ≤ c ∧ c < (countsLen nc : Int) := by
        rcases hdom c hcm with h | h
        · exact absurd h hcne
        · exact h
      rw [List.mem_flatMap]
      have hcast : ((c.toNat : Nat) : Int) = c := Int.toNat_of_nonneg hcd.1
      have hiw : i ∈ whereEq cls ((c.toNat : Nat) : Int) := by
        rw [mem_whereEq, hcast]; exact hci
      have hcnt : counts.getD c.toNat 0 = cls.count ((c.toNat : Nat) : Int) := hget _ (by omega)
      have hpos : 0 < (whereEq cls ((c.toNat : Nat) : Int)).length := List.length_pos_of_mem hiw
      refine ⟨c.toNat, List.mem_range.2 (by omega), ?_⟩
      unfold exactBlock
      rw [if_neg (by rw [hcnt, ← length_whereEq]; omega)]
      have hpre := prefix_cycTake (whereEq cls ((c.toNat : Nat) : Int)) (counts.foldl max 0) hpos
        (by rw [length_whereEq]; exact hmax _ (by omega))
      exact hpre.subset hiw
  · rw [List.countP_eq_length_filter, filter_blocks_none cls _ hg (-1) _ (fun a _ => by omega)]
    rfl
  · intro c hpos
    rw [List.countP_eq_length_filter, hfilter c hpos]
    exact length_cycTake _ _ (by rw [length_whereEq]; exact hpos)
  · intro c hpos k hk
    rw [hfilter c hpos, getElem?_cycTake _ (by rw [length_whereEq]; exact hpos) _ k hk, length_whereEq]

/-- non-vacuity and what it evaluates to: two unlabeled samples (positions 1 and 5) are dropped, class 1 is absent,
    classes 0 and 2 both reach `mx = 3` -/
example : oversample 7 [0, -1, 2, 0, 2, -1, 0] 3 .exact = .ok [0, 3, 6, 2, 4, 2] := by decide
example : (∀ c ∈ ([0, -1, 2, 0, 2, -1, 0] : List Int), c = -1 ∨ (0 ≤ c ∧ c < ((countsLen 3 : Nat) : Int))) ∧
    (∃ c ∈ ([0, -1, 2, 0, 2, -1, 0] : List Int), c ≠ -1) ∧ ([0, -1, 2, 0, 2, -1, 0] : List Int).length ≤ 7 := by decide

/-- **every other input of `OversamplingWrapper` is rejected, and how** (both modes unless said otherwise):
    an empty dataset raises `IndexError` (float `torch.tensor([])` used as index); a label other than `-1` outside
    `[0, countsLen n_classes)` raises the `AssertionError` of `get_class_counts`; a dataset of unlabeled samples only
    raises `RuntimeError` for `n_classes = 0` (`torch.max` of an empty tensor) and, in mode "exact" with
    `n_classes ≠ 0`, `ValueError` (`torch.concat([])`); an unknown mode raises `NotImplementedError`. Together with
    `oversampleExact_unlabeled_spec` / `oversampleMultiply_accepts` this decides acceptance for every input. -/
theorem oversample_rejects (fuel : Nat) (cls : List Int) (nc : Nat) (mode : OsMode) :
    (cls = [] → oversample fuel cls nc mode = .error .index) ∧
    (cls ≠ [] → (∃ c ∈ cls, c ≠ -1 ∧ ¬ (0 ≤ c ∧ c < (countsLen nc : Int))) →
      oversample fuel cls nc mode = .error .assertion) ∧
    (cls ≠ [] → (∀ c ∈ cls, c = -1) → nc = 0 → oversample fuel cls nc mode = .error .runtime) ∧
    (cls ≠ [] → (∀ c ∈ cls, c = -1) → nc ≠ 0 → oversample fuel cls nc .exact = .error .valueError) ∧
    (cls ≠ [] → (∀ c ∈ cls, c = -1 ∨ (0 ≤ c ∧ c < (countsLen nc : Int))) → ((∃ c ∈ cls, c ≠ -1) ∨ nc ≠ 0) →
      oversample fuel cls nc .other = .error .notImplemented) :=
  c03x_oversample_rejects fuel cls nc mode

example : oversample 9 [-1, -1] 3 .exact = .error .valueError ∧ oversample 9 [-1, -1] 0 .multiply = .error .runtime ∧
    oversample 9 [0, 5] 3 .exact = .error .assertion ∧ oversample 9 [] 3 .multiply = .error .index := by decide

/-- **mode "multiply" accepts** exactly the non-empty datasets whose labels are `-1` or in `[0, countsLen n_classes)`
    with `n_classes ≠ 0` (a dataset of unlabeled samples only is accepted and returned unchanged);
    `oversampleMultiply_spec` then describes the selection: every sample — labeled or not — is kept once as the
    prefix `0..n-1`, only labeled samples are duplicated -/
theorem oversampleMultiply_accepts (fuel : Nat) (cls : List Int) (nc : Nat) :
    (∃ res, oversample fuel cls nc .multiply = .ok res) ↔
      cls ≠ [] ∧ (∀ c ∈ cls, c = -1 ∨ (0 ≤ c ∧ c < (countsLen nc : Int))) ∧ nc ≠ 0 := by
  constructor
  · rintro ⟨res, h⟩
    have hr := c03x_oversample_rejects fuel cls nc .multiply
    have hne : cls ≠ [] := by
      intro h0; rw [hr.1 h0] at h; cases h
    have hdom : ∀ c ∈ cls, c = -1 ∨ (0 ≤ c ∧ c < (countsLen nc : Int)) := by
      intro c hc
      by_cases h1 : c = -1
      · exact Or.inl h1
      · by_cases h2 : 0 ≤ c ∧ c < (countsLen nc : Int)
        · exact Or.inr h2
        · rw [hr.2.1 hne ⟨c, hc, h1, h2⟩] at h; cases h
    refine ⟨hne, hdom, ?_⟩
    intro hnc
    have hall : ∀ c ∈ cls, c = -1 := by
      intro c hc
      rcases hdom c hc with h1 | ⟨h1, h2⟩
      · exact h1
      · rw [(c03x_countsLen_eq_zero nc).2 hnc] at h2; omega
    rw [hr.2.2.1 hne hall hnc] at h; cases h
  · rintro ⟨hne, hdom, hnc⟩
    have hc := classCounts_of_dom cls nc hdom
    have hlen0 : cls.length ≠ 0 := fun h0 => hne (List.eq_nil_of_length_eq_zero h0)
    have hl : countsLen nc ≠ 0 := fun h => hnc ((c03x_countsLen_eq_zero nc).1 h)
    unfold oversample
    rw [if_neg hlen0, hc]
    simp [hl]

example : oversample 0 [-1, -1, -1] 2 .multiply = .ok [0, 1, 2] := by decide

/-- acceptance of mode "exact" (fuel ≥ dataset size): exactly the non-empty datasets with all labels `-1` or in
    `[0, countsLen n_classes)` and at least one labeled sample -/
theorem oversampleExact_accepts_iff (fuel : Nat) (cls : List Int) (nc : Nat) (hfuel : cls.length ≤ fuel) :
    (∃ res, oversample fuel cls nc .exact = .ok res) ↔
      (∀ c ∈ cls, c = -1 ∨ (0 ≤ c ∧ c < (countsLen nc : Int))) ∧ ∃ c ∈ cls, c ≠ -1 := by
  constructor
  · rintro ⟨res, h⟩
    have hr := c03x_oversample_rejects fuel cls nc .exact
    have hne : cls ≠ [] := by
      intro h0; rw [hr.1 h0] at h; cases h
    have hdom : ∀ c ∈ cls, c = -1 ∨ (0 ≤ c ∧ c < (countsLen nc : Int)) := by
      intro c hc
      by_cases h1 : c = -1
      · exact Or.inl h1
      · by_cases h2 : 0 ≤ c ∧ c < (countsLen nc : Int)
        · exact Or.inr h2
        · rw [hr.2.1 hne ⟨c, hc, h1, h2⟩] at h; cases h
    refine ⟨hdom, ?_⟩
    apply Classical.byContradiction
    intro hno
    have hall : ∀ c ∈ cls, c = -1 := by
      intro c hc
      apply Classical.byContradiction
      intro hcn
      exact hno ⟨c, hc, hcn⟩
    by_cases hnc : nc = 0
    · rw [hr.2.2.1 hne hall hnc] at h; cases h
    · rw [hr.2.2.2.1 hne hall hnc] at h; cases h
  · rintro ⟨hdom, hlab⟩
    obtain ⟨res, _, h, _⟩ := oversampleExact_unlabeled_spec fuel cls nc hdom hlab hfuel
    exact ⟨res, h⟩

/-! ## sort by class / intra-class shuffle without the label-domain hypothesis -/

/-- **sort-by-class for arbitrary labels** (incl. unlabeled `-1` and labels `≥ n_classes`): the constructor never
    rejects; the selection has no repeated sample and contains exactly the samples whose label lies in
    `[0, n_classes)` — **unlabeled and out-of-range samples are silently dropped** (`for i in range(num_classes)` never
    visits them) — in the order of `sortByClass_sorted_stable`. Hence it is a permutation of the dataset iff every
    label lies in `[0, n_classes)`. -/
theorem sortByClass_any_labels (cls : List Int) (nc : Nat) :
    (sortByClass cls nc).Nodup ∧
    (∀ i, i ∈ sortByClass cls nc ↔ ∃ c, cls[i]? = some c ∧ 0 ≤ c ∧ c < (nc : Int)) ∧
    ((sortByClass cls nc).Perm (List.range cls.length) ↔ ∀ c ∈ cls, 0 ≤ c ∧ c < (nc : Int)) := by
  have hmem : ∀ i, i ∈ sortByClass cls nc ↔ ∃ c, cls[i]? = some c ∧ 0 ≤ c ∧ c < (nc : Int) := by
    intro i
    unfold sortByClass
    rw [List.mem_flatMap]
    constructor
    · rintro ⟨a, ha, hx⟩
      have := List.mem_range.1 ha
      exact ⟨(a : Int), (mem_whereEq cls a i).1 hx, by omega, by omega⟩
    · rintro ⟨c, hc, h0, h1⟩
      refine ⟨c.toNat, List.mem_range.2 (by omega), ?_⟩
      rw [mem_whereEq, Int.toNat_of_nonneg h0]
      exact hc
  refine ⟨nodup_blocks cls _ nc (fun a x hx => (mem_whereEq cls a x).1 hx) (fun a _ => whereEq_nodup cls a), hmem, ?_⟩
  constructor
  · intro hperm c hc
    obtain ⟨i, hi, hget⟩ := List.mem_iff_getElem.1 hc
    have : i ∈ sortByClass cls nc := (hperm.mem_iff).2 (List.mem_range.2 hi)
    obtain ⟨c', hc', h0, h1⟩ := (hmem i).1 this
    rw [List.getElem?_eq_getElem hi, hget] at hc'
    injection hc' with hc'
    subst hc'
    exact ⟨h0, h1⟩
  · exact sortByClass_perm cls nc

/-- two unlabeled samples and one label ≥ n_classes are dropped -/
example : sortByClass [2, -1, 0, 7, 2, -1, 0] 3 = [2, 6, 0, 4] := by decide

/-- **intra-class shuffle without a seed** (`seed=None`): `rng = GlobalRng` is the class object, which has no
    `permutation`, so the constructor raises `AttributeError` for every dataset with `n_classes > 0` (defect of the
    code, nothing is selected); for `n_classes = 0` the permutation loop is empty and the composing loop fails with
    `IndexError` on the first sample (an empty dataset gives the empty selection). The property's promise therefore
    holds for `IntraClassShuffleWrapper` only when a seed is given (`intraClassShuffle_perm_keeps_class_seq`). -/
theorem intraClassShuffle_unseeded (cls : List Int) (nc : Nat) (tape : List (List Nat)) :
    intraClassShuffle cls nc false tape =
      if nc = 0 then (if cls = [] then .ok [] else .error .index) else .error .attribute := by
  unfold intraClassShuffle
  simp only [Bool.not_false, if_true]
  by_cases hnc : nc = 0
  · rw [if_pos hnc, if_pos hnc]
    cases cls with
    | nil => rfl
    | cons c rest => simp [icsGo, c03x_pyGet_nil]
  · rw [if_neg hnc, if_neg hnc]

example : intraClassShuffle [1, 0, 1] 2 false [] = .error .attribute := by decide

/-- **intra-class shuffle with a seed, arbitrary labels** (one draw per class on the tape, no hypothesis on the
    labels or on the draws): the constructor either raises `IndexError` or accepts; if it accepts, the selection
    has one entry per sample, every label lies in `[-n_classes, n_classes)`, and the entry at a position of label `c`
    is a sample of class `c` if `c ≥ 0` but of class `n_classes + c` if `c < 0` — Python's negative indexing of
    `cls_to_perm[c]`: an **unlabeled sample (`-1`) is replaced by a sample of the last class**. Consequently a label
    `≥ n_classes` or `< -n_classes` always raises, and the class sequence is kept only if no label is negative. -/
theorem intraClassShuffle_seeded_any_labels (cls : List Int) (nc : Nat) (tape : List (List Nat))
    (hlen : tape.length = nc) :
    intraClassShuffle cls nc true tape = .error .index ∨
    ∃ res, intraClassShuffle cls nc true tape = .ok res ∧ res.length = cls.length ∧
      (∀ c ∈ cls, -(nc : Int) ≤ c ∧ c < (nc : Int)) ∧
      (∀ (j : Nat) (c : Int), cls[j]? = some c → ∃ v : Nat, res[j]? = some v ∧ cls[v]? = some (if 0 ≤ c then c else (nc : Int) + c)) ∧
      (res.map (fun i => cls[i]?) = cls.map some → ∀ c ∈ cls, 0 ≤ c ∧ c < (nc : Int)) := by
  have hdef : intraClassShuffle cls nc true tape = icsGo (clsToPerm cls nc tape) (fun _ => 0) cls := by
    unfold intraClassShuffle
    simp [hlen]
  rw [hdef]
  cases hgo : icsGo (clsToPerm cls nc tape) (fun _ => 0) cls with
  | error e => left; rw [c03x_icsGo_error _ _ _ _ hgo]
  | ok res =>
    right
    obtain ⟨hl, hget⟩ := c03x_icsGo_ok _ _ _ _ hgo
    have hentry : ∀ (j : Nat) (c : Int), cls[j]? = some c →
        (-(nc : Int) ≤ c ∧ c < (nc : Int)) ∧
        ∃ v : Nat, res[j]? = some v ∧ cls[v]? = some (if 0 ≤ c then c else (nc : Int) + c) := by
      intro j c hj
      obtain ⟨p, v, hp, hv, hr⟩ := hget j c hj
      obtain ⟨h1, h2, h3⟩ := c03x_pyGet_clsToPerm cls nc tape c p hp
      exact ⟨⟨h1, h2⟩, v, hr, h3 v (List.mem_of_getElem? hv)⟩
    have hdomw : ∀ c ∈ cls, -(nc : Int) ≤ c ∧ c < (nc : Int) := by
      intro c hc
      obtain ⟨j, hj, hjc⟩ := List.mem_iff_getElem.1 hc
      exact (hentry j c (by rw [List.getElem?_eq_getElem hj, hjc])).1
    refine ⟨res, rfl, hl, hdomw, fun j c hj => (hentry j c hj).2, ?_⟩
    intro hseq c hc
    obtain ⟨j, hj, hjc⟩ := List.mem_iff_getElem.1 hc
    have hjc' : cls[j]? = some c := by rw [List.getElem?_eq_getElem hj, hjc]
    obtain ⟨⟨h1, h2⟩, v, hv, hcv⟩ := hentry j c hjc'
    have := congrArg (fun l => l[j]?) hseq
    simp only [List.getElem?_map, hv, hjc', Option.map_some] at this
    rw [hcv] at this
    simp only [Option.some.injEq] at this
    by_cases h0 : 0 ≤ c
    · exact ⟨h0, h2⟩
    · rw [if_neg h0] at this
      omega

/-- the unlabeled sample at position 2 is replaced by a sample of the last class (class 1): sample 3 appears twice,
    sample 2 is lost; with two unlabeled samples but one sample in the last class the constructor raises -/
example : intraClassShuffle [1, 0, -1, 1, 0] 2 true [[1, 0], [1, 0]] = .ok [3, 4, 3, 0, 1] ∧
    intraClassShuffle [0, -1, -1, 1] 2 true [[0], [0]] = .error .index ∧
    intraClassShuffle [0, 2] 2 true [[0], []] = .error .index := by decide

/-- **intra-class shuffle keeps its promise iff the labels lie in `[0, n_classes)`**: for every tape satisfying the
    generator contract, the seeded constructor accepts with a permutation of the dataset that keeps the class seen
    at every position if and only if every label lies in `[0, n_classes)` -/
theorem intraClassShuffle_promise_iff (cls : List Int) (nc : Nat) (tape : List (List Nat)) (hlen : tape.length = nc)
    (htape : ∀ i, i < nc → (tape.getD i []).Perm (List.range (cls.count (i : Int)))) :
    (∃ res, intraClassShuffle cls nc true tape = .ok res ∧ res.Perm (List.range cls.length) ∧
      res.map (fun i => cls[i]?) = cls.map some) ↔ ∀ c ∈ cls, 0 ≤ c ∧ c < (nc : Int) := by
  constructor
  · rintro ⟨res, hok, _, hseq⟩
    rcases intraClassShuffle_seeded_any_labels cls nc tape hlen with herr | ⟨res', hok', _, _, _, himp⟩
    · rw [herr] at hok; cases hok
    · rw [hok'] at hok
      injection hok with hok
      subst hok
      exact himp hseq
  · intro hdom
    exact intraClassShuffle_perm_keeps_class_seq cls nc tape hdom hlen htape

/-! ## few-shot: acceptance, any `num_shots`, any labels -/

/-- **acceptance of `FewshotWrapper`**: an empty dataset raises `ValueError` (`np.max` of an empty array); every
    non-empty dataset is accepted (given one draw per class `< max+1` on the tape — the driver's input contract) -/
theorem fewshot_accepts_iff (cls : List Int) (shots : Int) (tape : List (List Nat))
    (hlen : tape.length = fewshotNumClasses cls) :
    ((∃ res, fewshot cls shots tape = .ok res) ↔ cls ≠ []) ∧ (cls = [] → fewshot cls shots tape = .error .valueError) := by
  constructor
  · constructor
    · rintro ⟨res, h⟩ h0
      subst h0
      simp [fewshot] at h
    · intro hne
      have hlen0 : cls.length ≠ 0 := fun h0 => hne (List.eq_nil_of_length_eq_zero h0)
      unfold fewshot
      simp only [hlen0, if_false, hlen, ne_eq, not_true_eq_false]
      exact ⟨_, rfl⟩
  · intro h0; subst h0; rfl

/-- **few-shot for every integer `num_shots` and arbitrary labels** (incl. unlabeled `-1`), every tape of per-class
    permutations, every non-empty dataset: the constructor accepts; the selection has no repeated sample, lists the
    classes in non-decreasing order, contains only samples with a label `≥ 0` (unlabeled samples are never selected)
    and of every class `c ≥ 0` exactly `min(shots, count c)` samples if `shots ≥ 0`, resp. `count c - |shots|`
    (truncated at 0) if `shots < 0` — Python's `perm[:num_shots]` with a negative bound drops the last `|shots|`
    entries. -/
theorem fewshot_any_shots_spec (cls : List Int) (shots : Int) (tape : List (List Nat)) (hne : cls ≠ [])
    (hlen : tape.length = fewshotNumClasses cls)
    (htape : ∀ i, i < fewshotNumClasses cls → (tape.getD i []).Perm (List.range (cls.count (i : Int)))) :
    ∃ res, fewshot cls shots tape = .ok res ∧ res.Nodup ∧
      res.Pairwise (fun i j => ∃ a b, cls[i]? = some a ∧ cls[j]? = some b ∧ a ≤ b) ∧
      (∀ i ∈ res, ∃ c : Nat, cls[i]? = some (c : Int)) ∧
      ∀ c : Nat, res.countP (fun i => cls[i]? == some (c : Int)) =
        if 0 ≤ shots then min shots.toNat (cls.count (c : Int)) else cls.count (c : Int) - (-shots).toNat := by
  have hlen0 : cls.length ≠ 0 := by
    intro h0; exact hne (List.eq_nil_of_length_eq_zero h0)
  have hslice : ∀ t : List Nat, pySliceTo t shots =
      t.take (if 0 ≤ shots then shots.toNat else t.length - (-shots).toNat) := by
    intro t; unfold pySliceTo; split <;> rfl
  have hg : ∀ a : Nat, ∀ x ∈ gather (whereEq cls (a : Int)) (pySliceTo (tape.getD a []) shots),
      cls[x]? = some (a : Int) := by
    intro a x hx
    exact (mem_whereEq cls a x).1 (mem_gather _ _ _ hx)
  refine ⟨(List.range (fewshotNumClasses cls)).flatMap (fun (i : Nat) =>
      gather (whereEq cls (i : Int)) (pySliceTo (tape.getD i []) shots)), ?_, ?_, ?_, ?_, ?_⟩
  · unfold fewshot
    simp only [hlen0, if_false, hlen, ne_eq, not_true_eq_false]
  · apply nodup_blocks cls _ _ hg
    intro a ha
    have hp := gather_perm (whereEq cls (a : Int)) (tape.getD a [])
      (by rw [length_whereEq]; exact htape a ha)
    have hnd : (gather (whereEq cls (a : Int)) (tape.getD a [])).Nodup :=
      (hp.nodup_iff).2 (whereEq_nodup cls a)
    refine List.Nodup.sublist (gather_sublist _ ?_) hnd
    rw [hslice]; exact List.take_sublist _ _
  · apply pairwise_blocks
    · intro a _
      apply List.pairwise_of_forall_mem_list
      intro x hx y hy
      exact ⟨a, a, hg a x hx, hg a y hy, Int.le_refl _⟩
    · intro a b hab _ x hx y hy
      exact ⟨a, b, hg a x hx, hg b y hy, by omega⟩
  · intro i hi
    rw [List.mem_flatMap] at hi
    obtain ⟨a, _, hx⟩ := hi
    exact ⟨a, hg a i hx⟩
  · intro c
    rw [List.countP_eq_length_filter, filter_blocks cls _ hg c _ List.nodup_range]
    by_cases hc : c < fewshotNumClasses cls
    · rw [if_pos (List.mem_range.2 hc), hslice]
      have hp := htape c hc
      have hlt : ∀ j ∈ (tape.getD c []).take (if 0 ≤ shots then shots.toNat else (tape.getD c []).length - (-shots).toNat),
          j < (whereEq cls (c : Int)).length := by
        intro j hj
        have := (hp.mem_iff).1 (List.mem_of_mem_take hj)
        rw [length_whereEq]; exact List.mem_range.1 this
      rw [length_gather _ _ hlt, List.length_take, hp.length_eq, List.length_range]
      split <;> omega
    · rw [if_neg (by rw [List.mem_range]; exact hc)]
      have : cls.count (c : Int) = 0 := by
        rw [List.count_eq_zero]
        intro hm; exact hc (lt_fewshotNumClasses cls c hm)
      rw [this]; simp

/-- `num_shots = -1` drops one sample per class; the unlabeled sample (position 2) is never selected -/
example : fewshot [1, 0, -1, 1, 1, 3] (-1) [[0], [2, 0, 1], [], [0]] = .ok [4, 0] ∧
    fewshot [1, 0, -1, 1, 1, 3] 2 [[0], [2, 0, 1], [], [0]] = .ok [1, 4, 0, 5] := by decide
example : ∀ i, i < fewshotNumClasses [1, 0, -1, 1, 1, 3] →
    (([[0], [2, 0, 1], [], [0]] : List (List Nat)).getD i []).Perm
      (List.range (([1, 0, -1, 1, 1, 3] : List Int).count (i : Int))) := by decide

/-! ## class-wise subset: acceptance, exact rounding -/

/-- **acceptance of `ClasswiseSubsetWrapper(start_index=, end_index=)`** (at least one index bound, no percent
    bound): the constructor accepts iff (1) every label is `-1` or lies in `[0, countsLen n_classes)`
    (`get_class_counts`' assert), (2) `start ≤ min(end, n)` (`None` ↦ 0 resp. `n`) and (3) with
    `check_enough_samples` every class `< n_classes` has at least `min(end, n)` samples; otherwise it raises the
    `AssertionError`. `classwiseSubset_index_spec` describes the accepted selection. -/
theorem classwiseSubset_index_accepts_iff (cutT : Rat → Nat → Nat) (cls : List Int) (nc : Nat) (si ei : Option Nat)
    (check : Bool) (hgiven : (si.isSome || ei.isSome) = true) :
    (((∀ c ∈ cls, c = -1 ∨ (0 ≤ c ∧ c < (countsLen nc : Int))) ∧
        si.getD 0 ≤ min (ei.getD cls.length) cls.length ∧
        (check = true → ∀ c : Nat, c < nc → min (ei.getD cls.length) cls.length ≤ cls.count (c : Int))) →
      ∃ res, classwiseSubset cutT cls nc si ei none none check = .ok res) ∧
    (¬ ((∀ c ∈ cls, c = -1 ∨ (0 ≤ c ∧ c < (countsLen nc : Int))) ∧
        si.getD 0 ≤ min (ei.getD cls.length) cls.length ∧
        (check = true → ∀ c : Nat, c < nc → min (ei.getD cls.length) cls.length ≤ cls.count (c : Int))) →
      classwiseSubset cutT cls nc si ei none none check = .error .assertion) :=
  ⟨fun h => c03x_classwise_index_accepts cutT cls nc si ei check hgiven h.1 h.2.1 h.2.2,
   c03x_classwise_index_rejects cutT cls nc si ei check hgiven⟩

/-- three samples per class requested, class 1 has two: rejected with the check, accepted (2 samples of class 1)
    without; the unlabeled sample (position 3) is in no class block -/
example : classwiseSubset exactCutF [0, 1, 0, -1, 0, 1] 2 none (some 3) none none true = .error .assertion ∧
    classwiseSubset exactCutF [0, 1, 0, -1, 0, 1] 2 none (some 3) none none false = .ok [0, 2, 4, 1, 5] ∧
    classwiseSubset exactCutF [0, 1, 0, 4, 0, 1] 2 none (some 1) none none false = .error .assertion := by decide +kernel

/-- **acceptance of `ClasswiseSubsetWrapper(start_percent=, end_percent=)`** (at least one percent bound, no index
    bound; any rounding function): the constructor accepts iff every label is `-1` or lies in
    `[0, countsLen n_classes)`, both given bounds lie in `[0,1]` and `start ≤ end` (`None` ↦ 0 resp. 1); otherwise it
    raises the `AssertionError` (`check_enough_samples` plays no role in percent mode) -/
theorem classwiseSubset_percent_accepts_iff (cutT : Rat → Nat → Nat) (cls : List Int) (nc : Nat) (sp ep : Option Rat)
    (check : Bool) (hgiven : (sp.isSome || ep.isSome) = true) :
    (((∀ c ∈ cls, c = -1 ∨ (0 ≤ c ∧ c < (countsLen nc : Int))) ∧
        (∀ p, sp = some p → 0 ≤ p ∧ p ≤ 1) ∧ (∀ p, ep = some p → 0 ≤ p ∧ p ≤ 1) ∧ sp.getD 0 ≤ ep.getD 1) →
      ∃ res, classwiseSubset cutT cls nc none none sp ep check = .ok res) ∧
    (¬ ((∀ c ∈ cls, c = -1 ∨ (0 ≤ c ∧ c < (countsLen nc : Int))) ∧
        (∀ p, sp = some p → 0 ≤ p ∧ p ≤ 1) ∧ (∀ p, ep = some p → 0 ≤ p ∧ p ≤ 1) ∧ sp.getD 0 ≤ ep.getD 1) →
      classwiseSubset cutT cls nc none none sp ep check = .error .assertion) :=
  ⟨fun h => ⟨_, c03x_classwise_percent_accepts cutT cls nc sp ep check hgiven h.1 h.2.1 h.2.2.1 h.2.2.2⟩,
   c03x_classwise_percent_rejects cutT cls nc sp ep check hgiven⟩

/-- **class-wise subset by percent, real rounding rule** (`int(p * counts[i])` = `⌊p·count⌋`, percentages exact
    rationals; NOTE the real code computes the product in float32): for every class layout with labels `-1` or in
    `[0, countsLen n_classes)`, all bounds in `[0,1] ∩ ℚ` with `start ≤ end` — exactly the accepted inputs — the
    selection lists the classes in order with original order inside a class, contains only samples with a label in
    `[0, n_classes)` (unlabeled samples are dropped), and the entries of every class `c < n_classes` with `k` samples
    are exactly the samples number `a … b-1` of that class, `a = ⌊start·k⌋ ≤ b = ⌊end·k⌋ ≤ k`: `b - a` of them. -/
theorem classwiseSubset_exact_percent_spec (cls : List Int) (nc : Nat) (sp ep : Option Rat) (check : Bool)
    (hgiven : (sp.isSome || ep.isSome) = true)
    (hdom : ∀ c ∈ cls, c = -1 ∨ (0 ≤ c ∧ c < (countsLen nc : Int)))
    (hs : ∀ p, sp = some p → 0 ≤ p ∧ p ≤ 1) (he : ∀ p, ep = some p → 0 ≤ p ∧ p ≤ 1) (hle : sp.getD 0 ≤ ep.getD 1) :
    ∃ res, classwiseSubset exactCutF cls nc none none sp ep check = .ok res ∧
      res.Pairwise (fun i j => ∃ a b, cls[i]? = some a ∧ cls[j]? = some b ∧ (a < b ∨ (a = b ∧ i < j))) ∧
      (∀ i ∈ res, ∃ c : Nat, c < nc ∧ cls[i]? = some (c : Int)) ∧
      ∀ c : Nat, c < nc → ∃ a b, a = exactCutF (sp.getD 0) (cls.count (c : Int)) ∧
        b = exactCutF (ep.getD 1) (cls.count (c : Int)) ∧ a ≤ b ∧ b ≤ cls.count (c : Int) ∧
        res.filter (fun i => cls[i]? == some (c : Int)) = ((whereEq cls (c : Int)).take b).drop a ∧
        res.countP (fun i => cls[i]? == some (c : Int)) = b - a := by
  have hok := c03x_classwise_percent_accepts exactCutF cls nc sp ep check hgiven hdom hs he hle
  obtain ⟨_, hsorted, hfil⟩ := classwiseSubset_percent_spec exactCutF cls nc sp ep check _ hgiven hok
  have hep1 : ep.getD 1 ≤ 1 := by
    cases ep with
    | none => exact Rat.le_refl
    | some v => exact (he v rfl).2
  refine ⟨_, hok, hsorted, ?_, ?_⟩
  · intro i hi
    rw [List.mem_flatMap] at hi
    obtain ⟨a, ha, hx⟩ := hi
    exact ⟨a, List.mem_range.1 ha, (mem_whereEq cls a i).1 ((pySlice_sublist _ _ _).subset hx)⟩
  · intro c hc
    have hb : exactCutF (ep.getD 1) (cls.count (c : Int)) ≤ cls.count (c : Int) := c03x_cutF_le_n _ _ hep1
    refine ⟨_, _, rfl, rfl, c03x_cutF_mono _ _ _ hle, hb, hfil c hc, ?_⟩
    rw [List.countP_eq_length_filter, hfil c hc, List.length_drop, List.length_take, length_whereEq,
      Nat.min_eq_left hb]

/-- class 0 has 5 samples, class 1 has 3; `[1/3, 5/6]`: class 0 keeps its samples number ⌊5/3⌋ = 1 … ⌊25/6⌋-1 = 3,
    class 1 its samples number ⌊1⌋ = 1 … ⌊5/2⌋-1 = 1; the unlabeled sample (position 2) is dropped -/
example : classwiseSubset exactCutF [0, 1, -1, 0, 0, 1, 0, 1, 0] 2 none none (some (1/3)) (some (5/6)) true
    = .ok [3, 4, 6, 5] := by decide +kernel

/-- **class-wise complementary percent ranges partition every class — real rounding rule, acceptance included**: for
    every class layout with labels `-1` or in `[0, countsLen n_classes)` and every `p ∈ [0,1] ∩ ℚ` (incl. 0, 1 and
    values with `p·count` not an integer) both halves are accepted and give, class by class (`c < n_classes`),
    all samples of the class in original order; the split point inside class `c` is `⌊p·count c⌋` -/
theorem classwiseSubset_exact_percent_partition (cls : List Int) (nc : Nat) (p : Rat) (sa eb : Option Rat)
    (check check' : Bool) (hdom : ∀ c ∈ cls, c = -1 ∨ (0 ≤ c ∧ c < (countsLen nc : Int)))
    (hp0 : 0 ≤ p) (hp1 : p ≤ 1) (hsa : sa = none ∨ sa = some 0) (heb : eb = none ∨ eb = some 1) :
    ∃ A B, classwiseSubset exactCutF cls nc none none sa (some p) check = .ok A ∧
      classwiseSubset exactCutF cls nc none none (some p) eb check' = .ok B ∧
      ∀ c : Nat, c < nc → A.filter (fun i => cls[i]? == some (c : Int)) ++ B.filter (fun i => cls[i]? == some (c : Int))
        = whereEq cls (c : Int) := by
  have h01 : (0 : Rat) ≤ 1 := by decide
  have hsa0 : sa.getD 0 = 0 := by rcases hsa with h | h <;> simp [h]
  have heb1 : eb.getD 1 = 1 := by rcases heb with h | h <;> simp [h]
  have hsaok : ∀ q, sa = some q → 0 ≤ q ∧ q ≤ 1 := by
    intro q hq
    rcases hsa with h | h
    · rw [h] at hq; cases hq
    · rw [h] at hq; injection hq with hq; subst hq; exact ⟨Rat.le_refl, h01⟩
  have hebok : ∀ q, eb = some q → 0 ≤ q ∧ q ≤ 1 := by
    intro q hq
    rcases heb with h | h
    · rw [h] at hq; cases hq
    · rw [h] at hq; injection hq with hq; subst hq; exact ⟨h01, Rat.le_refl⟩
  have hpok : ∀ q, some p = some q → 0 ≤ q ∧ q ≤ 1 := by
    intro q hq; injection hq with hq; subst hq; exact ⟨hp0, hp1⟩
  obtain ⟨A, hA, _, _, fA⟩ := classwiseSubset_exact_percent_spec cls nc sa (some p) check (by simp) hdom hsaok hpok
    (by rw [hsa0]; exact hp0)
  obtain ⟨B, hB, _, _, fB⟩ := classwiseSubset_exact_percent_spec cls nc (some p) eb check' (by simp) hdom hpok hebok
    (by rw [heb1]; exact hp1)
  refine ⟨A, B, hA, hB, ?_⟩
  intro c hc
  obtain ⟨a, b, ha, hb, _, _, hfA, _⟩ := fA c hc
  obtain ⟨a', b', ha', hb', _, _, hfB, _⟩ := fB c hc
  have hW : (whereEq cls (c : Int)).take (cls.count (c : Int)) = whereEq cls (c : Int) :=
    List.take_of_length_le (by rw [length_whereEq]; exact Nat.le_refl _)
  rw [hfA, hfB, ha, hb, ha', hb', hsa0, heb1]
  simp only [Option.getD_some]
  rw [c03x_cutF_zero, c03x_cutF_one, List.drop_zero, hW]
  exact List.take_append_drop _ _

example : classwiseSubset exactCutF [0, 1, -1, 0, 0, 1, 0, 1, 0] 2 none none none (some (1/3)) true = .ok [0, 1] ∧
    classwiseSubset exactCutF [0, 1, -1, 0, 0, 1, 0, 1, 0] 2 none none (some (1/3)) none true = .ok [3, 4, 6, 8, 5, 7] := by
  decide +kernel

/-! ## "the selection is a function of the constructor arguments and seed only" -/

/-- **the selection is a function of (class layout, constructor arguments, tape)** — the level at which the model can
    state the clause. Every wrapper of the model is a *pure* function whose only inputs are the class list `cls`
    (resp. the size `n`), the constructor arguments and, for the three seeded wrappers only, the tape of generator
    draws; so two runs with equal layout, equal arguments and equal tape select the same samples in the same order
    (and fail in the same way). In Lean this holds by construction (`congr`); its content is the *signature*: no
    wrapper reads anything else (no sample data, no global state, no call history), the seven unseeded wrappers take
    no tape at all, and the differential harness checks the real constructors against exactly these functions.
    The remaining link "seed ↦ tape" is not modelled; it is named as the contract `SeedContract` ("tape = f(seed)"),
    see `seeded_selection_is_function_of_seed`. -/
theorem selection_is_function_of_layout_arguments_tape :
    (∀ cls cls' v v' iv iv', cls = cls' → v = v' → iv = iv' → classFilter cls v iv = classFilter cls' v' iv') ∧
    (∀ cutF cutC n n' fp fp' tp tp' cf cf' ct ct', n = n' → fp = fp' → tp = tp' → cf = cf' → ct = ct' →
      percentFilter cutF cutC n fp tp cf ct = percentFilter cutF cutC n' fp' tp' cf' ct') ∧
    (∀ cutF n n' si si' ei ei' sp sp' ep ep', n = n' → si = si' → ei = ei' → sp = sp' → ep = ep' →
      subsetRange cutF n si ei sp ep = subsetRange cutF n' si' ei' sp' ep') ∧
    (∀ n n' idx idx' o o', n = n' → idx = idx' → o = o' → subsetExplicit n idx o = subsetExplicit n' idx' o') ∧
    (∀ n n' r r' m m', n = n' → r = r' → m = m' → repeatW n r m = repeatW n' r' m') ∧
    (∀ fuel cls cls' nc nc' mode mode', cls = cls' → nc = nc' → mode = mode' →
      oversample fuel cls nc mode = oversample fuel cls' nc' mode') ∧
    (∀ cls cls' nc nc', cls = cls' → nc = nc' → sortByClass cls nc = sortByClass cls' nc') ∧
    (∀ cutT cls cls' nc nc' si si' ei ei' sp sp' ep ep' ck ck', cls = cls' → nc = nc' → si = si' → ei = ei' →
      sp = sp' → ep = ep' → ck = ck' →
      classwiseSubset cutT cls nc si ei sp ep ck = classwiseSubset cutT cls' nc' si' ei' sp' ep' ck') ∧
    (∀ n n' tape tape', n = n' → tape = tape' → shuffle n tape = shuffle n' tape') ∧
    (∀ cls cls' shots shots' tape tape', cls = cls' → shots = shots' → tape = tape' →
      fewshot cls shots tape = fewshot cls' shots' tape') ∧
    (∀ cls cls' nc nc' sg sg' tape tape', cls = cls' → nc = nc' → sg = sg' → tape = tape' →
      intraClassShuffle cls nc sg tape = intraClassShuffle cls' nc' sg' tape') := by
  refine ⟨?_, ?_, ?_, ?_, ?_, ?_, ?_, ?_, ?_, ?_, ?_⟩ <;> (intros; subst_vars; rfl)

/-- the sequence of requests a seeded wrapper sends to the generator (how many permutations, over how many
    positions) is itself a function of the class layout and the arguments only — this is what makes
    "tape = f(seed)" well defined: few-shot asks for one permutation per class `< max+1` over that class' samples,
    intra-class shuffle one per class `< n_classes`, shuffle a single one over `n` positions -/
theorem seeded_requests_spec (cls : List Int) (nc : Nat) :
    (fewshotRequests cls).length = fewshotNumClasses cls ∧
    (∀ i, i < fewshotNumClasses cls → (fewshotRequests cls).getD i 0 = cls.count (i : Int)) ∧
    (icsRequests cls nc).length = nc ∧
    (∀ i, i < nc → (icsRequests cls nc).getD i 0 = cls.count (i : Int)) :=
  ⟨c03x_fewshotRequests_length cls, c03x_fewshotRequests_getD cls, c03x_icsRequests_length cls nc,
    c03x_icsRequests_getD cls nc⟩

/-- **under the contract "tape = f(seed)" the seeded selections are functions of (layout, arguments, seed) and keep
    their promises for every seed.** `G : SeedContract` is any deterministic generator (`G.draws seed sizes` = the
    permutations drawn for the successive requests; hypothesis of the contract: each is a permutation of the right
    size — `np.random.default_rng(seed)` is one such `G`). For every `G`, every seed and every class layout:
    * equal layout, arguments and seed give equal selections (all three wrappers);
    * `ShuffleWrapper(seed)` selects a permutation of the dataset;
    * `FewshotWrapper(num_shots=shots ≥ 0, seed)` on a non-empty dataset is accepted and selects, without repetition,
      exactly `min(shots, count c)` samples of every class `c`;
    * `IntraClassShuffleWrapper(seed)` with labels in `[0, n_classes)` is accepted and selects a permutation of the
      dataset that keeps the class at every position.
    (`ShuffleWrapper(seed=None)` draws from the global `np.random` state, which is outside this contract: its
    selection is a permutation — `shuffle_perm` — but not a function of the arguments.) -/
theorem seeded_selection_is_function_of_seed (G : SeedContract) :
    (∀ n n' seed seed', n = n' → seed = seed' → shuffleSeeded G n seed = shuffleSeeded G n' seed') ∧
    (∀ cls cls' shots shots' seed seed', cls = cls' → shots = shots' → seed = seed' →
      fewshotSeeded G cls shots seed = fewshotSeeded G cls' shots' seed') ∧
    (∀ cls cls' nc nc' seed seed', cls = cls' → nc = nc' → seed = seed' →
      intraClassShuffleSeeded G cls nc seed = intraClassShuffleSeeded G cls' nc' seed') ∧
    (∀ n seed, (shuffleSeeded G n seed).Perm (List.range n)) ∧
    (∀ cls (shots : Nat) seed, cls ≠ [] → ∃ res, fewshotSeeded G cls (shots : Int) seed = .ok res ∧ res.Nodup ∧
      ∀ c : Nat, res.countP (fun i => cls[i]? == some (c : Int)) = min shots (cls.count (c : Int))) ∧
    (∀ cls (nc : Nat) seed, (∀ c ∈ cls, 0 ≤ c ∧ c < (nc : Int)) →
      ∃ res, intraClassShuffleSeeded G cls nc seed = .ok res ∧ res.Perm (List.range cls.length) ∧
        res.map (fun i => cls[i]?) = cls.map some) := by
  refine ⟨?_, ?_, ?_, ?_, ?_, ?_⟩
  · intros; subst_vars; rfl
  · intros; subst_vars; rfl
  · intros; subst_vars; rfl
  · intro n seed
    unfold shuffleSeeded
    apply shuffle_perm
    have := G.perm_draws seed [n] 0 (by simp)
    simpa using this
  · intro cls shots seed hne
    unfold fewshotSeeded
    obtain ⟨res, h1, h2, _, h4⟩ := fewshot_spec cls shots (G.draws seed (fewshotRequests cls)) hne
      (by rw [G.length_draws, c03x_fewshotRequests_length])
      (by
        intro i hi
        have := G.perm_draws seed (fewshotRequests cls) i (by rw [c03x_fewshotRequests_length]; exact hi)
        rw [c03x_fewshotRequests_getD cls i hi] at this
        exact this)
    exact ⟨res, h1, h2, h4⟩
  · intro cls nc seed hdom
    unfold intraClassShuffleSeeded
    exact intraClassShuffle_perm_keeps_class_seq cls nc (G.draws seed (icsRequests cls nc)) hdom
      (by rw [G.length_draws, c03x_icsRequests_length])
      (by
        intro i hi
        have := G.perm_draws seed (icsRequests cls nc) i (by rw [c03x_icsRequests_length]; exact hi)
        rw [c03x_icsRequests_getD cls nc i hi] at this
        exact this)

/-- the contract is satisfiable (the identity generator), and what the seeded selections evaluate to under it -/
example : shuffleSeeded identityContract 4 17 = [0, 1, 2, 3] ∧
    fewshotSeeded identityContract [1, 0, 1, 1, 3] 2 17 = .ok [1, 0, 2, 4] ∧
    intraClassShuffleSeeded identityContract [1, 0, 1, 1, 0] 3 17 = .ok [0, 1, 2, 3, 4] := by decide

end KDVerif.C03
