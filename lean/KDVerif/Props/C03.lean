/-
C03 — each dataset-manipulation wrapper selects exactly the promised samples.

The functions of `KDVerif/Model/Selection.lean` mirror the constructors of the ten wrappers statement by statement
(tied to the code by the differential correspondence of `harness/kdv/selection.py`). The theorems below hold for
every class list `cls` (any length, any layout incl. absent classes), every constructor argument, every rounding
function satisfying the stated hypotheses and every tape satisfying the generator contract (a permutation).
`cls[i]? = some c` reads "sample `i` exists and has class `c`".
-/
import KDVerif.Lemmas.Selection
import KDVerif.Lemmas.SelectionBlocks

namespace KDVerif.C03
open KDVerif.Selection

/-! ## class filter -/

/-- `ClassFilterWrapper(valid_classes=valid)` is accepted and keeps exactly the samples whose class is listed,
    in their original (strictly increasing) order -/
theorem classFilter_valid_spec (cls valid : List Int) :
    ∃ res, classFilter cls (some valid) none = .ok res ∧ res.Pairwise (· < ·) ∧
      ∀ i, i ∈ res ↔ ∃ c, cls[i]? = some c ∧ c ∈ valid := by
  refine ⟨_, rfl, idxFrom_pairwise _ cls 0, ?_⟩
  intro i
  rw [mem_idxFrom]
  simp

/-- `ClassFilterWrapper(invalid_classes=invalid)` keeps exactly the samples whose class is *not* listed,
    in original order -/
theorem classFilter_invalid_spec (cls invalid : List Int) :
    ∃ res, classFilter cls none (some invalid) = .ok res ∧ res.Pairwise (· < ·) ∧
      ∀ i, i ∈ res ↔ ∃ c, cls[i]? = some c ∧ c ∉ invalid := by
  refine ⟨_, rfl, idxFrom_pairwise _ cls 0, ?_⟩
  intro i
  rw [mem_idxFrom]
  simp

/-- giving both lists or none is rejected (the constructor's assert) -/
theorem classFilter_rejects (cls : List Int) (valid invalid : Option (List Int))
    (h : valid.isSome = invalid.isSome) : classFilter cls valid invalid = .error .assertion := by
  cases valid <;> cases invalid <;> simp_all [classFilter]

example : classFilter [2, 0, 1, 2, 5] (some [2, 5]) none = .ok [0, 3, 4] := by decide
example : classFilter [2, 0, 1, 2, 5] none (some [2, 5]) = .ok [1, 2] := by decide

/-! ## percent filter -/

/-- every accepted percent filter is a block of consecutive sample numbers `a, a+1, …, b-1` -/
theorem percentFilter_contiguous (cutF cutC : Rat → Nat → Nat) (n : Nat) (fp tp : Option Rat) (cf ct : Bool)
    (res : List Nat) (h : percentFilter cutF cutC n fp tp cf ct = .ok res) :
    ∃ a b, res = List.range' a (b - a) := by
  unfold percentFilter at h
  dsimp only at h
  by_cases hg : 0 ≤ pyOrRat fp 0 ∧ pyOrRat fp 0 ≤ 1 ∧ 0 ≤ tp.getD 1 ∧ tp.getD 1 ≤ 1
  · rw [if_pos hg] at h; injection h with h; exact ⟨_, _, h.symm⟩
  · rw [if_neg hg] at h; cases h

/-- **complementary percent ranges partition the dataset**: for every `p ∈ [0,1]` — including 0 and 1 — and both
    rounding modes `m` (floor/floor or ceil/ceil at the shared bound), the range "up to p" (lower bound omitted or
    0.0) followed by the range "from p" (upper bound omitted or 1.0) is exactly `0, 1, …, n-1` -/
theorem percentFilter_partition (cutF cutC : Rat → Nat → Nat) (n : Nat) (p : Rat) (m m' m'' : Bool)
    (hp0 : 0 ≤ p) (hp1 : p ≤ 1)
    (hF0 : cutF 0 n = 0) (hC0 : cutC 0 n = 0) (hF1 : cutF 1 n = n) (hC1 : cutC 1 n = n)
    (hle : (if m then cutC else cutF) p n ≤ n)
    (fa tb : Option Rat) (hfa : fa = none ∨ fa = some 0) (htb : tb = none ∨ tb = some 1) :
    ∃ A B, percentFilter cutF cutC n fa (some p) m' m = .ok A ∧
           percentFilter cutF cutC n (some p) tb m m'' = .ok B ∧ A ++ B = List.range n := by
  have hfa' : pyOrRat fa 0 = 0 := by rcases hfa with h | h <;> simp [h, pyOrRat]
  have htb' : tb.getD 1 = 1 := by rcases htb with h | h <;> simp [h]
  have hpp : pyOrRat (some p) 0 = p := by
    by_cases h : p = 0 <;> simp [pyOrRat, h]
  have h01 : (0 : Rat) ≤ 1 := by decide
  have c0 : (if m' then cutC else cutF) 0 n = 0 := by cases m' <;> simp [hF0, hC0]
  have c1 : (if m'' then cutC else cutF) 1 n = n := by cases m'' <;> simp [hF1, hC1]
  refine ⟨arange 0 ((if m then cutC else cutF) p n), arange ((if m then cutC else cutF) p n) n, ?_, ?_, ?_⟩
  · unfold percentFilter
    simp only [hfa', Option.getD_some, c0]
    rw [if_pos ⟨Rat.le_refl, h01, hp0, hp1⟩]
  · unfold percentFilter
    simp only [hpp, htb', c1]
    rw [if_pos ⟨hp0, hp1, h01, Rat.le_refl⟩]
  · rw [arange_append 0 _ n (Nat.zero_le _) hle, arange_zero]

/-- adjacent percent ranges chain: for `0 ≤ p ≤ q ≤ r ≤ 1` and one rounding mode with a monotone rounding function,
    `[p,q]` followed by `[q,r]` is `[p,r]` (no sample lost or doubled at the shared bound) -/
theorem percentFilter_chain (cutF cutC : Rat → Nat → Nat) (n : Nat) (p q r : Rat) (m : Bool)
    (hp0 : 0 ≤ p) (hpq : p ≤ q) (hqr : q ≤ r) (hr1 : r ≤ 1)
    (hmono : ∀ x y : Rat, x ≤ y → (if m then cutC else cutF) x n ≤ (if m then cutC else cutF) y n) :
    ∃ A B C, percentFilter cutF cutC n (some p) (some q) m m = .ok A ∧
             percentFilter cutF cutC n (some q) (some r) m m = .ok B ∧
             percentFilter cutF cutC n (some p) (some r) m m = .ok C ∧ A ++ B = C := by
  have hor : ∀ x : Rat, pyOrRat (some x) 0 = x := by
    intro x; by_cases h : x = 0 <;> simp [pyOrRat, h]
  have hq0 : 0 ≤ q := Rat.le_trans hp0 hpq
  have hq1 : q ≤ 1 := Rat.le_trans hqr hr1
  have hr0 : 0 ≤ r := Rat.le_trans hq0 hqr
  have hp1 : p ≤ 1 := Rat.le_trans hpq hq1
  refine ⟨arange ((if m then cutC else cutF) p n) ((if m then cutC else cutF) q n),
    arange ((if m then cutC else cutF) q n) ((if m then cutC else cutF) r n),
    arange ((if m then cutC else cutF) p n) ((if m then cutC else cutF) r n), ?_, ?_, ?_, ?_⟩
  · unfold percentFilter
    simp only [hor, Option.getD_some]
    rw [if_pos ⟨hp0, hp1, hq0, hq1⟩]
  · unfold percentFilter
    simp only [hor, Option.getD_some]
    rw [if_pos ⟨hq0, hq1, hr0, hr1⟩]
  · unfold percentFilter
    simp only [hor, Option.getD_some]
    rw [if_pos ⟨hp0, hp1, hr0, hr1⟩]
  · exact arange_append _ _ _ (hmono p q hpq) (hmono q r hqr)

/-- non-vacuity of the rounding hypotheses: exact floor / ceil rounding satisfies them (here n = 7, p = 1/3) -/
example : let cutF : Rat → Nat → Nat := fun p n => (p * n).floor.toNat
          let cutC : Rat → Nat → Nat := fun p n => (p * n).ceil.toNat
          cutF 0 7 = 0 ∧ cutC 0 7 = 0 ∧ cutF 1 7 = 7 ∧ cutC 1 7 = 7 ∧ cutF (1/3) 7 ≤ 7 ∧ cutC (1/3) 7 ≤ 7 := by
  decide +kernel

/-- non-vacuity: exact floor rounding on 7 samples, split at p = 1/3 and at the end points 0 and 1 -/
example : percentFilter (fun p n => (p * n).floor.toNat) (fun p n => (p * n).ceil.toNat) 7 none (some (1/3)) false false
    = .ok [0, 1] := by decide +kernel
example : percentFilter (fun p n => (p * n).floor.toNat) (fun p n => (p * n).ceil.toNat) 7 (some (1/3)) none true false
    = .ok [3, 4, 5, 6] := by decide +kernel
example : percentFilter (fun p n => (p * n).floor.toNat) (fun p n => (p * n).ceil.toNat) 3 none (some 0) false false
    = .ok [] := by decide +kernel

/-! ## subset by index / by percent / by explicit list -/

/-- an accepted index subset is exactly the samples `start, …, min(end, n) - 1` (`None` ↦ 0 resp. `n`) -/
theorem subsetIndex_spec (cutF : Rat → Nat → Nat) (n : Nat) (si ei : Option Nat) (res : List Nat)
    (hgiven : (si.isSome || ei.isSome) = true)
    (h : subsetRange cutF n si ei none none = .ok res) :
    res = List.range' (si.getD 0) (min (ei.getD n) n - si.getD 0) ∧ si.getD 0 ≤ min (ei.getD n) n := by
  have hs : pyOrNat si 0 = si.getD 0 := by
    cases si with
    | none => rfl
    | some v => by_cases hv : v = 0 <;> simp [pyOrNat, hv]
  unfold subsetRange at h
  simp only [hgiven, if_true, Option.isSome_none, Bool.or_self, Bool.false_eq_true, if_false, hs] at h
  split at h
  · rename_i hle
    injection h with h
    exact ⟨h.symm, hle⟩
  · cases h

/-- **complementary index ranges partition the dataset**: for every split point `k ≤ n` — including 0 and n —
    `end_index=k` (start omitted or 0) followed by `start_index=k` (end omitted or ≥ n) is `0, …, n-1` -/
theorem subsetIndex_partition (cutF : Rat → Nat → Nat) (n k : Nat) (hk : k ≤ n)
    (sa eb : Option Nat) (hsa : sa = none ∨ sa = some 0) (heb : eb = none ∨ ∃ e, eb = some e ∧ n ≤ e) :
    ∃ A B, subsetRange cutF n sa (some k) none none = .ok A ∧
           subsetRange cutF n (some k) eb none none = .ok B ∧ A ++ B = List.range n := by
  have hsa' : pyOrNat sa 0 = 0 := by rcases hsa with h | h <;> simp [h, pyOrNat]
  have hk' : pyOrNat (some k) 0 = k := by by_cases h : k = 0 <;> simp [pyOrNat, h]
  have heb' : min (eb.getD n) n = n := by
    rcases heb with h | ⟨e, h, hn⟩
    · simp [h]
    · simp [h]; omega
  refine ⟨arange 0 k, arange k n, ?_, ?_, ?_⟩
  · unfold subsetRange
    simp [hsa', Nat.min_eq_left hk]
  · unfold subsetRange
    simp [hk', heb', hk]
  · rw [arange_append 0 k n (Nat.zero_le _) hk, arange_zero]

/-- **complementary percent ranges of the subset wrapper partition the dataset**, for every `p ∈ [0,1]` incl. 0 and 1 -/
theorem subsetPercent_partition (cutF : Rat → Nat → Nat) (n : Nat) (p : Rat) (hp0 : 0 ≤ p) (hp1 : p ≤ 1)
    (hF0 : cutF 0 n = 0) (hF1 : cutF 1 n = n) (hle : cutF p n ≤ n)
    (sa eb : Option Rat) (hsa : sa = none ∨ sa = some 0) (heb : eb = none ∨ eb = some 1) :
    ∃ A B, subsetRange cutF n none none sa (some p) = .ok A ∧
           subsetRange cutF n none none (some p) eb = .ok B ∧ A ++ B = List.range n := by
  have hsa' : pyOrRat sa 0 = 0 := by rcases hsa with h | h <;> simp [h, pyOrRat]
  have heb' : eb.getD 1 = 1 := by rcases heb with h | h <;> simp [h]
  have hpp : pyOrRat (some p) 0 = p := by by_cases h : p = 0 <;> simp [pyOrRat, h]
  have h01 : (0 : Rat) ≤ 1 := by decide
  have hsaok : pctOk sa = true := by rcases hsa with h | h <;> simp [h, pctOk, h01]
  have hebok : pctOk eb = true := by rcases heb with h | h <;> simp [h, pctOk, h01]
  have hpok : pctOk (some p) = true := by simp [pctOk, hp0, hp1]
  refine ⟨arange 0 (cutF p n), arange (cutF p n) n, ?_, ?_, ?_⟩
  · unfold subsetRange
    simp [hsa', hsaok, hpok, hp0, hF0]
  · unfold subsetRange
    simp [hpp, heb', hebok, hpok, hp1, hF1]
  · rw [arange_append 0 _ n (Nat.zero_le _) hle, arange_zero]

/-- every accepted percent subset is a block of consecutive sample numbers -/
theorem subsetRange_contiguous (cutF : Rat → Nat → Nat) (n : Nat) (si ei : Option Nat) (sp ep : Option Rat)
    (res : List Nat) (h : subsetRange cutF n si ei sp ep = .ok res) : ∃ a b, res = List.range' a (b - a) := by
  unfold subsetRange at h
  dsimp only at h
  repeat' split at h
  all_goals first
    | (cases h; exact ⟨_, _, rfl⟩)
    | cases h

/-- an explicit index list is accepted iff every entry lies in `[-n, n)`; it is kept as given and every entry
    addresses a sample of the dataset (negative entries count from the end) -/
theorem subsetExplicit_spec (n : Nat) (idx res : List Int) (h : subsetExplicit n idx false = .ok res) :
    res = idx ∧ ∀ i ∈ idx, pyIndex n i < n := by
  unfold subsetExplicit at h
  simp only [Bool.false_eq_true, if_false] at h
  split at h
  · rename_i hall
    injection h with h
    refine ⟨h.symm, ?_⟩
    intro i hi
    rw [List.all_eq_true] at hall
    have := hall i hi
    simp only [Bool.and_eq_true, decide_eq_true_eq] at this
    unfold pyIndex
    split <;> omega
  · cases h

example : subsetRange (fun p n => (p * n).floor.toNat) 5 none (some 0) none none = .ok [] := by decide +kernel
example : subsetRange (fun p n => (p * n).floor.toNat) 5 (some 0) none none none = .ok [0, 1, 2, 3, 4] := by decide +kernel
example : subsetRange (fun p n => (p * n).floor.toNat) 5 none none (some (1/2)) none = .ok [2, 3, 4] := by decide +kernel
example : subsetExplicit 4 [-1, 2, -4] false = .ok [-1, 2, -4] ∧ [-1, 2, -4].map (pyIndex 4) = [3, 2, 0] := by decide +kernel

/-! ## shuffle -/

/-- for every draw of the generator (a permutation of the positions) the shuffled selection is a permutation
    of the whole dataset: every sample exactly once -/
theorem shuffle_perm (n : Nat) (perm : List Nat) (h : perm.Perm (List.range n)) :
    (shuffle n perm).Perm (List.range n) := by
  unfold shuffle
  apply gather_perm
  simpa using h

example : shuffle 4 [2, 0, 3, 1] = [2, 0, 3, 1] := by decide

/-! ## repeat -/

/-- `RepeatWrapper(repetitions=r)`, `r > 0`, non-empty dataset: exactly `r` whole round-robin copies
    (`r·n` entries, the `k`-th one is sample `k mod n`) -/
theorem repeat_repetitions_spec (n r : Nat) (hn : 0 < n) (hr : 0 < r) :
    ∃ res, repeatW n (some (r : Int)) none = .ok res ∧ res.length = r * n ∧
      ∀ k, k < r * n → res[k]? = some (k % n) := by
  refine ⟨tile (List.range n) r, ?_, ?_, ?_⟩
  · unfold repeatW
    simp [Nat.ne_of_gt hn, Nat.ne_of_gt hr]
  · simp [length_tile]
  · intro k hk
    rw [getElem?_tile _ r k (by simpa using hk)]
    simp only [List.length_range]
    rw [List.getElem?_range (Nat.mod_lt _ hn)]

/-- `RepeatWrapper(min_size=m)`, `m > 0`, non-empty dataset: whole round-robin copies, and their number `r` is the
    least one reaching the requested size (`r·n ≥ m` but `(r-1)·n < m`) -/
theorem repeat_min_size_spec (n m : Nat) (hn : 0 < n) (hm : 0 < m) :
    ∃ r res, repeatW n none (some (m : Int)) = .ok res ∧ res.length = r * n ∧
      (∀ k, k < r * n → res[k]? = some (k % n)) ∧ m ≤ r * n ∧ (r - 1) * n < m := by
  refine ⟨(m + n - 1) / n, tile (List.range n) ((m + n - 1) / n), ?_, ?_, ?_, ?_, ?_⟩
  · unfold repeatW
    simp [Nat.ne_of_gt hn, Nat.ne_of_gt hm]
  · simp [length_tile]
  · intro k hk
    rw [getElem?_tile _ _ k (by simpa using hk)]
    simp only [List.length_range]
    rw [List.getElem?_range (Nat.mod_lt _ hn)]
  · have h2 : m + n - 1 < ((m + n - 1) / n + 1) * n := by
      have := Nat.lt_div_mul_add (a := m + n - 1) hn
      rw [Nat.add_mul]; omega
    rw [Nat.add_mul] at h2
    omega
  · have h1 : (m + n - 1) / n * n ≤ m + n - 1 := Nat.div_mul_le_self _ _
    have h3 : ((m + n - 1) / n - 1) * n = (m + n - 1) / n * n - 1 * n := Nat.sub_mul _ _ _
    omega

/-- the argument asserts: both / neither of `repetitions`, `min_size`, or an empty dataset, are rejected -/
theorem repeat_rejects (n : Nat) (reps minSize : Option Int)
    (h : reps.isSome = minSize.isSome ∨ n = 0) : repeatW n reps minSize = .error .assertion := by
  unfold repeatW
  rcases h with h | h
  · simp [h]
  · by_cases h' : reps.isSome = minSize.isSome <;> simp [h, h']

example : repeatW 3 none (some 7) = .ok [0, 1, 2, 0, 1, 2, 0, 1, 2] := by decide
example : repeatW 3 (some 2) none = .ok [0, 1, 2, 0, 1, 2] := by decide

/-! ## sort by class -/

/-- sort-by-class lists the samples with non-decreasing class, and samples of equal class keep their original
    (increasing) order: for entries `i` before `j`, `class i < class j`, or the classes are equal and `i < j` -/
theorem sortByClass_sorted_stable (cls : List Int) (nc : Nat) :
    (sortByClass cls nc).Pairwise
      (fun i j => ∃ a b, cls[i]? = some a ∧ cls[j]? = some b ∧ (a < b ∨ (a = b ∧ i < j))) :=
  sorted_blocks cls _ nc (fun a x hx => (mem_whereEq cls a x).1 hx) (fun a _ => whereEq_pairwise cls a)

/-- when every label lies in `[0, n_classes)`, sort-by-class is a permutation of the dataset
    (every sample exactly once), whatever classes are absent -/
theorem sortByClass_perm (cls : List Int) (nc : Nat) (hdom : ∀ c ∈ cls, 0 ≤ c ∧ c < (nc : Int)) :
    (sortByClass cls nc).Perm (List.range cls.length) := by
  apply perm_range_of_nodup_mem
  · exact nodup_blocks cls _ nc (fun a x hx => (mem_whereEq cls a x).1 hx) (fun a _ => whereEq_nodup cls a)
  · intro i
    unfold sortByClass
    rw [List.mem_flatMap]
    constructor
    · rintro ⟨a, _, hx⟩
      exact whereEq_lt cls a i hx
    · intro hi
      obtain ⟨h0, h1⟩ := hdom cls[i] (List.getElem_mem hi)
      refine ⟨cls[i].toNat, List.mem_range.2 (by omega), ?_⟩
      rw [mem_whereEq, Int.toNat_of_nonneg h0]
      exact List.getElem?_eq_getElem hi

example : sortByClass [2, 0, 2, 1, 0] 4 = [1, 4, 3, 0, 2] := by decide
/-- non-vacuity of the hypothesis: labels 0..2 with `n_classes = 4` (class 3 absent) -/
example : (sortByClass [2, 0, 2, 1, 0] 4).Perm (List.range 5) := sortByClass_perm _ _ (by decide)

/-! ## oversampling -/

/-- mode "multiply": whenever the constructor accepts, with `mx` the largest labeled class count,
    (1) the original samples are kept as a prefix `0, …, n-1`, (2) every present class `c` ends up with
    `count c · ⌊mx / count c⌋` entries (more than half of `mx`, at most `mx`), (3) unlabeled samples (-1) are not
    duplicated -/
theorem oversampleMultiply_spec (fuel : Nat) (cls : List Int) (nc : Nat) (res : List Nat)
    (h : oversample fuel cls nc .multiply = .ok res) :
    ∃ mx, (∀ c : Int, c ≠ -1 → cls.count c ≤ mx) ∧ (∃ c : Nat, cls.count (c : Int) = mx) ∧
      List.range cls.length <+: res ∧
      (∀ c : Nat, 0 < cls.count (c : Int) →
        res.countP (fun i => cls[i]? == some (c : Int)) = cls.count (c : Int) * (mx / cls.count (c : Int))) ∧
      res.countP (fun i => cls[i]? == some (-1)) = cls.count (-1) := by
  unfold oversample at h
  split at h
  · cases h
  · split at h
    · cases h
    · rename_i counts hc
      split at h
      · cases h
      · rename_i hlen
        simp only at h
        injection h with h
        obtain ⟨hl, hget, hdom⟩ := classCounts_ok cls nc counts hc
        obtain ⟨hmax, c0, _, hc0⟩ := mx_spec cls nc counts hc hlen
        refine ⟨counts.foldl max 0, hmax, ⟨c0, hc0⟩, ?_, ?_, ?_⟩
        · rw [← h]; exact List.prefix_append _ _
        · intro c hpos
          have hmem : (c : Int) ∈ cls := List.count_pos_iff.1 hpos
          have hclt : c < counts.length := by
            rcases hdom _ hmem with h' | ⟨_, h'⟩ <;> omega
          have hg : ∀ a, ∀ x ∈ multiplyExtra cls (counts.foldl max 0) a (counts.getD a 0), cls[x]? = some (a : Int) :=
            fun a x hx => mem_multiplyExtra cls _ a _ x hx
          rw [← h]
          unfold oversampleMultiply
          rw [List.countP_append, countP_range_cls, List.countP_eq_length_filter,
            filter_blocks cls _ hg c _ List.nodup_range, if_pos (List.mem_range.2 hclt)]
          rw [hget c (by omega)]
          have hne : cls.count (c : Int) ≠ 0 := by omega
          have hle := hmax (c : Int) (by omega)
          have hq : 0 < counts.foldl max 0 / cls.count (c : Int) := Nat.div_pos hle hpos
          rw [length_multiplyExtra cls _ c _ hne]
          generalize counts.foldl max 0 / cls.count (c : Int) = q at hq
          have hsub : (q - 1) * cls.count (c : Int) = q * cls.count (c : Int) - 1 * cls.count (c : Int) :=
            Nat.sub_mul _ _ _
          have hqle : 1 * cls.count (c : Int) ≤ q * cls.count (c : Int) := Nat.mul_le_mul_right _ hq
          rw [Nat.mul_comm (cls.count (c : Int)) q]
          omega
        · have hg : ∀ a, ∀ x ∈ multiplyExtra cls (counts.foldl max 0) a (counts.getD a 0), cls[x]? = some (a : Int) :=
            fun a x hx => mem_multiplyExtra cls _ a _ x hx
          rw [← h]
          unfold oversampleMultiply
          rw [List.countP_append, countP_range_cls, List.countP_eq_length_filter,
            filter_blocks_none cls _ hg (-1) _ (fun a _ => by omega)]
          simp

example : oversample 0 [0, 0, 0, 0, 1, 1, -1, 3] 4 .multiply = .ok [0, 1, 2, 3, 4, 5, 6, 7, 4, 5, 7, 7, 7] := by decide

/-- **the literal `while` loop of mode "exact" terminates**: for a class with at least one sample, a fuel of
    `remaining` iterations suffices, and the loop yields the class' samples round-robin until `remaining` entries
    are reached (entry `k` is the `(k mod count)`-th sample of the class) -/
theorem exactLoop_terminates_round_robin (idxs : List Nat) (hpos : 0 < idxs.length) (fuel rem : Nat) (hf : rem ≤ fuel) :
    ∃ r, exactLoop fuel idxs rem [] = .ok r ∧ r.length = rem ∧ ∀ k, k < rem → r[k]? = idxs[k % idxs.length]? := by
  refine ⟨cycTake idxs rem, ?_, length_cycTake idxs rem hpos, getElem?_cycTake idxs hpos rem⟩
  rw [exactLoop_eq idxs hpos fuel rem [] hf]; rfl

/-- why classes without samples must be skipped (defect F04 of the unrepaired code): on an empty class the same loop
    makes no progress — it runs out of every fuel -/
theorem exactLoop_diverges_on_empty_class (fuel rem : Nat) (acc : List Nat) (h : 0 < rem) :
    exactLoop fuel [] rem acc = .error .outOfFuel :=
  exactLoop_diverges [] rfl fuel rem acc h

/-- mode "exact" on a non-empty dataset whose labels lie in `[0, n_classes)` — any classes may be absent:
    construction terminates (a fuel of the dataset size suffices for every class' loop), every sample is kept,
    no foreign index appears, and every present class ends up with exactly `mx` entries, `mx` being the largest
    class count -/
theorem oversampleExact_terminates_and_balances (fuel : Nat) (cls : List Int) (nc : Nat) (hne : cls ≠ [])
    (hdom : ∀ c ∈ cls, 0 ≤ c ∧ c < (nc : Int)) (hfuel : cls.length ≤ fuel) :
    ∃ res mx, oversample fuel cls nc .exact = .ok res ∧
      (∀ c : Int, cls.count c ≤ mx) ∧ (∃ c : Nat, cls.count (c : Int) = mx) ∧
      (∀ i, i < cls.length → i ∈ res) ∧ (∀ i ∈ res, i < cls.length) ∧
      (∀ c : Nat, 0 < cls.count (c : Int) → res.countP (fun i => cls[i]? == some (c : Int)) = mx) := by
  have hcl := le_countsLen nc
  have hdom' : ∀ c ∈ cls, c = -1 ∨ (0 ≤ c ∧ c < (countsLen nc : Int)) := by
    intro c hc; right; have := hdom c hc; omega
  have hc := classCounts_of_dom cls nc hdom'
  generalize hcounts : (List.range (countsLen nc)).map (fun (i : Nat) => cls.count (i : Int)) = counts at hc
  obtain ⟨hl, hget, _⟩ := classCounts_ok cls nc counts hc
  have hlen0 : cls.length ≠ 0 := by
    intro h0; exact hne (List.eq_nil_of_length_eq_zero h0)
  obtain ⟨c1, hc1⟩ := List.exists_mem_of_ne_nil cls hne
  have hnc : 0 < nc := by have := hdom c1 hc1; omega
  have hlen : counts.length ≠ 0 := by omega
  obtain ⟨hmax, c0, hc0lt, hc0⟩ := mx_spec cls nc counts hc hlen
  have hmaxall : ∀ c : Int, cls.count c ≤ counts.foldl max 0 := by
    intro c
    by_cases hm : c ∈ cls
    · exact hmax c (by have := hdom c hm; omega)
    · rw [List.count_eq_zero.2 hm]; exact Nat.zero_le _
  have hmxpos : counts.foldl max 0 ≠ 0 := by
    have := hmaxall c1
    have := List.count_pos_iff.2 hc1
    omega
  have hmxle : counts.foldl max 0 ≤ fuel := by
    rw [← hc0]
    exact Nat.le_trans (List.count_le_length) hfuel
  have hgo := exactGo_eq fuel cls counts (counts.foldl max 0) hmxle (List.range counts.length)
    (fun i hi => hget i (by rw [← hl]; exact List.mem_range.1 hi))
  have hg : ∀ a, ∀ x ∈ exactBlock cls (counts.foldl max 0) a (counts.getD a 0), cls[x]? = some (a : Int) := by
    intro a x hx
    unfold exactBlock at hx
    split at hx
    · cases hx
    · exact (mem_whereEq cls a x).1 (mem_cycTake _ _ _ hx)
  refine ⟨(List.range counts.length).flatMap (fun i => exactBlock cls (counts.foldl max 0) i (counts.getD i 0)),
    counts.foldl max 0, ?_, hmaxall, ⟨c0, hc0⟩, ?_, ?_, ?_⟩
  · unfold oversample
    simp only [hlen0, if_false, hc, hlen, hmxpos]
    exact hgo
  · intro i hi
    obtain ⟨h0, h1⟩ := hdom cls[i] (List.getElem_mem hi)
    rw [List.mem_flatMap]
    have hcast : ((cls[i].toNat : Nat) : Int) = cls[i] := Int.toNat_of_nonneg h0
    have hiw : i ∈ whereEq cls ((cls[i].toNat : Nat) : Int) := by
      rw [mem_whereEq, hcast]; exact List.getElem?_eq_getElem hi
    have hcnt : counts.getD cls[i].toNat 0 = cls.count ((cls[i].toNat : Nat) : Int) := hget _ (by omega)
    have hpos : 0 < (whereEq cls ((cls[i].toNat : Nat) : Int)).length := List.length_pos_of_mem hiw
    refine ⟨cls[i].toNat, List.mem_range.2 (by omega), ?_⟩
    unfold exactBlock
    rw [if_neg (by rw [hcnt, ← length_whereEq]; omega)]
    have hpre := prefix_cycTake (whereEq cls ((cls[i].toNat : Nat) : Int)) (counts.foldl max 0) hpos
      (by rw [length_whereEq]; exact hmaxall _)
    exact hpre.subset hiw
  · intro i hi
    rw [List.mem_flatMap] at hi
    obtain ⟨a, _, hx⟩ := hi
    have := hg a i hx
    exact (List.getElem?_eq_some_iff.1 this).1
  · intro c hpos
    have hmem : (c : Int) ∈ cls := List.count_pos_iff.1 hpos
    have hclt : c < counts.length := by have := hdom _ hmem; omega
    rw [List.countP_eq_length_filter, filter_blocks cls _ hg c _ List.nodup_range,
      if_pos (List.mem_range.2 hclt)]
    unfold exactBlock
    rw [hget c (by omega), if_neg (by omega)]
    exact length_cycTake _ _ (by rw [length_whereEq]; exact hpos)

/-- non-vacuity: class 1 absent, class 3 absent at the end; the hypotheses of the theorem hold for this input -/
example : oversample 5 [0, 0, 2, 0, 2] 4 .exact = .ok [0, 1, 3, 2, 4, 2] := by decide
example : ([0, 0, 2, 0, 2] : List Int) ≠ [] ∧ (∀ c ∈ ([0, 0, 2, 0, 2] : List Int), 0 ≤ c ∧ c < ((4 : Nat) : Int)) ∧
    ([0, 0, 2, 0, 2] : List Int).length ≤ 5 := by decide

/-! ## few-shot -/

/-- few-shot with `shots ≥ 0` on a non-empty dataset, for every tape of per-class permutations: the selection has no
    repeated sample, lists the classes in non-decreasing order, and contains exactly `min(shots, count c)` samples
    of every class `c` (hence none of an absent class) -/
theorem fewshot_spec (cls : List Int) (shots : Nat) (tape : List (List Nat)) (hne : cls ≠ [])
    (hlen : tape.length = fewshotNumClasses cls)
    (htape : ∀ i, i < fewshotNumClasses cls → (tape.getD i []).Perm (List.range (cls.count (i : Int)))) :
    ∃ res, fewshot cls (shots : Int) tape = .ok res ∧ res.Nodup ∧
      res.Pairwise (fun i j => ∃ a b, cls[i]? = some a ∧ cls[j]? = some b ∧ a ≤ b) ∧
      ∀ c : Nat, res.countP (fun i => cls[i]? == some (c : Int)) = min shots (cls.count (c : Int)) := by
  have hlen0 : cls.length ≠ 0 := by
    intro h0; exact hne (List.eq_nil_of_length_eq_zero h0)
  have hslice : ∀ t : List Nat, pySliceTo t (shots : Int) = t.take shots := by
    intro t; unfold pySliceTo; simp
  have hg : ∀ a : Nat, ∀ x ∈ gather (whereEq cls (a : Int)) (pySliceTo (tape.getD a []) (shots : Int)),
      cls[x]? = some (a : Int) := by
    intro a x hx
    exact (mem_whereEq cls a x).1 (mem_gather _ _ _ hx)
  refine ⟨(List.range (fewshotNumClasses cls)).flatMap (fun (i : Nat) =>
      gather (whereEq cls (i : Int)) (pySliceTo (tape.getD i []) (shots : Int))), ?_, ?_, ?_, ?_⟩
  · unfold fewshot
    simp only [hlen0, if_false, hlen, ne_eq, not_true_eq_false]
  · apply nodup_blocks cls _ _ hg
    intro a ha
    have hp := gather_perm (whereEq cls (a : Int)) (tape.getD a [])
      (by rw [length_whereEq]; exact htape a ha)
    have hnd : (gather (whereEq cls (a : Int)) (tape.getD a [])).Nodup :=
      (hp.nodup_iff).2 (whereEq_nodup cls a)
    refine List.Nodup.sublist (gather_sublist _ ?_) hnd
    rw [hslice]; exact List.take_sublist _ _
  · apply pairwise_blocks
    · intro a _
      apply List.pairwise_of_forall_mem_list
      intro x hx y hy
      exact ⟨a, a, hg a x hx, hg a y hy, Int.le_refl _⟩
    · intro a b hab _ x hx y hy
      exact ⟨a, b, hg a x hx, hg b y hy, by omega⟩
  · intro c
    rw [List.countP_eq_length_filter, filter_blocks cls _ hg c _ List.nodup_range]
    by_cases hc : c < fewshotNumClasses cls
    · rw [if_pos (List.mem_range.2 hc), hslice]
      have hp := htape c hc
      have hlt : ∀ j ∈ (tape.getD c []).take shots, j < (whereEq cls (c : Int)).length := by
        intro j hj
        have := (hp.mem_iff).1 (List.mem_of_mem_take hj)
        rw [length_whereEq]; exact List.mem_range.1 this
      rw [length_gather _ _ hlt, List.length_take, hp.length_eq, List.length_range]
    · rw [if_neg (by rw [List.mem_range]; exact hc)]
      have : cls.count (c : Int) = 0 := by
        rw [List.count_eq_zero]
        intro hm; exact hc (lt_fewshotNumClasses cls c hm)
      rw [this]; simp

example : fewshot [1, 0, 1, 1, 3] 2 [[0], [2, 0, 1], [], [0]] = .ok [1, 3, 0, 4] := by decide
/-- non-vacuity: this tape satisfies the generator contract for the class list (class 2 absent) -/
example : ∀ i, i < fewshotNumClasses [1, 0, 1, 1, 3] →
    (([[0], [2, 0, 1], [], [0]] : List (List Nat)).getD i []).Perm (List.range (([1, 0, 1, 1, 3] : List Int).count (i : Int))) := by
  decide

/-! ## intra-class shuffle -/

/-- intra-class shuffle with a seed, labels in `[0, n_classes)`, for every tape of per-class permutations:
    construction succeeds, the selection is a permutation of the dataset (every sample exactly once) and the
    class seen at every position is unchanged (`class of res[j] = class of j`) -/
theorem intraClassShuffle_perm_keeps_class_seq (cls : List Int) (nc : Nat) (tape : List (List Nat))
    (hdom : ∀ c ∈ cls, 0 ≤ c ∧ c < (nc : Int)) (hlen : tape.length = nc)
    (htape : ∀ i, i < nc → (tape.getD i []).Perm (List.range (cls.count (i : Int)))) :
    ∃ res, intraClassShuffle cls nc true tape = .ok res ∧ res.Perm (List.range cls.length) ∧
      res.map (fun i => cls[i]?) = cls.map some := by
  -- the permuted index list of every class
  have hctplen : (clsToPerm cls nc tape).length = nc := by simp [clsToPerm]
  have hP : ∀ i, i < nc → (clsToPerm cls nc tape).getD i [] = gather (whereEq cls (i : Int)) (tape.getD i []) := by
    intro i hi
    unfold clsToPerm
    rw [List.getD_eq_getElem?_getD, List.getElem?_map, List.getElem?_range hi]
    rfl
  have hPperm : ∀ i, i < nc → ((clsToPerm cls nc tape).getD i []).Perm (whereEq cls (i : Int)) := by
    intro i hi
    rw [hP i hi]
    exact gather_perm _ _ (by rw [length_whereEq]; exact htape i hi)
  have hcast : ∀ c ∈ cls, ((c.toNat : Nat) : Int) = c := fun c hc => Int.toNat_of_nonneg (hdom c hc).1
  have htoNat : ∀ c ∈ cls, c.toNat < nc := fun c hc => by have := hdom c hc; omega
  obtain ⟨res, hres, hreslen, hresget⟩ := icsGo_spec (clsToPerm cls nc tape) cls (fun _ => 0)
    (fun c hc => ⟨(hdom c hc).1, by rw [hctplen]; exact htoNat c hc⟩)
    (fun c hc => by
      rw [(hPperm c.toNat (htoNat c hc)).length_eq, length_whereEq, hcast c hc]; omega)
  -- every entry is a sample of the class found at its position
  have hcls : ∀ j (hj : j < cls.length), ∃ v, res[j]? = some v ∧ v ∈ whereEq cls cls[j] := by
    intro j hj
    have hm : cls[j] ∈ cls := List.getElem_mem hj
    have h1 := hresget j cls[j] (List.getElem?_eq_getElem hj)
    have hjr : j < res.length := by omega
    refine ⟨res[j], List.getElem?_eq_getElem hjr, ?_⟩
    rw [List.getElem?_eq_getElem hjr] at h1
    have hmem := List.mem_of_getElem? h1.symm
    have := (hPperm _ (htoNat _ hm)).mem_iff.1 hmem
    rw [hcast _ hm] at this
    exact this
  refine ⟨res, ?_, ?_, ?_⟩
  · unfold intraClassShuffle
    simp [hlen, hres]
  · apply perm_of_nodup_subset_length
    · rw [List.Nodup, List.pairwise_iff_getElem]
      intro j1 j2 h1 h2 h12 heq
      have hj1 : j1 < cls.length := by omega
      have hj2 : j2 < cls.length := by omega
      obtain ⟨v1, hv1, hw1⟩ := hcls j1 hj1
      obtain ⟨v2, hv2, hw2⟩ := hcls j2 hj2
      rw [List.getElem?_eq_getElem h1] at hv1
      rw [List.getElem?_eq_getElem h2] at hv2
      injection hv1 with hv1
      injection hv2 with hv2
      rw [hv1, hv2] at heq
      subst heq
      have hc1 := (mem_whereEq _ _ _).1 hw1
      have hc2 := (mem_whereEq _ _ _).1 hw2
      rw [hc1] at hc2
      injection hc2 with hc2
      have hm : cls[j1] ∈ cls := List.getElem_mem hj1
      have g1 := hresget j1 cls[j1] (List.getElem?_eq_getElem hj1)
      have g2 := hresget j2 cls[j1] (by rw [hc2]; exact List.getElem?_eq_getElem hj2)
      rw [List.getElem?_eq_getElem h1, hv1] at g1
      rw [List.getElem?_eq_getElem h2, hv2] at g2
      have hnd : ((clsToPerm cls nc tape).getD cls[j1].toNat []).Nodup :=
        (hPperm _ (htoNat _ hm)).nodup_iff.2 (whereEq_nodup _ _)
      have hk1 : 0 + (cls.take j1).count cls[j1] < ((clsToPerm cls nc tape).getD cls[j1].toNat []).length :=
        (List.getElem?_eq_some_iff.1 g1.symm).1
      have := (List.getElem?_inj hk1 hnd).1 (g1.symm.trans g2)
      have hlt := count_take_lt cls cls[j1] j1 j2 (List.getElem?_eq_getElem hj1) h12
      omega
    · intro v hv
      obtain ⟨j, hj, hjv⟩ := List.mem_iff_getElem.1 hv
      obtain ⟨v', hv', hw⟩ := hcls j (by omega)
      rw [List.getElem?_eq_getElem hj, hjv] at hv'
      injection hv' with hv'
      subst hv'
      exact List.mem_range.2 (whereEq_lt _ _ _ hw)
    · simp [hreslen]
  · apply List.ext_getElem?
    intro j
    by_cases hj : j < cls.length
    · obtain ⟨v, hv, hw⟩ := hcls j hj
      rw [List.getElem?_map, List.getElem?_map, hv, List.getElem?_eq_getElem hj]
      simp only [Option.map_some]
      rw [(mem_whereEq _ _ _).1 hw]
    · rw [List.getElem?_map, List.getElem?_map, List.getElem?_eq_none (by omega), List.getElem?_eq_none (by omega)]
      rfl

example : intraClassShuffle [1, 0, 1, 1, 0] 3 true [[1, 0], [2, 0, 1], []] = .ok [3, 4, 0, 2, 1] := by decide
/-- non-vacuity: this tape satisfies the generator contract (class 2 absent) -/
example : ∀ i, i < 3 →
    (([[1, 0], [2, 0, 1], []] : List (List Nat)).getD i []).Perm (List.range (([1, 0, 1, 1, 0] : List Int).count (i : Int))) := by
  decide

/-! ## class-wise subset -/

/-- class-wise subset by index: whenever the constructor accepts (`start ≤ min(end, n)`, and with
    `check_enough_samples` every class has at least `end` samples), the selection lists the classes in order with
    original order inside a class, and the entries of every class `c < n_classes` are exactly the samples number
    `start … min(end, n)-1` *of that class* -/
theorem classwiseSubset_index_spec (cutT : Rat → Nat → Nat) (cls : List Int) (nc : Nat) (si ei : Option Nat)
    (check : Bool) (res : List Nat) (hgiven : (si.isSome || ei.isSome) = true)
    (h : classwiseSubset cutT cls nc si ei none none check = .ok res) :
    si.getD 0 ≤ min (ei.getD cls.length) cls.length ∧
    (check = true → ∀ c : Nat, c < nc → min (ei.getD cls.length) cls.length ≤ cls.count (c : Int)) ∧
    res.Pairwise (fun i j => ∃ a b, cls[i]? = some a ∧ cls[j]? = some b ∧ (a < b ∨ (a = b ∧ i < j))) ∧
    ∀ c : Nat, c < nc → res.filter (fun i => cls[i]? == some (c : Int)) =
      ((whereEq cls (c : Int)).take (min (ei.getD cls.length) cls.length)).drop (si.getD 0) := by
  unfold classwiseSubset at h
  cases hc : classCounts cls nc with
  | error e => rw [hc] at h; cases h
  | ok counts =>
    rw [hc] at h
    obtain ⟨hl, hget, _⟩ := classCounts_ok cls nc counts hc
    have hcl := le_countsLen nc
    simp only [hgiven, if_true, Option.isSome_none, Bool.or_self, Bool.false_eq_true, if_false, pyOrNat_zero] at h
    split at h
    · rename_i hse
      split at h
      · cases h
      · rename_i hchk
        injection h with h
        have hg : ∀ a, ∀ x ∈ (if counts.getD a 0 ≤ si.getD 0 then []
            else pySlice (whereEq cls (a : Int)) (si.getD 0) (min (min (ei.getD cls.length) cls.length) (counts.getD a 0))),
            x ∈ whereEq cls (a : Int) := by
          intro a x hx
          split at hx
          · cases hx
          · exact (pySlice_sublist _ _ _).subset hx
        refine ⟨hse, ?_, ?_, ?_⟩
        · intro hck c hcn
          rw [hck] at hchk
          simp only [Bool.true_and, Bool.not_eq_true, List.any_eq_false, List.mem_range, decide_eq_true_eq] at hchk
          have := hchk c hcn
          rw [hget c (by omega)] at this
          omega
        · rw [← h]
          apply sorted_blocks cls _ nc (fun a x hx => (mem_whereEq cls a x).1 (hg a x hx))
          intro a _
          split
          · exact List.Pairwise.nil
          · exact (whereEq_pairwise cls a).sublist (pySlice_sublist _ _ _)
        · intro c hcn
          rw [← h, filter_blocks cls _ (fun a x hx => (mem_whereEq cls a x).1 (hg a x hx)) c _ List.nodup_range,
            if_pos (List.mem_range.2 hcn)]
          exact classwise_index_block _ _ _ _ (by rw [hget c (by omega), length_whereEq])
    · cases h

/-- class-wise subset by percent: whenever the constructor accepts, the selection lists the classes in order with
    original order inside a class, and the entries of every class `c < n_classes` are exactly the samples number
    `cut(start_percent, count c) … cut(end_percent, count c)-1` of that class -/
theorem classwiseSubset_percent_spec (cutT : Rat → Nat → Nat) (cls : List Int) (nc : Nat) (sp ep : Option Rat)
    (check : Bool) (res : List Nat) (hgiven : (sp.isSome || ep.isSome) = true)
    (h : classwiseSubset cutT cls nc none none sp ep check = .ok res) :
    sp.getD 0 ≤ ep.getD 1 ∧
    res.Pairwise (fun i j => ∃ a b, cls[i]? = some a ∧ cls[j]? = some b ∧ (a < b ∨ (a = b ∧ i < j))) ∧
    ∀ c : Nat, c < nc → res.filter (fun i => cls[i]? == some (c : Int)) =
      ((whereEq cls (c : Int)).take (cutT (ep.getD 1) (cls.count (c : Int)))).drop (cutT (sp.getD 0) (cls.count (c : Int))) := by
  unfold classwiseSubset at h
  cases hc : classCounts cls nc with
  | error e => rw [hc] at h; cases h
  | ok counts =>
    rw [hc] at h
    obtain ⟨hl, hget, _⟩ := classCounts_ok cls nc counts hc
    have hcl := le_countsLen nc
    simp only [Option.isSome_none, Bool.or_self, Bool.false_eq_true, if_false, hgiven, if_true, pyOrRat_zero] at h
    split at h
    · split at h
      · rename_i hse
        injection h with h
        have hg : ∀ a : Nat, ∀ x ∈ pySlice (whereEq cls (a : Int)) (cutT (sp.getD 0) (counts.getD a 0)) (cutT (ep.getD 1) (counts.getD a 0)),
            x ∈ whereEq cls (a : Int) := fun a x hx => (pySlice_sublist _ _ _).subset hx
        refine ⟨hse, ?_, ?_⟩
        · rw [← h]
          apply sorted_blocks cls _ nc (fun a x hx => (mem_whereEq cls a x).1 (hg a x hx))
          intro a _
          exact (whereEq_pairwise cls a).sublist (pySlice_sublist _ _ _)
        · intro c hcn
          rw [← h, filter_blocks cls _ (fun a x hx => (mem_whereEq cls a x).1 (hg a x hx)) c _ List.nodup_range,
            if_pos (List.mem_range.2 hcn), hget c (by omega)]
          rfl
      · cases h
    · cases h

/-- class-wise subset takes the requested amount per class: by index `min(end, n, count c) - start` samples of class
    `c`, by percent `min(cut(end_percent, count c), count c) - cut(start_percent, count c)` -/
theorem classwiseSubset_counts (cutT : Rat → Nat → Nat) (cls : List Int) (nc : Nat) (check : Bool) (res : List Nat) :
    (∀ si ei : Option Nat, (si.isSome || ei.isSome) = true →
      classwiseSubset cutT cls nc si ei none none check = .ok res →
      ∀ c : Nat, c < nc → res.countP (fun i => cls[i]? == some (c : Int)) =
        min (min (ei.getD cls.length) cls.length) (cls.count (c : Int)) - si.getD 0) ∧
    (∀ sp ep : Option Rat, (sp.isSome || ep.isSome) = true →
      classwiseSubset cutT cls nc none none sp ep check = .ok res →
      ∀ c : Nat, c < nc → res.countP (fun i => cls[i]? == some (c : Int)) =
        min (cutT (ep.getD 1) (cls.count (c : Int))) (cls.count (c : Int)) - cutT (sp.getD 0) (cls.count (c : Int))) := by
  constructor
  · intro si ei hg h c hc
    obtain ⟨_, _, _, f⟩ := classwiseSubset_index_spec cutT cls nc si ei check res hg h
    rw [List.countP_eq_length_filter, f c hc, List.length_drop, List.length_take, length_whereEq]
  · intro sp ep hg h c hc
    obtain ⟨_, _, f⟩ := classwiseSubset_percent_spec cutT cls nc sp ep check res hg h
    rw [List.countP_eq_length_filter, f c hc, List.length_drop, List.length_take, length_whereEq]

/-- **class-wise complementary index ranges partition every class**: for every split `k ≤ n` incl. 0 and n,
    `end_index=k` followed by `start_index=k` (no sample check) gives, class by class, all samples of the class -/
theorem classwiseSubset_index_partition (cutT : Rat → Nat → Nat) (cls : List Int) (nc k : Nat) (sa : Option Nat)
    (A B : List Nat) (hsa : sa = none ∨ sa = some 0)
    (hA : classwiseSubset cutT cls nc sa (some k) none none false = .ok A)
    (hB : classwiseSubset cutT cls nc (some k) none none none false = .ok B) :
    ∀ c : Nat, c < nc → A.filter (fun i => cls[i]? == some (c : Int)) ++ B.filter (fun i => cls[i]? == some (c : Int))
      = whereEq cls (c : Int) := by
  intro c hc
  obtain ⟨_, _, _, fA⟩ := classwiseSubset_index_spec cutT cls nc sa (some k) false A (by simp) hA
  obtain ⟨hkn, _, _, fB⟩ := classwiseSubset_index_spec cutT cls nc (some k) none false B (by simp) hB
  rw [fA c hc, fB c hc]
  have hsa0 : sa.getD 0 = 0 := by rcases hsa with h | h <;> simp [h]
  have hW : (whereEq cls (c : Int)).take cls.length = whereEq cls (c : Int) :=
    List.take_of_length_le (by rw [length_whereEq]; exact List.count_le_length)
  simp only [Option.getD_some, Option.getD_none, Nat.min_self] at hkn ⊢
  rw [hsa0, List.drop_zero, Nat.min_eq_left hkn, hW]
  exact List.take_append_drop _ _

/-- **class-wise complementary percent ranges partition every class**, for every `p` incl. 0 and 1 and every rounding
    with `cut 0 k = 0`, `cut 1 k = k` -/
theorem classwiseSubset_percent_partition (cutT : Rat → Nat → Nat) (cls : List Int) (nc : Nat) (p : Rat)
    (sa eb : Option Rat) (A B : List Nat) (hsa : sa = none ∨ sa = some 0) (heb : eb = none ∨ eb = some 1)
    (h0 : ∀ k, cutT 0 k = 0) (h1 : ∀ k, cutT 1 k = k)
    (hA : classwiseSubset cutT cls nc none none sa (some p) true = .ok A)
    (hB : classwiseSubset cutT cls nc none none (some p) eb true = .ok B) :
    ∀ c : Nat, c < nc → A.filter (fun i => cls[i]? == some (c : Int)) ++ B.filter (fun i => cls[i]? == some (c : Int))
      = whereEq cls (c : Int) := by
  intro c hc
  obtain ⟨_, _, fA⟩ := classwiseSubset_percent_spec cutT cls nc sa (some p) true A (by simp) hA
  obtain ⟨_, _, fB⟩ := classwiseSubset_percent_spec cutT cls nc (some p) eb true B (by simp) hB
  rw [fA c hc, fB c hc]
  have hsa0 : sa.getD 0 = 0 := by rcases hsa with h | h <;> simp [h]
  have heb1 : eb.getD 1 = 1 := by rcases heb with h | h <;> simp [h]
  have hW : (whereEq cls (c : Int)).take (cls.count (c : Int)) = whereEq cls (c : Int) :=
    List.take_of_length_le (by rw [length_whereEq]; exact Nat.le_refl _)
  simp only [Option.getD_some]
  rw [hsa0, heb1, h0, h1, List.drop_zero, hW]
  exact List.take_append_drop _ _

/-- acceptance (non-vacuity of the two partition theorems): with labels in range, a split `k ≤ n` resp. a percent
    `p ∈ [0,1]` both halves are accepted -/
theorem classwiseSubset_accepts (cutT : Rat → Nat → Nat) (cls : List Int) (nc k : Nat) (p : Rat)
    (hdom : ∀ c ∈ cls, 0 ≤ c ∧ c < (nc : Int)) (hk : k ≤ cls.length) (hp0 : 0 ≤ p) (hp1 : p ≤ 1) :
    (∃ A, classwiseSubset cutT cls nc none (some k) none none false = .ok A) ∧
    (∃ B, classwiseSubset cutT cls nc (some k) none none none false = .ok B) ∧
    (∃ A, classwiseSubset cutT cls nc none none none (some p) true = .ok A) ∧
    (∃ B, classwiseSubset cutT cls nc none none (some p) none true = .ok B) := by
  have hcl := le_countsLen nc
  have hc := classCounts_of_dom cls nc (fun c hc => Or.inr (by have := hdom c hc; omega))
  have h01 : (0 : Rat) ≤ 1 := by decide
  have hpok : pctOk (some p) = true := by simp [pctOk, hp0, hp1]
  have hpp : pyOrRat (some p) 0 = p := by by_cases h : p = 0 <;> simp [pyOrRat, h]
  have hkk : pyOrNat (some k) 0 = k := by by_cases h : k = 0 <;> simp [pyOrNat, h]
  refine ⟨?_, ?_, ?_, ?_⟩
  · unfold classwiseSubset
    simp [hc, pyOrNat]
  · unfold classwiseSubset
    simp [hc, hkk, hk]
  · unfold classwiseSubset
    simp [hc, pctOk, pyOrRat, hp0, hp1]
  · unfold classwiseSubset
    simp [hc, pctOk, hpp, hp0, hp1]

example : classwiseSubset (fun p n => (p * n).floor.toNat) [0, 1, 0, 0, 1, 0] 2 none (some 2) none none true
    = .ok [0, 2, 1, 4] := by decide +kernel
example : classwiseSubset (fun p n => (p * n).floor.toNat) [0, 1, 0, 0, 1, 0] 3 none none none (some (1/2)) true
    = .ok [0, 2, 1] := by decide +kernel
example : classwiseSubset (fun p n => (p * n).floor.toNat) [0, 1, 0, 0, 1, 0] 3 none none (some (1/2)) none true
    = .ok [3, 5, 4] := by decide +kernel

/-! ## Python's `x or default` -/

/-- for the *lower* bounds `x or 0` / `x or 0.` is harmless: it is the same as defaulting `None` -/
theorem pyOr_zero_is_default (x : Option Nat) (y : Option Rat) : pyOrNat x 0 = x.getD 0 ∧ pyOrRat y 0 = y.getD 0 :=
  ⟨pyOrNat_zero x, pyOrRat_zero y⟩

/-- for the *upper* bounds it is not (defect F03 of the unrepaired code): an explicit 0 is replaced by the default,
    which is why the model (and the repaired code) use `default if x is None else x` there -/
theorem pyOr_swallows_zero (n : Nat) : pyOrNat (some 0) n = n ∧ pyOrRat (some 0) 1 = 1 ∧ (some 0 : Option Nat).getD n = 0 := by
  simp [pyOrNat, pyOrRat]

end KDVerif.C03
