/-
C19 — The in-memory shared cache is transparent for every access history.

Theorems about `KDVerif.Cache` (model of `SharedDictDataset._cached_getitem/dispose` + `CachedDataset.__getitem__`):
any number of readers sharing one dict, each a program of `get i` / `clear`, interleaved at the granularity of single dict
operations by an arbitrary schedule.
-/
import KDVerif.Lemmas.Cache

namespace KDVerif.C19
open KDVerif.Cache

/-- **Concurrent transparency (every schedule, any number of readers, clears anywhere).**  At every point of every
    interleaving every reader has answered a prefix of its program with exactly what the uncached dataset followed by the
    transform answers (`get i ↦ t (f i)`, in program order, no exception, nothing skipped or duplicated). -/
theorem concurrent_transparent (f : Nat → Val) (t : Val → Val) (progs : List (List Op)) (sched : List Nat)
    (r : Nat) (rd : Reader) (h : (run f t sched (init progs)).readers[r]? = some rd) :
    ∃ p, progs[r]? = some p ∧ ∃ k, rd.out = (p.take k).map (spec f t) := by
  obtain ⟨_, _, hr⟩ := run_inv f t progs sched _ (init_inv f t progs)
  obtain ⟨p, hp, hout, _⟩ := hr r rd h
  refine ⟨p, hp, rd.out.length, ?_⟩
  rw [List.map_take, ← hout, List.append_assoc]
  simp

/-- every completed `get i` returned `t (f i)` — the form the property text uses -/
theorem every_get_returns_dataset_value (f : Nat → Val) (t : Val → Val) (progs : List (List Op)) (sched : List Nat)
    (r : Nat) (rd : Reader) (h : (run f t sched (init progs)).readers[r]? = some rd) :
    ∀ res ∈ rd.out, res = .cleared ∨ ∃ i, res = .val i (t (f i)) := by
  obtain ⟨p, _, k, hk⟩ := concurrent_transparent f t progs sched r rd h
  intro res hres
  rw [hk] at hres
  obtain ⟨op, _, rfl⟩ := List.mem_map.mp hres
  cases op with
  | get i => exact Or.inr ⟨i, rfl⟩
  | clear => exact Or.inl rfl

/-- non-vacuity: the schedule on which the unrepaired code raised `KeyError`
    (reader 0 caches index 0, tests membership again, reader 1 disposes, reader 0 reads): both gets answer `t (f 0)` -/
example : ((run (fun i => 10 * i + 3) (· + 1000) [0, 0, 0, 0, 1, 0, 0, 0] (init [[.get 0, .get 0], [.clear]])).readers.map (·.out))
    = [[.val 0 1003, .val 0 1003], [.cleared]] := by decide

/-- **The cache holds raw samples under their own index** (for every schedule): whatever is in the dict under `i` is
    `f i` — never a transformed sample, never another index's sample.  (Invariant behind the theorem above.) -/
theorem cache_holds_raw_samples (f : Nat → Val) (t : Val → Val) (progs : List (List Op)) (sched : List Nat)
    (i : Nat) (v : Val) (h : (run f t sched (init progs)).sh.dict i = some v) : v = f i :=
  (run_inv f t progs sched _ (init_inv f t progs)).1 i v h

/-- **No reader gets stuck**: a reader that is scheduled at least `4 · |program|` times — however the other readers and their
    clears are interleaved — has finished and answered its whole program like the uncached dataset. -/
theorem fair_schedule_completes (f : Nat → Val) (t : Val → Val) (progs : List (List Op)) (sched : List Nat)
    (r : Nat) (p : List Op) (hp : progs[r]? = some p) (hfair : 4 * p.length ≤ sched.count r) :
    ∃ rd, (run f t sched (init progs)).readers[r]? = some rd ∧ rd.pc = .idle ∧ rd.todo = [] ∧
      rd.out = p.map (spec f t) := by
  obtain ⟨_, hlen, hr⟩ := run_inv f t progs sched _ (init_inv f t progs)
  have hlt : r < progs.length := by
    rcases Nat.lt_or_ge r progs.length with h | h
    · exact h
    · rw [List.getElem?_eq_none h] at hp; cases hp
  have hsome : ∃ rd, (run f t sched (init progs)).readers[r]? = some rd := by
    have : r < (run f t sched (init progs)).readers.length := by rw [hlen]; exact hlt
    exact ⟨_, List.getElem?_eq_getElem this⟩
  obtain ⟨rd, hrd⟩ := hsome
  obtain ⟨p', hp', hout, _⟩ := hr r rd hrd
  rw [hp] at hp'; cases hp'
  have h0 : remainingOf r (init progs) = 4 * p.length := by
    simp [remainingOf, init, List.getElem?_map, hp, remaining, pcRank]
  have hz : remainingOf r (run f t sched (init progs)) = 0 := by
    rcases run_remaining f t r sched (init progs) with h | h
    · omega
    · exact h
  simp only [remainingOf, hrd] at hz
  obtain ⟨hpc, htodo⟩ := remaining_zero rd hz
  refine ⟨rd, hrd, hpc, htodo, ?_⟩
  rw [hpc, htodo] at hout
  simpa [inflight] using hout

/-- non-vacuity: three readers, round-robin -/
example : 4 * [Op.get 1, .clear].length ≤ ([0, 1, 2, 0, 1, 2, 0, 1, 2, 0, 1, 2, 0, 1, 2, 0, 1, 2, 0, 1, 2, 0, 1, 2] : List Nat).count 1 := by
  decide

/-- **Sequential transparency**: on any sequential history of gets and clears the cached dataset answers exactly like the
    dataset it wraps followed by the transform, and ends idle. -/
theorem sequential_transparent (f : Nat → Val) (t : Val → Val) (ops : List Op) :
    (seqRun f t ops).readers = [⟨.idle, [], ops.map (spec f t)⟩] := by
  unfold seqRun init
  simp only [List.map_cons, List.map_nil]
  rw [seq_run_eq f t ops _ emptyDict [] [] [] (by intro i v h; simp [emptyDict] at h) (Nat.le_refl _)]
  simp

/-- **Sequential loads**: the loads from the wrapped dataset are exactly those of `loadsSpec`: an index is loaded when it is
    accessed for the first time since the last clear (or since the start) and at no other time. -/
theorem sequential_loads (f : Nat → Val) (t : Val → Val) (ops : List Op) :
    (seqRun f t ops).sh.loads = loadsSpec ops [] := by
  unfold seqRun init
  simp only [List.map_cons, List.map_nil]
  rw [seq_run_eq f t ops _ emptyDict [] [] [] (by intro i v h; simp [emptyDict] at h) (Nat.le_refl _)]
  simp only [List.nil_append]
  exact seqSem_loads f ops emptyDict [] (by intro i; simp [emptyDict])

/-- the indices accessed since the last clear, after `ops` (starting from `seen`) -/
def seenAfter : List Op → List Nat → List Nat
  | [], seen => seen
  | .get i :: rest, seen => if i ∈ seen then seenAfter rest seen else seenAfter rest (i :: seen)
  | .clear :: rest, _ => seenAfter rest []

/-- the load log of a history is the concatenation of the load logs of its parts -/
theorem loadsSpec_append (a b : List Op) (seen : List Nat) :
    loadsSpec (a ++ b) seen = loadsSpec a seen ++ loadsSpec b (seenAfter a seen) := by
  induction a generalizing seen with
  | nil => rfl
  | cons op rest ih =>
    cases op with
    | clear => simpa [loadsSpec, seenAfter] using ih []
    | get i =>
      by_cases h : i ∈ seen
      · simpa [loadsSpec, seenAfter, h] using ih seen
      · simpa [loadsSpec, seenAfter, h] using ih (i :: seen)

/-- **Each sample is loaded at most once between clears**: during a stretch of the history that contains no clear, no index
    is loaded twice, and no index that was already accessed since the last clear is loaded at all. -/
theorem loads_once_between_clears (seg : List Op) (seen : List Nat) (hnc : Op.clear ∉ seg) :
    (loadsSpec seg seen).Nodup ∧ ∀ i ∈ loadsSpec seg seen, i ∉ seen := by
  induction seg generalizing seen with
  | nil => exact ⟨List.nodup_nil, by intro i h; cases h⟩
  | cons op rest ih =>
    have hnc' : Op.clear ∉ rest := fun h => hnc (List.mem_cons_of_mem _ h)
    cases op with
    | clear => exact absurd List.mem_cons_self hnc
    | get i =>
      by_cases h : i ∈ seen
      · simpa [loadsSpec, h] using ih seen hnc'
      · obtain ⟨hnd, hns⟩ := ih (i :: seen) hnc'
        simp only [loadsSpec, h, if_false]
        refine ⟨List.nodup_cons.mpr ⟨?_, hnd⟩, ?_⟩
        · intro hin
          exact hns i hin List.mem_cons_self
        · intro j hj
          rcases List.mem_cons.mp hj with rfl | hj
          · exact h
          · intro hjs
            exact hns j hj (List.mem_cons_of_mem _ hjs)

/-- … stated on whole histories: for every split `pre ++ seg ++ post` with `seg` clear-free, the loads made during `seg` are
    pairwise distinct -/
theorem sequential_load_once (f : Nat → Val) (t : Val → Val) (pre seg post : List Op) (hnc : Op.clear ∉ seg) :
    ∃ l₁ l₂ l₃, (seqRun f t (pre ++ seg ++ post)).sh.loads = l₁ ++ l₂ ++ l₃ ∧
      l₁ = loadsSpec pre [] ∧ l₂ = loadsSpec seg (seenAfter pre []) ∧ l₂.Nodup ∧ ∀ i ∈ l₂, i ∉ seenAfter pre [] := by
  refine ⟨loadsSpec pre [], loadsSpec seg (seenAfter pre []), loadsSpec post (seenAfter (pre ++ seg) []), ?_, rfl, rfl,
    (loads_once_between_clears seg _ hnc).1, (loads_once_between_clears seg _ hnc).2⟩
  rw [sequential_loads, loadsSpec_append, loadsSpec_append]

/-- non-vacuity: `get 1, get 1, get 2, get 1` loads `1, 2` -/
example : loadsSpec [.get 1, .get 1, .get 2, .get 1] [] = [1, 2] := by decide

/-- **After a clear samples are loaded again**: the first access to `i` after a clear loads `i` (whatever was cached before) -/
theorem loaded_again_after_clear (i : Nat) (rest : List Op) (seen : List Nat) :
    loadsSpec (.clear :: .get i :: rest) seen = i :: loadsSpec rest [i] := by
  simp [loadsSpec]

/-- … on whole histories: `pre; clear; get i; post` makes a load of `i` right after the loads of `pre` -/
theorem sequential_reload_after_clear (f : Nat → Val) (t : Val → Val) (pre post : List Op) (i : Nat) :
    (seqRun f t (pre ++ .clear :: .get i :: post)).sh.loads = loadsSpec pre [] ++ i :: loadsSpec post [i] := by
  rw [sequential_loads, loadsSpec_append, loaded_again_after_clear]

/-- **The transform is applied on every access** (hits and misses alike), to the raw cached sample: the log of transform
    applications of a sequential history is the list of accessed indices. -/
theorem transform_every_access (f : Nat → Val) (t : Val → Val) (ops : List Op) :
    (seqRun f t ops).sh.tapps = ops.filterMap (fun o => match o with | .get i => some i | .clear => none) := by
  unfold seqRun init
  simp only [List.map_cons, List.map_nil]
  rw [seq_run_eq f t ops _ emptyDict [] [] [] (by intro i v h; simp [emptyDict] at h) (Nat.le_refl _)]
  simp only [List.nil_append]
  exact seqSem_tapps f ops emptyDict

end KDVerif.C19
