/-
C19 — The in-memory shared cache is transparent for every access history.

Theorems about `KDVerif.Cache` (model of `SharedDictDataset._cached_getitem/dispose` + `CachedDataset.__getitem__`):
any number of readers sharing one dict, each a program of `get i` / `clear`, interleaved at the granularity of single dict
operations by an arbitrary schedule.
-/
import KDVerif.Lemmas.Cache
import KDVerif.Lemmas.C19Extra

namespace KDVerif.C19
open KDVerif.Cache

/-- **Concurrent transparency (every schedule, any number of readers, clears anywhere).**  At every point of every
    interleaving every reader has answered a prefix of its program with exactly what the uncached dataset followed by the
    transform answers (`get i ↦ t (f i)`, in program order, no exception, nothing skipped or duplicated). -/
theorem concurrent_transparent (f : Nat → Val) (t : Val → Val) (progs : List (List Op)) (sched : List Nat)
    (r : Nat) (rd : Reader) (h : (run f t sched (init progs)).readers[r]? = some rd) :
    ∃ p, progs[r]? = some p ∧ ∃ k, rd.out = (p.take k).map (spec f t) := by
  obtain ⟨_, _, hr⟩ := run_inv f t progs sched _ (init_inv f t progs)
  obtain ⟨p, hp, hout, _⟩ := hr r rd h
  refine ⟨p, hp, rd.out.length, ?_⟩
  rw [List.map_take, ← hout, List.append_assoc]
  simp

/-- every completed `get i` returned `t (f i)` — the form the property text uses -/
theorem every_get_returns_dataset_value (f : Nat → Val) (t : Val → Val) (progs : List (List Op)) (sched : List Nat)
    (r : Nat) (rd : Reader) (h : (run f t sched (init progs)).readers[r]? = some rd) :
    ∀ res ∈ rd.out, res = .cleared ∨ ∃ i, res = .val i (t (f i)) := by
  obtain ⟨p, _, k, hk⟩ := concurrent_transparent f t progs sched r rd h
  intro res hres
  rw [hk] at hres
  obtain ⟨op, _, rfl⟩ := List.mem_map.mp hres
  cases op with
  | get i => exact Or.inr ⟨i, rfl⟩
  | clear => exact Or.inl rfl

/-- non-vacuity: the schedule on which the unrepaired code raised `KeyError`
    (reader 0 caches index 0, tests membership again, reader 1 disposes, reader 0 reads): both gets answer `t (f 0)` -/
example : ((run (fun i => 10 * i + 3) (· + 1000) [0, 0, 0, 0, 1, 0, 0, 0] (init [[.get 0, .get 0], [.clear]])).readers.map (·.out))
    = [[.val 0 1003, .val 0 1003], [.cleared]] := by decide

/-- **The cache holds raw samples under their own index** (for every schedule): whatever is in the dict under `i` is
    `f i` — never a transformed sample, never another index's sample.  (Invariant behind the theorem above.) -/
theorem cache_holds_raw_samples (f : Nat → Val) (t : Val → Val) (progs : List (List Op)) (sched : List Nat)
    (i : Nat) (v : Val) (h : (run f t sched (init progs)).sh.dict i = some v) : v = f i :=
  (run_inv f t progs sched _ (init_inv f t progs)).1 i v h

/-- **No reader gets stuck**: a reader that is scheduled at least `4 · |program|` times — however the other readers and their
    clears are interleaved — has finished and answered its whole program like the uncached dataset. -/
theorem fair_schedule_completes (f : Nat → Val) (t : Val → Val) (progs : List (List Op)) (sched : List Nat)
    (r : Nat) (p : List Op) (hp : progs[r]? = some p) (hfair : 4 * p.length ≤ sched.count r) :
    ∃ rd, (run f t sched (init progs)).readers[r]? = some rd ∧ rd.pc = .idle ∧ rd.todo = [] ∧
      rd.out = p.map (spec f t) := by
  obtain ⟨_, hlen, hr⟩ := run_inv f t progs sched _ (init_inv f t progs)
  have hlt : r < progs.length := by
    rcases Nat.lt_or_ge r progs.length with h | h
    · exact h
    · rw [List.getElem?_eq_none h] at hp; cases hp
  have hsome : ∃ rd, (run f t sched (init progs)).readers[r]? = some rd := by
    have : r < (run f t sched (init progs)).readers.length := by rw [hlen]; exact hlt
    exact ⟨_, List.getElem?_eq_getElem this⟩
  obtain ⟨rd, hrd⟩ := hsome
  obtain ⟨p', hp', hout, _⟩ := hr r rd hrd
  rw [hp] at hp'; cases hp'
  have h0 : remainingOf r (init progs) = 4 * p.length := by
    simp [remainingOf, init, List.getElem?_map, hp, remaining, pcRank]
  have hz : remainingOf r (run f t sched (init progs)) = 0 := by
    rcases run_remaining f t r sched (init progs) with h | h
    · omega
    · exact h
  simp only [remainingOf, hrd] at hz
  obtain ⟨hpc, htodo⟩ := remaining_zero rd hz
  refine ⟨rd, hrd, hpc, htodo, ?_⟩
  rw [hpc, htodo] at hout
  simpa [inflight] using hout

/-- non-vacuity: three readers, round-robin -/
example : 4 * [Op.get 1, .clear].length ≤ ([0, 1, 2, 0, 1, 2, 0, 1, 2, 0, 1, 2, 0, 1, 2, 0, 1, 2, 0, 1, 2, 0, 1, 2] : List Nat).count 1 := by
  decide

/-- **Sequential transparency**: on any sequential history of gets and clears the cached dataset answers exactly like the
    dataset it wraps followed by the transform, and ends idle. -/
theorem sequential_transparent (f : Nat → Val) (t : Val → Val) (ops : List Op) :
    (seqRun f t ops).readers = [⟨.idle, [], ops.map (spec f t)⟩] := by
  unfold seqRun init
  simp only [List.map_cons, List.map_nil]
  rw [seq_run_eq f t ops _ emptyDict [] [] [] (by intro i v h; simp [emptyDict] at h) (Nat.le_refl _)]
  simp

/-- **Sequential loads**: the loads from the wrapped dataset are exactly those of `loadsSpec`: an index is loaded when it is
    accessed for the first time since the last clear (or since the start) and at no other time. -/
theorem sequential_loads (f : Nat → Val) (t : Val → Val) (ops : List Op) :
    (seqRun f t ops).sh.loads = loadsSpec ops [] := by
  unfold seqRun init
  simp only [List.map_cons, List.map_nil]
  rw [seq_run_eq f t ops _ emptyDict [] [] [] (by intro i v h; simp [emptyDict] at h) (Nat.le_refl _)]
  simp only [List.nil_append]
  exact seqSem_loads f ops emptyDict [] (by intro i; simp [emptyDict])

/-- the indices accessed since the last clear, after `ops` (starting from `seen`) -/
def seenAfter : List Op → List Nat → List Nat
  | [], seen => seen
  | .get i :: rest, seen => if i ∈ seen then seenAfter rest seen else seenAfter rest (i :: seen)
  | .clear :: rest, _ => seenAfter rest []

/-- the load log of a history is the concatenation of the load logs of its parts -/
theorem loadsSpec_append (a b : List Op) (seen : List Nat) :
    loadsSpec (a ++ b) seen = loadsSpec a seen ++ loadsSpec b (seenAfter a seen) := by
  induction a generalizing seen with
  | nil => rfl
  | cons op rest ih =>
    cases op with
    | clear => simpa [loadsSpec, seenAfter] using ih []
    | get i =>
      by_cases h : i ∈ seen
      · simpa [loadsSpec, seenAfter, h] using ih seen
      · simpa [loadsSpec, seenAfter, h] using ih (i :: seen)

/-- **Each sample is loaded at most once between clears**: during a stretch of the history that contains no clear, no index
    is loaded twice, and no index that was already accessed since the last clear is loaded at all. -/
theorem loads_once_between_clears (seg : List Op) (seen : List Nat) (hnc : Op.clear ∉ seg) :
    (loadsSpec seg seen).Nodup ∧ ∀ i ∈ loadsSpec seg seen, i ∉ seen := by
  induction seg generalizing seen with
  | nil => exact ⟨List.nodup_nil, by intro i h; cases h⟩
  | cons op rest ih =>
    have hnc' : Op.clear ∉ rest := fun h => hnc (List.mem_cons_of_mem _ h)
    cases op with
    | clear => exact absurd List.mem_cons_self hnc
    | get i =>
      by_cases h : i ∈ seen
      · simpa [loadsSpec, h] using ih seen hnc'
      · obtain ⟨hnd, hns⟩ := ih (i :: seen) hnc'
        simp only [loadsSpec, h, if_false]
        refine ⟨List.nodup_cons.mpr ⟨?_, hnd⟩, ?_⟩
        · intro hin
          exact hns i hin List.mem_cons_self
        · intro j hj
          rcases List.mem_cons.mp hj with rfl | hj
          · exact h
          · intro hjs
            exact hns j hj (List.mem_cons_of_mem _ hjs)

/-- … stated on whole histories: for every split `pre ++ seg ++ post` with `seg` clear-free, the loads made during `seg` are
    pairwise distinct -/
theorem sequential_load_once (f : Nat → Val) (t : Val → Val) (pre seg post : List Op) (hnc : Op.clear ∉ seg) :
    ∃ l₁ l₂ l₃, (seqRun f t (pre ++ seg ++ post)).sh.loads = l₁ ++ l₂ ++ l₃ ∧
      l₁ = loadsSpec pre [] ∧ l₂ = loadsSpec seg (seenAfter pre []) ∧ l₂.Nodup ∧ ∀ i ∈ l₂, i ∉ seenAfter pre [] := by
  refine ⟨loadsSpec pre [], loadsSpec seg (seenAfter pre []), loadsSpec post (seenAfter (pre ++ seg) []), ?_, rfl, rfl,
    (loads_once_between_clears seg _ hnc).1, (loads_once_between_clears seg _ hnc).2⟩
  rw [sequential_loads, loadsSpec_append, loadsSpec_append]

/-- non-vacuity: `get 1, get 1, get 2, get 1` loads `1, 2` -/
example : loadsSpec [.get 1, .get 1, .get 2, .get 1] [] = [1, 2] := by decide

/-- **After a clear samples are loaded again**: the first access to `i` after a clear loads `i` (whatever was cached before) -/
theorem loaded_again_after_clear (i : Nat) (rest : List Op) (seen : List Nat) :
    loadsSpec (.clear :: .get i :: rest) seen = i :: loadsSpec rest [i] := by
  simp [loadsSpec]

/-- … on whole histories: `pre; clear; get i; post` makes a load of `i` right after the loads of `pre` -/
theorem sequential_reload_after_clear (f : Nat → Val) (t : Val → Val) (pre post : List Op) (i : Nat) :
    (seqRun f t (pre ++ .clear :: .get i :: post)).sh.loads = loadsSpec pre [] ++ i :: loadsSpec post [i] := by
  rw [sequential_loads, loadsSpec_append, loaded_again_after_clear]

/-- **The transform is applied on every access** (hits and misses alike), to the raw cached sample: the log of transform
    applications of a sequential history is the list of accessed indices. -/
theorem transform_every_access (f : Nat → Val) (t : Val → Val) (ops : List Op) :
    (seqRun f t ops).sh.tapps = ops.filterMap (fun o => match o with | .get i => some i | .clear => none) := by
  unfold seqRun init
  simp only [List.map_cons, List.map_nil]
  rw [seq_run_eq f t ops _ emptyDict [] [] [] (by intro i v h; simp [emptyDict] at h) (Nat.le_refl _)]
  simp only [List.nil_append]
  exact seqSem_tapps f ops emptyDict

/-! ## Arbitrary schedules and the event trace

`trace f t sched (init progs)` is the list of `(reader, event)` pairs of a run (it is what the schedule-replay driver
compares with the real code: `sched.zip (events …)`).  The theorems below speak about positions of this trace, written as
splits `pre ++ (r, e) :: post`. -/

theorem trace_eq_zip_events (f : Nat → Val) (t : Val → Val) (sched : List Nat) (s : State) :
    trace f t sched s = sched.zip (events f t sched s) := c19x_trace_eq_zip f t sched s

/-- **Clause "applies its post-cache transform on every access", every schedule, any number of readers** (gap 2, exact
    form): the log of transform applications is exactly the list of completion events (`read i true` = served from the cache,
    `store i` = served after a load) of the run, in the order they happen. -/
theorem transform_log_is_completion_events (f : Nat → Val) (t : Val → Val) (progs : List (List Op)) (sched : List Nat) :
    (run f t sched (init progs)).sh.tapps = (events f t sched (init progs)).filterMap doneIdx := by
  simpa [init] using (c19x_run_logs f t sched (init progs)).2

/-- **Clause "applies its post-cache transform on every access", every schedule, any number of readers** (gap 2, counting
    form): for every set `p` of indices, the number of transform applications to samples of indices in `p` equals the number of
    answers `cached[i]`, `i ∈ p`, that have been handed out so far, summed over all readers (`completed`). -/
theorem transform_count_eq_completed_accesses (f : Nat → Val) (t : Val → Val) (progs : List (List Op)) (sched : List Nat)
    (p : Nat → Bool) :
    (run f t sched (init progs)).sh.tapps.countP p =
      ((run f t sched (init progs)).readers.map (fun rd => rd.out.countP (isValOf p))).sum := by
  have := c19x_run_completed f t p sched (init progs)
  rw [c19x_init_completed] at this
  simpa [init, completed] using this

/-- … in total: as many transform applications as completed accesses, under every schedule -/
theorem transform_applications_eq_completed_accesses (f : Nat → Val) (t : Val → Val) (progs : List (List Op))
    (sched : List Nat) :
    (run f t sched (init progs)).sh.tapps.length =
      ((run f t sched (init progs)).readers.map (fun rd => rd.out.countP (isValOf fun _ => true))).sum := by
  rw [← transform_count_eq_completed_accesses]
  simp

/-- non-vacuity: two readers racing on index 0, a third clearing: 3 completed gets, 3 transform applications
    (and 2 loads: the race made one redundant) -/
example :
    let s := run (fun i => 10 * i + 3) (· + 1000) [0, 1, 0, 1, 0, 1, 0, 0, 2] (init [[.get 0, .get 0], [.get 0], [.clear]])
    s.sh.tapps = [0, 0, 0] ∧ s.readers.map (fun rd => rd.out.countP (isValOf fun _ => true)) = [2, 1, 0] ∧
      s.sh.loads = [0, 0] := by decide

/-- the load log is exactly the list of load events of the run (every schedule) -/
theorem load_log_is_load_events (f : Nat → Val) (t : Val → Val) (progs : List (List Op)) (sched : List Nat) :
    (run f t sched (init progs)).sh.loads = (events f t sched (init progs)).filterMap loadIdx := by
  simpa [init] using (c19x_run_logs f t sched (init progs)).1

/-- **Clause "in any sequential history each underlying sample is loaded at most once between clears", for any number of
    readers** (gap 1).  `Serial`: whenever a reader takes a step every other reader is between two accesses (turn-taking: an
    access runs to completion before another reader's access starts; which reader goes next, and where the clears are, is
    arbitrary).  For every stretch `seg` of the run that contains no clear, the loads made during `seg` are pairwise distinct;
    the load log is the concatenation of the loads made before, during and after `seg`. -/
theorem serial_load_once (f : Nat → Val) (t : Val → Val) (progs : List (List Op)) (sched : List Nat)
    (hs : Serial f t sched (init progs)) (pre seg post : List Ev)
    (hsplit : events f t sched (init progs) = pre ++ seg ++ post) (hnc : Ev.clear ∉ seg) :
    (seg.filterMap loadIdx).Nodup ∧
      (run f t sched (init progs)).sh.loads = pre.filterMap loadIdx ++ seg.filterMap loadIdx ++ post.filterMap loadIdx := by
  constructor
  · have htake := c19x_events_take f t sched (init progs) (pre ++ seg) post hsplit
    have hser : Serial f t (sched.take (pre ++ seg).length) (init progs) := by
      apply c19x_serial_prefix f t _ (sched.drop (pre ++ seg).length)
      rw [List.take_append_drop]; exact hs
    have := c19x_serial_loads_nodup f t progs _ hser
    rw [c19x_trace_snd, htake] at this
    simp only [loadsSinceClear, List.foldl_append] at this
    rw [c19x_foldl_sinceClear_noclear seg _ hnc] at this
    exact (List.nodup_append.mp this).2.1
  · rw [load_log_is_load_events, hsplit]
    simp

/-- non-vacuity: three readers taking turns (reader 1 twice, a clear in between): the schedule is serial; between the clears
    no index is loaded twice although every reader accesses index 0 -/
example :
    Serial (fun i => 10 * i + 3) (· + 1000) [0, 0, 0, 1, 1, 2, 2, 1, 0, 0, 0, 1, 1]
      (init [[.get 0, .get 0], [.get 0, .clear, .get 0], [.get 0]]) ∧
    (run (fun i => 10 * i + 3) (· + 1000) [0, 0, 0, 1, 1, 2, 2, 1, 0, 0, 0, 1, 1]
      (init [[.get 0, .get 0], [.get 0, .clear, .get 0], [.get 0]])).sh.loads = [0, 0] := by decide

/-- the hypotheses of `serial_load_once` are jointly satisfiable: the stretch between the start and the clear of that run -/
example :
    ([Ev.contains 0 false, .load 0, .store 0, .contains 0 true, .read 0 true, .contains 0 true, .read 0 true].filterMap
      loadIdx).Nodup :=
  (serial_load_once (fun i => 10 * i + 3) (· + 1000) [[.get 0, .get 0], [.get 0, .clear, .get 0], [.get 0]]
    [0, 0, 0, 1, 1, 2, 2, 1, 0, 0, 0, 1, 1] (by decide) []
    [.contains 0 false, .load 0, .store 0, .contains 0 true, .read 0 true, .contains 0 true, .read 0 true]
    [.clear, .contains 0 false, .load 0, .store 0, .contains 0 true, .read 0 true] (by decide) (by decide)).1

/-- … and the hypothesis `Serial` is needed: with overlapping accesses two readers load the same index between clears -/
example :
    ¬ Serial (fun i => 10 * i + 3) (· + 1000) [0, 1, 0, 1, 0, 1] (init [[.get 0], [.get 0]]) ∧
    (run (fun i => 10 * i + 3) (· + 1000) [0, 1, 0, 1, 0, 1] (init [[.get 0], [.get 0]])).sh.loads = [0, 0] := by decide

/-- **Turn-taking runs of any number of readers are sequential histories** (gap 1, closed form).  `history`: the operations of
    all readers in the order in which they start (`contains i _ ↦ get i`, `clear ↦ clear`); `pending`: the load a reader has
    decided on (miss observed) but not made yet (at most one in a serial run).  The load log, completed by that pending load,
    is exactly what the sequential specification `loadsSpec` prescribes for the history: an index is loaded when it is accessed
    — by whichever reader — for the first time since the last clear, and at no other time. -/
theorem serial_loads_eq_loadsSpec (f : Nat → Val) (t : Val → Val) (progs : List (List Op)) (sched : List Nat)
    (hs : Serial f t sched (init progs)) :
    (run f t sched (init progs)).sh.loads ++ pending (run f t sched (init progs)) =
      loadsSpec (history (events f t sched (init progs))) [] := by
  rw [← c19x_trace_snd]
  exact c19x_serial_loads_spec f t progs sched hs

/-- … when no access is in flight at the end (every reader between two accesses): the load log is `loadsSpec` of the history,
    so `loads_once_between_clears` / `loaded_again_after_clear` apply to multi-reader serial runs verbatim -/
theorem serial_quiescent_loads_eq_loadsSpec (f : Nat → Val) (t : Val → Val) (progs : List (List Op)) (sched : List Nat)
    (hs : Serial f t sched (init progs)) (hq : ∀ rd ∈ (run f t sched (init progs)).readers, rd.pc = .idle) :
    (run f t sched (init progs)).sh.loads = loadsSpec (history (events f t sched (init progs))) [] := by
  rw [← serial_loads_eq_loadsSpec f t progs sched hs]
  have : pending (run f t sched (init progs)) = [] := by
    unfold pending
    rw [List.flatMap_eq_nil_iff]
    intro rd hrd
    rw [hq rd hrd]; rfl
  rw [this, List.append_nil]

/-- non-vacuity: the three readers taking turns from above: history and loads -/
example :
    let sched := [0, 0, 0, 1, 1, 2, 2, 1, 0, 0, 0, 1, 1]
    let progs : List (List Op) := [[.get 0, .get 0], [.get 0, .clear, .get 0], [.get 0]]
    history (events (fun i => 10 * i + 3) (· + 1000) sched (init progs)) = [.get 0, .get 0, .get 0, .clear, .get 0, .get 0] ∧
    (∀ rd ∈ (run (fun i => 10 * i + 3) (· + 1000) sched (init progs)).readers, rd.pc = .idle) ∧
    loadsSpec [.get 0, .get 0, .get 0, .clear, .get 0, .get 0] [] = [0, 0] := by decide

/-- **What a reader observes** (every schedule): a membership test (`contains`) or a read of index `i` answers "present"
    exactly if `i` was stored since the last clear (`storedSinceClear`: fold over the events so far, `store i ↦ true`,
    `clear ↦ false`). -/
theorem observation_iff_stored_since_clear (f : Nat → Val) (t : Val → Val) (progs : List (List Op)) (sched : List Nat)
    (pre post : List (Nat × Ev)) (r : Nat) (e : Ev) (i : Nat) (b : Bool)
    (h : trace f t sched (init progs) = pre ++ (r, e) :: post) (he : e = .contains i b ∨ e = .read i b) :
    b = storedSinceClear i (pre.map (·.2)) :=
  c19x_observation f t progs sched pre post r e i b h he

/-- **Clause "concurrent readers may load redundantly" — when a load happens** (gap 3, every schedule): a load of `i` by
    reader `r` is preceded by `r`'s own observation of a miss for `i` (its last step before the load), and at that observation
    `i` had not been stored since the last clear. -/
theorem load_follows_own_miss (f : Nat → Val) (t : Val → Val) (progs : List (List Op)) (sched : List Nat)
    (pre post : List (Nat × Ev)) (r : Nat) (i : Nat)
    (h : trace f t sched (init progs) = pre ++ (r, .load i) :: post) :
    ∃ p1 e p2, pre = p1 ++ (r, e) :: p2 ∧ (e = .contains i false ∨ e = .read i false) ∧ r ∉ p2.map (·.1) ∧
      storedSinceClear i (p1.map (·.2)) = false :=
  c19x_load_own_miss f t progs sched pre post r i h

/-- **Redundant loads are races** (gap 3, every schedule): if index `i` is loaded twice with no clear in between
    (`… (r₁, load i) … (r₂, load i) …`), then the two loads are made by different readers, and `r₂` observed its miss (last step
    of `r₂` before its load) at a moment when no store of `i` had happened since the last clear — in particular, if that
    moment lies after `r₁`'s load, no reader (so not `r₁` either) has stored `i` between `r₁`'s load and `r₂`'s observation. -/
theorem redundant_load_is_a_race (f : Nat → Val) (t : Val → Val) (progs : List (List Op)) (sched : List Nat)
    (a b c : List (Nat × Ev)) (r₁ r₂ i : Nat)
    (h : trace f t sched (init progs) = a ++ (r₁, .load i) :: b ++ (r₂, .load i) :: c)
    (hnc : Ev.clear ∉ b.map (·.2)) :
    r₁ ≠ r₂ ∧
    ∃ p1 e p2, a ++ (r₁, .load i) :: b = p1 ++ (r₂, e) :: p2 ∧ (e = .contains i false ∨ e = .read i false) ∧
      r₂ ∉ p2.map (·.1) ∧ storedSinceClear i (p1.map (·.2)) = false ∧
      ∀ b1, p1 = a ++ (r₁, .load i) :: b1 → Ev.store i ∉ b1.map (·.2) := by
  have h' : trace f t sched (init progs) = (a ++ (r₁, .load i) :: b) ++ (r₂, .load i) :: c := by simp [h]
  obtain ⟨p1, e, p2, hp, he, hn, hst⟩ := c19x_load_own_miss f t progs sched _ c r₂ i h'
  have hlast : ∀ b1, p1 = a ++ (r₁, .load i) :: b1 → Ev.store i ∉ b1.map (·.2) := by
    intro b1 hb1
    subst hb1
    have hb : b = b1 ++ (r₂, e) :: p2 := by
      have := hp
      simp only [List.append_assoc, List.cons_append] at this
      have := List.append_cancel_left this
      simpa using this
    have hnc1 : Ev.clear ∉ b1.map (·.2) := by
      intro hc; apply hnc; rw [hb]; simp only [List.map_append, List.mem_append]; exact Or.inl hc
    have hst' : storedSinceClear i ((a ++ [(r₁, Ev.load i)]).map (·.2) ++ b1.map (·.2)) = false := by
      rw [← hst]; simp
    exact c19x_not_stored_no_store i _ _ hnc1 hst'
  refine ⟨?_, p1, e, p2, hp, he, hn, hst, hlast⟩
  intro er
  subst er
  rcases List.append_eq_append_iff.mp hp with ⟨a', h1, h2⟩ | ⟨c', h1, h2⟩
  · cases a' with
    | nil =>
      simp only [List.nil_append, List.cons.injEq, Prod.mk.injEq, true_and] at h2
      rcases he with he | he <;> rw [he] at h2 <;> cases h2.1
    | cons x a'' =>
      simp only [List.cons_append, List.cons.injEq] at h2
      obtain ⟨hx, hb⟩ := h2
      subst hx
      have hp1 : p1 = a ++ (r₁, Ev.load i) :: a'' := by rw [h1]
      have hno := hlast a'' hp1
      by_cases hocc : r₁ ∈ a''.map (·.1)
      · obtain ⟨x1, e', x2, hx, hnx⟩ := c19x_first_occurrence r₁ a'' hocc
        have ht : trace f t sched (init progs) =
            a ++ (r₁, .load i) :: x1 ++ (r₁, e') :: (x2 ++ (r₁, e) :: p2 ++ (r₁, .load i) :: c) := by
          rw [h', hp, hp1, hx]; simp
        have := c19x_after_load_store f t progs sched a x1 _ r₁ i e' ht hnx
        subst this
        apply hno
        rw [hx]
        simp
      · have ht : trace f t sched (init progs) =
            a ++ (r₁, .load i) :: a'' ++ (r₁, e) :: (p2 ++ (r₁, .load i) :: c) := by
          rw [h', hp, hp1]; simp
        have := c19x_after_load_store f t progs sched a a'' _ r₁ i e ht hocc
        rcases he with he | he <;> rw [he] at this <;> cases this
  · cases c' with
    | nil =>
      simp only [List.nil_append, List.cons.injEq, Prod.mk.injEq, true_and] at h2
      rcases he with he | he <;> rw [he] at h2 <;> cases h2.1
    | cons x c'' =>
      simp only [List.cons_append, List.cons.injEq] at h2
      apply hn
      rw [h2.2]
      simp

/-- non-vacuity: the race — both readers test membership of index 0 before either has stored it, both load -/
example : trace (fun i => 10 * i + 3) (· + 1000) [0, 1, 0, 1, 0, 1] (init [[.get 0], [.get 0]]) =
    [(0, .contains 0 false), (1, .contains 0 false), (0, .load 0), (1, .load 0), (0, .store 0), (1, .store 0)] := by decide

/-- the hypotheses of `redundant_load_is_a_race` are satisfiable (that race): the two loads are by different readers -/
example : (0 : Nat) ≠ 1 :=
  (redundant_load_is_a_race (fun i => 10 * i + 3) (· + 1000) [[.get 0], [.get 0]] [0, 1, 0, 1, 0, 1]
    [(0, .contains 0 false), (1, .contains 0 false)] [] [(0, .store 0), (1, .store 0)] 0 1 0 (by decide) (by decide)).1

/-- **"… but observe equal values"** (gap 3): whatever any two readers have observed for the same index, at any two points of
    any schedule (before or after any clears, served from the cache or from a redundant load), is the same value, namely
    `transform (base i)`. -/
theorem observed_values_agree (f : Nat → Val) (t : Val → Val) (progs : List (List Op)) (sched sched' : List Nat)
    (r r' : Nat) (rd rd' : Reader) (i : Nat) (v v' : Val)
    (h : (run f t sched (init progs)).readers[r]? = some rd)
    (h' : (run f t sched' (init progs)).readers[r']? = some rd')
    (hv : Res.val i v ∈ rd.out) (hv' : Res.val i v' ∈ rd'.out) : v = t (f i) ∧ v' = t (f i) := by
  constructor
  · rcases every_get_returns_dataset_value f t progs sched r rd h _ hv with h1 | ⟨j, h1⟩
    · cases h1
    · cases h1; rfl
  · rcases every_get_returns_dataset_value f t progs sched' r' rd' h' _ hv' with h1 | ⟨j, h1⟩
    · cases h1
    · cases h1; rfl

/-- non-vacuity: the racing readers (one served by its own redundant load) and a reader after a clear all saw `1003` -/
example :
    (run (fun i => 10 * i + 3) (· + 1000) [0, 1, 0, 1, 0, 1, 2, 0, 0, 0] (init [[.get 0, .get 0], [.get 0], [.clear]])).readers.map
      (·.out) = [[.val 0 1003, .val 0 1003], [.val 0 1003], [.cleared]] := by decide

/-- **Clause "after a clear samples are loaded again", every schedule, any reader** (gap 4).  After a clear, the first access
    of index `i` that completes (by whichever reader `r`) is not served from the cache: it completes with `store i`, i.e. it is
    an access in which `r` itself has loaded `i` from the wrapped dataset (`r`'s previous step is `load i`). -/
theorem first_access_after_clear_loads (f : Nat → Val) (t : Val → Val) (progs : List (List Op)) (sched : List Nat)
    (pre mid post : List (Nat × Ev)) (rc r i : Nat) (e : Ev)
    (h : trace f t sched (init progs) = pre ++ (rc, .clear) :: mid ++ (r, e) :: post)
    (hdone : doneIdx e = some i) (hfirst : ∀ x ∈ mid, doneIdx x.2 ≠ some i) :
    e = .store i ∧ ∃ p1 p2, pre ++ (rc, .clear) :: mid = p1 ++ (r, .load i) :: p2 ∧ r ∉ p2.map (·.1) := by
  have h' : trace f t sched (init progs) = (pre ++ (rc, .clear) :: mid) ++ (r, e) :: post := by simp [h]
  have he : e = .store i := by
    cases e with
    | read j b =>
      cases b with
      | false => simp [doneIdx] at hdone
      | true =>
        simp only [doneIdx, Option.some.injEq] at hdone
        subst hdone
        have := c19x_observation f t progs sched _ post r _ j true h' (Or.inr rfl)
        rw [List.map_append, List.map_cons, c19x_stored_append_clear] at this
        rcases c19x_foldl_stored_true j _ false this.symm with hc | hc
        · cases hc
        · obtain ⟨x, hx, hx2⟩ := List.mem_map.mp hc
          exact absurd (by rw [hx2]; rfl) (hfirst x hx)
    | store j => simp only [doneIdx, Option.some.injEq] at hdone; rw [hdone]
    | contains j b => simp [doneIdx] at hdone
    | load j => simp [doneIdx] at hdone
    | clear => simp [doneIdx] at hdone
    | noop => simp [doneIdx] at hdone
  subst he
  exact ⟨rfl, c19x_store_own_load f t progs sched _ post r i h'⟩

/-- … and in turn-taking schedules that load happens after the clear (gap 4): between a clear and the first completed
    access of `i` after it, `i` is loaded from the wrapped dataset. -/
theorem serial_first_access_after_clear_reloads (f : Nat → Val) (t : Val → Val) (progs : List (List Op)) (sched : List Nat)
    (hs : Serial f t sched (init progs))
    (pre mid post : List (Nat × Ev)) (rc r i : Nat) (e : Ev)
    (h : trace f t sched (init progs) = pre ++ (rc, .clear) :: mid ++ (r, e) :: post)
    (hdone : doneIdx e = some i) (hfirst : ∀ x ∈ mid, doneIdx x.2 ≠ some i) :
    e = .store i ∧ (r, Ev.load i) ∈ mid := by
  obtain ⟨he, p1, p2, hp, hn⟩ := first_access_after_clear_loads f t progs sched pre mid post rc r i e h hdone hfirst
  refine ⟨he, ?_⟩
  rcases List.append_eq_append_iff.mp hp with ⟨a', h1, h2⟩ | ⟨c', h1, h2⟩
  · cases a' with
    | nil => simp at h2
    | cons x a'' =>
      simp only [List.cons_append, List.cons.injEq] at h2
      rw [h2.2]; simp
  · cases c' with
    | nil => simp at h2
    | cons x c'' =>
      -- the load would lie before the clear: `r` would be in the middle of an access while `rc` clears
      exfalso
      simp only [List.cons_append, List.cons.injEq] at h2
      obtain ⟨hx, hp2⟩ := h2
      subst hx
      have hrc : r ≠ rc := by
        intro e'; apply hn; rw [hp2, e']; simp
      have hn' : r ∉ c''.map (·.1) := by
        intro hc; apply hn; rw [hp2]; simp only [List.map_append, List.mem_append]; exact Or.inl hc
      have h2 : trace f t sched (init progs) = pre ++ (rc, .clear) :: (mid ++ (r, e) :: post) := by simp [h]
      obtain ⟨s1, s2, hsched, ht1, _, _⟩ := c19x_trace_split f t sched _ pre _ rc _ h2
      have hl : lastEvOf r (trace f t s1 (init progs)) = some (.load i) := by
        rw [ht1, h1]; exact c19x_lastEvOf_of_split r _ p1 c'' hn'
      rw [hsched] at hs
      have hidle := c19x_serial_at f t s1 s2 rc _ hs
      cases hrd : (run f t s1 (init progs)).readers[r]? with
      | none => cases c19x_absent_trace f t progs s1 r hrd _ hl
      | some rd =>
        have hA := c19x_pc_trace f t progs s1 r rd hrd
        rw [hl] at hA
        simp only [PcAfter] at hA
        rcases c19x_others rc _ hidle r rd hrd with e' | e'
        · exact hrc e'
        · rw [hA] at e'; cases e'

/-- non-vacuity (serial): reader 0 caches index 0, reader 1 clears, reader 2 accesses index 0: it is loaded again -/
example : trace (fun i => 10 * i + 3) (· + 1000) [0, 0, 0, 1, 2, 2, 2] (init [[.get 0], [.clear], [.get 0]]) =
    [(0, .contains 0 false), (0, .load 0), (0, .store 0), (1, .clear), (2, .contains 0 false), (2, .load 0), (2, .store 0)] ∧
    Serial (fun i => 10 * i + 3) (· + 1000) [0, 0, 0, 1, 2, 2, 2] (init [[.get 0], [.clear], [.get 0]]) := by decide

/-- the hypotheses of `serial_first_access_after_clear_reloads` are jointly satisfiable (that run, the clear by reader 1, the
    completion `store 0` by reader 2) -/
example : (2, Ev.load 0) ∈ [(2, Ev.contains 0 false), (2, Ev.load 0)] :=
  (serial_first_access_after_clear_reloads (fun i => 10 * i + 3) (· + 1000) [[.get 0], [.clear], [.get 0]]
    [0, 0, 0, 1, 2, 2, 2] (by decide) [(0, .contains 0 false), (0, .load 0), (0, .store 0)]
    [(2, .contains 0 false), (2, .load 0)] [] 1 2 0 (.store 0) (by decide) rfl (by decide)).2

/-- … and why the general theorem cannot place the load after the clear: with overlapping accesses the clear can fall
    between a reader's load and its store; the first access completed after the clear then stores (and returns) the sample it
    had loaded before the clear -/
example : trace (fun i => 10 * i + 3) (· + 1000) [0, 0, 1, 0] (init [[.get 0], [.clear]]) =
    [(0, .contains 0 false), (0, .load 0), (1, .clear), (0, .store 0)] := by decide

/-! ## Mutable payloads (gap 5)

`Val := Nat` cannot express aliasing.  `KDVerif.Model.C19Spec` is the same machine with samples as heap cells; the dict holds
the address of the cached cell, the transform overwrites the cell that is handed out.  `copy = true` models the
`deepcopy(sample)` at the end of `SharedDictDataset._cached_getitem`, `copy = false` the code before that repair. -/

section MutablePayloads
open KDVerif.Cache.Mut

/-- **The cache holds raw samples, also with in-place transforms** (every schedule, any number of readers, clears anywhere):
    with the copy, the cell cached under `i` holds `f i` — it is never the cell a transform has written to, because what is
    handed out is a fresh cell. -/
theorem mutable_cache_holds_raw_samples (f : Nat → Val) (t : Val → Val) (progs : List (List Op)) (sched : List Nat)
    (i a : Nat) (h : (mrun true f t sched (minit progs)).sh.dict i = some a) :
    (mrun true f t sched (minit progs)).sh.heap[a]? = some (f i) :=
  (c19x_mrun_inv f t sched _ (c19x_minit_inv f t progs)).1 i a h

/-- … in terms of `cachedContents`: nothing cached, or the raw sample -/
theorem mutable_cached_contents (f : Nat → Val) (t : Val → Val) (progs : List (List Op)) (sched : List Nat) (i : Nat) :
    cachedContents (mrun true f t sched (minit progs)) i = none ∨
      cachedContents (mrun true f t sched (minit progs)) i = some (f i) := by
  unfold cachedContents
  cases h : (mrun true f t sched (minit progs)).sh.dict i with
  | none => exact Or.inl rfl
  | some a => exact Or.inr (mutable_cache_holds_raw_samples f t progs sched i a h)

/-- **Transparency with in-place transforms**: with the copy every answer to `get i`, by every reader under every schedule,
    is `t (f i)` (the transform is applied exactly once to the raw sample, however often `i` was handed out before). -/
theorem mutable_every_get_returns_dataset_value (f : Nat → Val) (t : Val → Val) (progs : List (List Op)) (sched : List Nat)
    (r : Nat) (rd : Reader) (h : (mrun true f t sched (minit progs)).readers[r]? = some rd) :
    ∀ res ∈ rd.out, res = .cleared ∨ ∃ i, res = .val i (t (f i)) :=
  (c19x_mrun_inv f t sched _ (c19x_minit_inv f t progs)).2.2 r rd h

/-- non-vacuity: one reader, `get 0` twice: cell 0 is the cached raw sample, cells 1 and 2 are the two copies handed out -/
example :
    let s := mrun true (fun i => 10 * i + 3) (· + 1000) [0, 0, 0, 0, 0] (minit [[.get 0, .get 0]])
    s.sh.dict 0 = some 0 ∧ s.sh.heap = [3, 1003, 1003] ∧ s.readers.map (·.out) = [[.val 0 1003, .val 0 1003]] := by decide

/-- **The defect that was repaired**: WITHOUT the copy the property fails — after a single access the cached cell holds the
    transformed sample … -/
theorem without_copy_cache_is_corrupted :
    ¬ ∀ (f : Nat → Val) (t : Val → Val) (progs : List (List Op)) (sched : List Nat) (i a : Nat),
        (mrun false f t sched (minit progs)).sh.dict i = some a →
        (mrun false f t sched (minit progs)).sh.heap[a]? = some (f i) := by
  intro h
  have := h (fun i => 10 * i + 3) (· + 1000) [[.get 0]] [0, 0, 0] 0 0 (by decide)
  revert this
  decide

/-- … and the second access to the same index returns the sample transformed twice (`2003` instead of `1003`) -/
example :
    let s := mrun false (fun i => 10 * i + 3) (· + 1000) [0, 0, 0, 0, 0] (minit [[.get 0, .get 0]])
    s.sh.dict 0 = some 0 ∧ s.sh.heap = [2003] ∧ s.readers.map (·.out) = [[.val 0 1003, .val 0 2003]] := by decide

end MutablePayloads

end KDVerif.C19
