/-
C16 — Label-rewriting wrappers are coherent, in range and reproducible.

Model: `KDVerif/Model/Labels.lean` (one constructor / per-sample accessor / bulk accessor per wrapper, mirroring the
code after the three repairs of this round). `forRange n f` is the list comprehension `[f(i) for i in range(n)]`
with Python's exception order, so `getall = forRange len getitem` reads "the bulk accessor returns exactly what
the per-sample accessor returns, entry by entry, and raises exactly when (and what) the first failing per-sample
call raises". `InRange nc l` is `l = -1 ∨ 0 ≤ l < nc`. Tapes are universally quantified; the generators'
contracts appear as hypotheses.

Interpretation: bulk = per-sample is claimed for the eight wrappers that *rewrite* labels; the two *encoding*
wrappers (label smoothing, one-hot) define no bulk accessor on purpose: their bulk path yields the class index and
the statement is that this index is the (strict, for smoothing < 1) argmax of the per-sample encoding.
-/
import KDVerif.Lemmas.Labels
import KDVerif.Lemmas.LabelsEnc

namespace KDVerif.C16
open KDVerif.Labels

/-! ## ClassGroupsWrapper -/

/-- bulk accessor = per-sample accessor, for every state (any table, any layout, any group size) -/
theorem classGroups_bulk_eq_items (st : CG) : cgGetall st = forRange st.labels.length (cgGetitem st) :=
  forEnum_eq_forRange (cgMap st) (cgGetitem st) st.labels
    (fun j hj => by simp [cgGetitem, dsGet, listGet_of_lt _ _ hj])

/-- **range**: if the group size divides the class count, every label the wrapper produces (per sample or in bulk)
    lies in `0 .. nc-1`, the range announced by the (delegated) class-shape query — for every layout and for every
    result of `rng.permuted` that is a rearrangement of the group table -/
theorem classGroups_in_range (labels : List Int) (nc cpg : Nat) (shuffle : Bool) (permuted : List Nat) (st : CG)
    (hdiv : cpg ∣ nc) (hperm : shuffle = true → permuted.Perm (cgTable0 nc cpg))
    (hctor : cgCtor labels nc cpg shuffle permuted = .ok st) :
    (∀ i l, cgGetitem st i = .ok l → 0 ≤ l ∧ l < (nc : Int)) ∧
    (∀ out, cgGetall st = .ok out → ∀ l ∈ out, 0 ≤ l ∧ l < (nc : Int)) := by
  unfold cgCtor at hctor
  by_cases h0 : cpg = 0
  · simp [h0] at hctor
  · simp only [h0, if_false, Except.ok.injEq] at hctor
    have hpos : 0 < cpg := Nat.pos_of_ne_zero h0
    obtain ⟨k, rfl⟩ := hdiv
    have hq : ceilDiv (cpg * k) cpg = k := ceilDiv_of_dvd cpg k hpos
    have htab : ∀ g ∈ st.table, g < k := by
      intro g hg
      rw [← hctor] at hg
      simp only at hg
      rw [← hq]
      cases hs : shuffle with
      | true =>
        rw [hs] at hg
        simp only [if_true] at hg
        exact mem_cgTable0 ((hperm hs).mem_iff.mp hg)
      | false =>
        rw [hs] at hg
        exact mem_cgTable0 (by simpa using hg)
    have hcpg : st.cpg = cpg := by rw [← hctor]
    have hmap : ∀ i c l, cgMap st i c = .ok l → 0 ≤ l ∧ l < ((cpg * k : Nat) : Int) := by
      intro i c l h
      unfold cgMap at h
      cases hg : pyGet st.table c with
      | error e => rw [hg] at h; cases h
      | ok g =>
        rw [hg] at h
        cases hw : listGet st.within i with
        | error e => rw [hw] at h; cases h
        | ok w =>
          rw [hw] at h
          simp only [Except.ok.injEq] at h
          subst h
          have hgk := htab g (pyGet_mem hg)
          rw [hcpg]
          have h1 : (g + 1) * cpg ≤ k * cpg := Nat.mul_le_mul_right cpg hgk
          rw [Nat.succ_mul] at h1
          have h2 : w % cpg < cpg := Nat.mod_lt w hpos
          have h3 : cpg * k = k * cpg := Nat.mul_comm _ _
          constructor
          · exact Int.natCast_nonneg _
          · exact Int.ofNat_lt.mpr (by omega)
    constructor
    · intro i l h
      unfold cgGetitem at h
      cases hd : dsGet st.labels i with
      | error e => rw [hd] at h; cases h
      | ok c => rw [hd] at h; exact hmap i c l h
    · intro out h l hl
      obtain ⟨i, c, _, hc⟩ := forEnumFrom_mem st.labels 0 out h l hl
      exact hmap i c l hc

/-- no accessor raises for labels inside `0 .. nc-1`: the group table has at least `nc` entries (exactly `nc` when the
    group size divides the class count) and the per-class counter has one entry per sample -/
theorem classGroups_total (labels : List Int) (nc cpg : Nat) (shuffle : Bool) (permuted : List Nat) (st : CG)
    (hl : ∀ c ∈ labels, 0 ≤ c ∧ c < (nc : Int)) (hperm : shuffle = true → permuted.Perm (cgTable0 nc cpg))
    (hctor : cgCtor labels nc cpg shuffle permuted = .ok st) :
    ∃ out, cgGetall st = .ok out ∧ out.length = labels.length := by
  unfold cgCtor at hctor
  by_cases h0 : cpg = 0
  · simp [h0] at hctor
  · simp only [h0, if_false, Except.ok.injEq] at hctor
    have hpos : 0 < cpg := Nat.pos_of_ne_zero h0
    have htl : nc ≤ st.table.length := by
      rw [← hctor]
      simp only
      have := le_ceilDiv_mul nc cpg hpos
      cases hs : shuffle with
      | true => simp only [if_true]; rw [(hperm hs).length_eq, cgTable0_length]; exact this
      | false => simp only [Bool.false_eq_true, if_false]; rw [cgTable0_length]; exact this
    have hwl : st.within.length = labels.length := by
      rw [← hctor]; exact idxWithinGo_length labels []
    have hlab : st.labels = labels := by rw [← hctor]
    rw [classGroups_bulk_eq_items, hlab]
    obtain ⟨ys, hys, hlen⟩ := mapE_total (f := cgGetitem st) (List.range labels.length) (by
      intro i hi
      have hi' : i < labels.length := List.mem_range.mp hi
      have hc := hl labels[i] (List.getElem_mem hi')
      have hc2 : labels[i].toNat < st.table.length := by omega
      have hi2 : i < st.within.length := by omega
      refine ⟨((st.table[labels[i].toNat] * st.cpg + st.within[i] % st.cpg : Nat) : Int), ?_⟩
      unfold cgGetitem cgMap
      simp only [hlab, dsGet, listGet_of_lt _ _ hi', pyGet_of_lt _ _ hc.1 hc2, listGet_of_lt _ _ hi2])
    exact ⟨ys, hys, by simpa using hlen⟩

/-- non-vacuity: 6 classes in groups of 2, shuffled table, a layout with a repeated class -/
example : ∃ st, cgCtor [0, 5, 0, 3] 6 2 true [1, 0, 2, 2, 0, 1] = .ok st ∧
    [1, 0, 2, 2, 0, 1].Perm (cgTable0 6 2) ∧ cgGetall st = .ok [2, 2, 3, 4] :=
  ⟨_, rfl, by decide, by decide⟩

/-! ## RandomSuperclassWrapper -/

theorem randomSuperclass_bulk_eq_items (st : RS) : rsGetall st = forRange st.labels.length (rsGetitem st) :=
  forEnum_eq_forRange (rsMap st) (rsGetitem st) st.labels
    (fun j hj => by simp [rsGetitem, dsGet, listGet_of_lt _ _ hj])

/-- **range**: every produced label is below `getshape_class()[0] = ceil(nc / classes_per_superclass) * splits`,
    for every class permutation drawn, every split bookkeeping and every layout (`splits ≥ 1`) -/
theorem randomSuperclass_in_range (labels : List Int) (nc cps splits : Nat) (shuffle : Bool) (perm1 perm2 : List Nat)
    (st : RS) (hs : 1 ≤ splits) (hperm : shuffle = true → perm1.Perm (List.range nc))
    (hctor : rsCtor labels nc cps splits shuffle perm1 perm2 = .ok st) :
    (∀ i l, rsGetitem st i = .ok l → 0 ≤ l ∧ l < (rsShape st : Int)) ∧
    (∀ out, rsGetall st = .ok out → ∀ l ∈ out, 0 ≤ l ∧ l < (rsShape st : Int)) := by
  unfold rsCtor at hctor
  by_cases h0 : cps = 0
  · simp [h0] at hctor
  · simp only [h0, if_false, Except.ok.injEq] at hctor
    have hpos : 0 < cps := Nat.pos_of_ne_zero h0
    have hperm' : ∀ p ∈ st.perm, p < nc := by
      intro p hp
      rw [← hctor] at hp
      simp only at hp
      cases hsf : shuffle with
      | true =>
        rw [hsf] at hp
        simp only [if_true] at hp
        exact List.mem_range.mp ((hperm hsf).mem_iff.mp hp)
      | false =>
        rw [hsf] at hp
        exact List.mem_range.mp (by simpa using hp)
    have hcps : st.cps = cps := by rw [← hctor]
    have hog : st.og = ceilDiv nc cps := by rw [← hctor]
    have hsp : st.splits = splits := by rw [← hctor]
    have hwithin : st.within = none → splits = 1 := by
      intro hn
      rw [← hctor] at hn
      simp only at hn
      by_cases h1 : splits > 1
      · simp [h1] at hn
      · omega
    have hmap : ∀ i c l, rsMap st i c = .ok l → 0 ≤ l ∧ l < (rsShape st : Int) := by
      intro i c l h
      unfold rsMap at h
      cases hg : pyGet st.perm c with
      | error e => rw [hg] at h; cases h
      | ok p =>
        rw [hg] at h
        simp only at h
        have hp := hperm' p (pyGet_mem hg)
        have hdiv := div_lt_ceilDiv p nc cps hpos hp
        unfold rsShape
        rw [hog, hsp]
        cases hw : st.within with
        | none =>
          rw [hw] at h
          simp only [Except.ok.injEq] at h
          subst h
          rw [hcps, hwithin hw]
          exact ⟨Int.natCast_nonneg _, Int.ofNat_lt.mpr (by omega)⟩
        | some ws =>
          rw [hw] at h
          simp only at h
          cases hl : listGet ws i with
          | error e => rw [hl] at h; cases h
          | ok w =>
            rw [hl] at h
            simp only [Except.ok.injEq] at h
            subst h
            rw [hcps, hsp, hog]
            have h2 : w % splits < splits := Nat.mod_lt w (by omega)
            have h3 : (w % splits + 1) * ceilDiv nc cps ≤ splits * ceilDiv nc cps := Nat.mul_le_mul_right _ h2
            rw [Nat.succ_mul] at h3
            have h4 : ceilDiv nc cps * splits = splits * ceilDiv nc cps := Nat.mul_comm _ _
            exact ⟨Int.natCast_nonneg _, Int.ofNat_lt.mpr (by omega)⟩
    constructor
    · intro i l h
      unfold rsGetitem at h
      cases hd : dsGet st.labels i with
      | error e => rw [hd] at h; cases h
      | ok c => rw [hd] at h; exact hmap i c l h
    · intro out h l hl
      obtain ⟨i, c, _, hc⟩ := forEnumFrom_mem st.labels 0 out h l hl
      exact hmap i c l hc

/-- non-vacuity: 5 classes, superclasses of 2, 2 splits, both permutations drawn -/
example : ∃ st, rsCtor [0, 4, 0, 2] 5 2 2 true [3, 0, 4, 1, 2] [2, 0, 3, 1] = .ok st ∧
    [3, 0, 4, 1, 2].Perm (List.range 5) ∧ rsShape st = 6 ∧ rsGetall st = .ok [4, 1, 1, 2] :=
  ⟨_, rfl, by decide, by decide, by decide⟩

/-! ## SwapLabelWrapper -/

/-- bulk = per-sample over `len(dataset)` entries, when the generator returned `size` entries per draw -/
theorem swap_bulk_eq_items (labels : List Int) (p : Rat) (us : List Rat) (news : List Int) (st : SW)
    (hus : us.length = labels.length) (hnews : news.length = labels.length)
    (hctor : swCtor labels p us news = .ok st) :
    swGetall st = forRange labels.length (swGetitem st) := by
  unfold swCtor at hctor
  by_cases hp : 0 ≤ p ∧ p ≤ 1
  · simp only [hp, and_self, if_true, Except.ok.injEq] at hctor
    have hlen : st.classes.length = labels.length := by
      rw [← hctor]
      simp [hus, hnews]
    rw [← hlen]
    exact (forRange_listGet st.classes).symm
  · simp [hp] at hctor

/-- **range**: swapped-in labels come from `integers(0, nc)`, kept labels are the original ones -/
theorem swap_in_range (labels : List Int) (nc : Nat) (p : Rat) (us : List Rat) (news : List Int) (st : SW)
    (hl : ∀ c ∈ labels, InRange nc c) (hn : ∀ v ∈ news, 0 ≤ v ∧ v < (nc : Int))
    (hctor : swCtor labels p us news = .ok st) :
    (∀ i l, swGetitem st i = .ok l → InRange nc l) ∧ (∀ out, swGetall st = .ok out → ∀ l ∈ out, InRange nc l) := by
  unfold swCtor at hctor
  by_cases hp : 0 ≤ p ∧ p ≤ 1
  · simp only [hp, and_self, if_true, Except.ok.injEq] at hctor
    have hall : ∀ l ∈ st.classes, InRange nc l := by
      rw [← hctor]
      apply zipWith_all
      intro x hx y hy
      by_cases hx1 : x.1 = true
      · simp only [hx1, if_true]
        exact Or.inr (hn x.2 (List.of_mem_zip hx).2)
      · simp only [hx1]
        exact hl y hy
    constructor
    · intro i l h
      exact hall l (listGet_mem h)
    · intro out h l hlm
      simp only [swGetall, Except.ok.injEq] at h
      subst h
      exact hall l hlm
  · simp [hp] at hctor

/-- non-vacuity -/
example : ∃ st, swCtor [0, -1, 2] (1 / 2) [1 / 4, 3 / 4, 1 / 8] [1, 1, 0] = .ok st ∧ swGetall st = .ok [1, -1, 0] :=
  ⟨⟨[1, -1, 0], [true, false, true]⟩, by decide +kernel, by decide⟩

/-! ## OverwriteClassesWrapper -/

/-- the bulk accessor is the comprehension over the per-sample accessor (the repaired code) … -/
theorem overwrite_bulk_eq_items (st : OW) : owGetall st = forRange st.n (owGetitem st) := rfl

/-- … and therefore returns the overwriting table, not the wrapped dataset's labels -/
theorem overwrite_bulk_is_table (labels classes : List Int) (st : OW) (hctor : owCtor labels classes = .ok st) :
    owGetall st = .ok classes := by
  unfold owCtor at hctor
  by_cases h : classes.length = labels.length
  · simp only [h, if_true, Except.ok.injEq] at hctor
    subst hctor
    unfold owGetall
    simp only
    rw [← h]
    exact forRange_listGet classes
  · simp [h] at hctor

/-- **range**: the produced labels are the table's entries (in range iff the table given is) -/
theorem overwrite_in_range (labels classes : List Int) (nc : Nat) (st : OW) (hc : ∀ c ∈ classes, InRange nc c)
    (hctor : owCtor labels classes = .ok st) :
    (∀ i l, owGetitem st i = .ok l → InRange nc l) ∧ (∀ out, owGetall st = .ok out → ∀ l ∈ out, InRange nc l) := by
  have hb := overwrite_bulk_is_table labels classes st hctor
  unfold owCtor at hctor
  by_cases h : classes.length = labels.length
  · simp only [h, if_true, Except.ok.injEq] at hctor
    constructor
    · intro i l hi
      subst hctor
      exact hc l (listGet_mem hi)
    · intro out ho l hl
      rw [hb] at ho
      cases ho
      exact hc l hl
  · simp [h] at hctor

example : ∃ st, owCtor [0, 1, 2] [2, -1, 0] = .ok st ∧ owGetall st = .ok [2, -1, 0] := ⟨_, rfl, by decide⟩

/-! ## AllgatherClassWrapper -/

/-- the bulk accessor applies the index map once: it is the comprehension over the per-sample accessor -/
theorem allgather_bulk_eq_items (st : AG) : agGetall st = forRange st.labels.length (agGetitem st) := rfl

/-- **domain**: for `0 < world_size ≤ len(dataset)` the constructor succeeds (the padding fits, the padded length is
    a multiple of the world size), the index table has one entry per sample and every entry is a valid sample index -/
theorem allgather_indices_ok (n W : Nat) (hW : 0 < W) (hWn : W ≤ n) :
    ∃ ix, agIndices n W = .ok ix ∧ ix.length = n ∧ ∀ j ∈ ix, j < n := by
  unfold agIndices
  have hW0 : ¬ W = 0 := by omega
  simp only [hW0, if_false]
  have hpadlt := padCount_lt n W hW
  have hdiv := pad_divides n W hW
  by_cases hpad : padCount n W > 0
  · simp only [hpad, if_true]
    have hlen1 : (List.range n ++ (List.range n).take (padCount n W)).length = n + padCount n W := by
      simp only [List.length_append, List.length_range, List.length_take]
      omega
    cases hr : rearrange (List.range n ++ (List.range n).take (padCount n W)) W with
    | error e =>
      unfold rearrange at hr
      rw [hlen1] at hr
      simp [hdiv] at hr
    | ok ys =>
      have hl := rearrange_length hr
      rw [hlen1] at hl
      refine ⟨_, rfl, ?_, ?_⟩
      · rw [List.length_take]; omega
      · intro j hj
        have hj' := rearrange_mem hr j (List.mem_of_mem_take hj)
        rcases List.mem_append.mp hj' with h | h
        · exact List.mem_range.mp h
        · exact List.mem_range.mp (List.mem_of_mem_take h)
  · simp only [hpad, if_false]
    have hp0 : padCount n W = 0 := by omega
    rw [hp0, Nat.add_zero] at hdiv
    cases hr : rearrange (List.range n) W with
    | error e =>
      unfold rearrange at hr
      simp only [List.length_range] at hr
      simp [hdiv] at hr
    | ok ys =>
      have hl := rearrange_length hr
      refine ⟨_, rfl, ?_, ?_⟩
      · simpa using hl
      · intro j hj
        exact List.mem_range.mp (rearrange_mem hr j hj)

/-- **range**: every produced label is one of the wrapped dataset's labels (the wrapper only permutes them) -/
theorem allgather_in_range (st : AG) (nc : Nat) (hl : ∀ c ∈ st.labels, InRange nc c) :
    (∀ i l, agGetitem st i = .ok l → InRange nc l) ∧ (∀ out, agGetall st = .ok out → ∀ l ∈ out, InRange nc l) := by
  have hitem : ∀ i l, agGetitem st i = .ok l → InRange nc l := by
    intro i l h
    unfold agGetitem at h
    cases hj : listGet st.indices i with
    | error e => rw [hj] at h; cases h
    | ok j => rw [hj] at h; exact hl l (listGet_mem h)
  refine ⟨hitem, ?_⟩
  intro out h l hlm
  obtain ⟨i, _, hi⟩ := mapE_mem _ out h l hlm
  exact hitem i l hi

/-- **domain, continued**: for `0 < world_size ≤ len(dataset)` no accessor raises — the bulk accessor returns one label
    per sample -/
theorem allgather_total (labels : List Int) (W : Nat) (st : AG) (hW : 0 < W) (hWn : W ≤ labels.length)
    (hctor : agCtor labels W = .ok st) : ∃ out, agGetall st = .ok out ∧ out.length = labels.length := by
  obtain ⟨ix, hix, hlen, hlt⟩ := allgather_indices_ok labels.length W hW hWn
  unfold agCtor at hctor
  rw [hix] at hctor
  simp only [Except.ok.injEq] at hctor
  subst hctor
  unfold agGetall forRange
  simp only
  obtain ⟨ys, hys, hl⟩ := mapE_total (f := agGetitem ⟨labels, ix⟩) (List.range labels.length) (by
    intro i hi
    have hi' : i < ix.length := by rw [hlen]; exact List.mem_range.mp hi
    have hj : ix[i] < labels.length := hlt _ (List.getElem_mem hi')
    exact ⟨labels[ix[i]], by simp [agGetitem, listGet_of_lt _ _ hi', dsGet, listGet_of_lt _ _ hj]⟩)
  exact ⟨ys, hys, by simpa using hl⟩

/-- non-vacuity (the layout of the recorded counterexample: 7 samples on 2 ranks) -/
example : ∃ st, agCtor [0, 1, 2, 3, 4, 5, 6] 2 = .ok st ∧ st.indices = [0, 2, 4, 6, 1, 3, 5] ∧
    agGetall st = .ok [0, 2, 4, 6, 1, 3, 5] := ⟨_, rfl, by decide, by decide⟩

/-! ## KDPseudoLabelWrapper -/

/-- the bulk accessor either is `NotImplementedError` (sampled pseudo labels: `topk` / `tau` given) or equals the
    per-sample accessor entry by entry — whatever the draws `d` (none is read on that path); hard tables, argmax of
    soft tables and thresholded soft tables alike -/
theorem pseudoLabel_bulk_eq_items_or_notImplemented (n C : Nat) (table : PTable) (thr : Option (List Bool))
    (topk : Option Nat) (tau : Tau) (topkIdx : List (List Nat)) (st : PL)
    (hctor : plCtor n C table thr topk tau topkIdx = .ok st) :
    plGetall st = .error .notImplemented ∨
      ∀ d : Nat → Nat, plGetall st = forRange st.n (fun i => plGetitem st i (d i)) := by
  by_cases hsamp : st.tau ≠ .none ∨ st.topk.isSome
  · left; simp [plGetall, hsamp]
  · right
    intro d
    have htau : st.tau = .none := by
      cases ht : st.tau <;> simp_all
    have htopk : st.topk = none := by
      cases hk : st.topk <;> simp_all
    have hitem : ∀ i dr, plGetitem st i dr = plGetitem st i 0 := by
      intro i dr
      simp [plGetitem, htopk]
    unfold plGetall
    simp only [hsamp, if_false]
    by_cases hthr : st.thr.isSome
    · simp only [hthr, if_true]
      exact forRange_congr _ (fun i _ => (hitem i (d i)).symm)
    · simp only [hthr]
      have hthr' : st.thr = none := by
        cases h : st.thr <;> simp_all
      unfold plCtor at hctor
      cases htab : table with
      | hard ls =>
        rw [htab] at hctor
        by_cases hl : ls.length = n
        · simp only [hl, if_true, Except.ok.injEq] at hctor
          have e1 : st.table = .hard ls := by rw [← hctor]
          have e2 : st.n = n := by rw [← hctor]
          rw [e1, e2, ← hl]
          simp only [Bool.false_eq_true, if_false]
          rw [← forRange_listGet ls]
          apply forRange_congr
          intro i _
          simp [plGetitem, htopk, htau, e1, hthr']
        · simp [hl] at hctor
      | soft rows =>
        rw [htab] at hctor
        simp only at hctor
        by_cases hl : rows.length = n ∧ rows.all (fun r => r.length == C) = true
        · rw [if_pos hl] at hctor
          simp only [Except.ok.injEq] at hctor
          have e1 : st.table = .soft rows := by rw [← hctor]
          have e2 : st.n = n := by rw [← hctor]
          rw [e1, e2, ← hl.1]
          simp only [Bool.false_eq_true, if_false]
          rw [← forEnumFrom_pure' (fun r => (argmax r : Int)) rows 0]
          apply forEnum_eq_forRange
          intro j hj
          simp [plGetitem, htopk, htau, e1, hthr', listGet_of_lt _ _ hj]
        · rw [if_neg hl] at hctor; cases hctor

/-- **range**: hard labels are the table's entries; argmax / thresholded labels are a column position or -1;
    sampled labels are one of the top-k positions — all below the class count the constructor checked the table
    against (`torch.topk` returns positions of the row: hypothesis `htk`) -/
theorem pseudoLabel_in_range (n C : Nat) (table : PTable) (thr : Option (List Bool))
    (topk : Option Nat) (tau : Tau) (topkIdx : List (List Nat)) (st : PL) (hC : 0 < C)
    (hhard : ∀ ls, table = .hard ls → ∀ c ∈ ls, InRange C c)
    (htk : ∀ ids ∈ topkIdx, ∀ c ∈ ids, c < C)
    (hctor : plCtor n C table thr topk tau topkIdx = .ok st) :
    (∀ i d l, plGetitem st i d = .ok l → InRange C l) ∧ (∀ out, plGetall st = .ok out → ∀ l ∈ out, InRange C l) := by
  have hst : st.table = table ∧ st.topkIdx = topkIdx ∧
      (∀ rows, table = .soft rows → ∀ r ∈ rows, r.length = C) := by
    unfold plCtor at hctor
    cases htab : table with
    | hard ls =>
      rw [htab] at hctor
      by_cases hl : ls.length = n
      · simp only [hl, if_true, Except.ok.injEq] at hctor
        subst hctor
        exact ⟨rfl, rfl, fun rows h => by cases h⟩
      · simp [hl] at hctor
    | soft rows =>
      rw [htab] at hctor
      simp only at hctor
      by_cases hl : rows.length = n ∧ rows.all (fun r => r.length == C) = true
      · rw [if_pos hl] at hctor
        simp only [Except.ok.injEq] at hctor
        subst hctor
        refine ⟨rfl, rfl, fun rows' h r hr => ?_⟩
        cases h
        have := List.all_eq_true.mp hl.2 r hr
        simpa using this
      · rw [if_neg hl] at hctor; cases hctor
  obtain ⟨e1, e2, hrows⟩ := hst
  have hargmax : ∀ rows, table = .soft rows → ∀ r ∈ rows, InRange C (argmax r : Int) := by
    intro rows h r hr
    have hlen := hrows rows h r hr
    have := argmax_lt r (by omega)
    exact Or.inr ⟨Int.natCast_nonneg _, Int.ofNat_lt.mpr (by omega)⟩
  have hitem : ∀ i d l, plGetitem st i d = .ok l → InRange C l := by
    intro i d l h
    unfold plGetitem at h
    rw [e1, e2] at h
    cases hk : st.topk with
    | some k =>
      rw [hk] at h
      simp only at h
      by_cases ht : st.thr.isSome
      · simp [ht] at h
      · simp only [ht] at h
        cases htab : table with
        | hard ls => rw [htab] at h; simp at h
        | soft rows =>
          rw [htab] at h
          simp only at h
          cases hr : listGet rows i with
          | error e => rw [hr] at h; simp at h
          | ok row =>
            rw [hr] at h
            simp only at h
            by_cases hkr : k > row.length
            · simp [hkr] at h
            · simp only [hkr, if_false] at h
              cases hti : topkIdx[i]? with
              | none => rw [hti] at h; simp at h
              | some ids =>
                rw [hti] at h
                simp only at h
                cases hc : listGet ids d with
                | error e => rw [hc] at h; simp at h
                | ok c =>
                  rw [hc] at h
                  simp only [Bool.false_eq_true, if_false, Except.ok.injEq] at h
                  subst h
                  have := htk ids (List.mem_of_getElem? hti) c (listGet_mem hc)
                  exact Or.inr ⟨Int.natCast_nonneg _, Int.ofNat_lt.mpr this⟩
    | none =>
      rw [hk] at h
      simp only at h
      by_cases htau : st.tau ≠ .none
      · simp [htau] at h
      · simp only [htau, if_false] at h
        cases htab : table with
        | hard ls =>
          rw [htab] at h
          simp only at h
          by_cases ht : st.thr.isSome
          · simp [ht] at h
          · simp only [ht] at h
            exact hhard ls htab l (listGet_mem h)
        | soft rows =>
          rw [htab] at h
          simp only at h
          cases hr : listGet rows i with
          | error e => rw [hr] at h; simp at h
          | ok row =>
            rw [hr] at h
            simp only at h
            have hrow := hargmax rows htab row (listGet_mem hr)
            cases hthr : st.thr with
            | none =>
              rw [hthr] at h
              simp only [Except.ok.injEq] at h
              subst h
              exact hrow
            | some bits =>
              rw [hthr] at h
              simp only at h
              cases hb : bits[i]? with
              | none => rw [hb] at h; simp at h
              | some b =>
                rw [hb] at h
                simp only [Except.ok.injEq] at h
                subst h
                cases b
                · exact Or.inl rfl
                · exact hrow
  refine ⟨hitem, ?_⟩
  intro out h l hl
  unfold plGetall at h
  by_cases hsamp : st.tau ≠ .none ∨ st.topk.isSome
  · simp [hsamp] at h
  · simp only [hsamp, if_false] at h
    by_cases hthr : st.thr.isSome
    · simp only [hthr, if_true] at h
      obtain ⟨i, _, hi⟩ := mapE_mem _ out h l hl
      exact hitem i 0 l hi
    · simp only [hthr] at h
      rw [e1] at h
      cases htab : table with
      | hard ls =>
        rw [htab] at h
        simp only [Bool.false_eq_true, if_false, Except.ok.injEq] at h
        subst h
        exact hhard ls htab l hl
      | soft rows =>
        rw [htab] at h
        simp only [Bool.false_eq_true, if_false, Except.ok.injEq] at h
        subst h
        obtain ⟨r, hr, rfl⟩ := List.mem_map.mp hl
        exact hargmax rows htab r hr

/-- non-vacuity: thresholded soft table (first row below the threshold), and a top-2 table -/
example : ∃ st, plCtor 2 3 (.soft [[1, 1, 1], [0, 3, 1]]) (some [false, true]) none .none [] = .ok st ∧
    plGetall st = .ok [-1, 1] ∧ plGetitem st 0 0 = .ok (-1) ∧ plGetitem st 1 0 = .ok 1 :=
  ⟨_, rfl, by decide, by decide, by decide⟩

example : ∃ st, plCtor 2 3 (.soft [[1, 1, 1], [0, 3, 1]]) none (some 2) .inf [[0, 1], [1, 2]] = .ok st ∧
    plGetall st = .error .notImplemented ∧ plGetitem st 1 1 = .ok 2 :=
  ⟨_, rfl, by decide, by decide⟩

/-! ## KDRandomClassWrapper -/

theorem randomClass_bulk_eq_items (classes : List Nat) :
    rcGetall classes = forRange classes.length (rcGetitem classes) := by
  unfold rcGetall
  rw [← forEnumFrom_pure' (fun (c : Nat) => (c : Int)) classes 0]
  apply forEnum_eq_forRange
  intro j hj
  simp [rcGetitem, listGet_of_lt _ _ hj]

/-- **range**: in each of the three modes every generated class is below `num_classes = getshape_class()[0]`
    (`randint` draws below `nc`; `randperm` is a permutation of `range nc`; the gather mode rearranges `arange`) -/
theorem randomClass_in_range (n nc : Nat) (mode : RCMode) (ints perm classes : List Nat)
    (hints : ∀ v ∈ ints, v < nc) (hperm : perm.Perm (List.range nc))
    (hctor : rcCtor n nc mode ints perm = .ok classes) :
    (∀ c ∈ classes, c < nc) ∧ (∀ i l, rcGetitem classes i = .ok l → 0 ≤ l ∧ l < (nc : Int)) ∧
    (∀ out, rcGetall classes = .ok out → ∀ l ∈ out, 0 ≤ l ∧ l < (nc : Int)) := by
  have hcl : ∀ c ∈ classes, c < nc := by
    unfold rcCtor at hctor
    cases mode with
    | random =>
      simp only [Except.ok.injEq] at hctor
      subst hctor
      exact hints
    | randperm =>
      simp only at hctor
      by_cases h0 : nc = 0
      · simp [h0] at hctor
      · simp only [h0, if_false, Except.ok.injEq] at hctor
        subst hctor
        intro c hc
        unfold repeatTake at hc
        have h1 := List.mem_of_mem_take hc
        simp only [List.mem_flatten, List.mem_replicate] at h1
        obtain ⟨l, ⟨_, rfl⟩, hcl⟩ := h1
        exact List.mem_range.mp (hperm.mem_iff.mp hcl)
    | gatherbug W =>
      simp only at hctor
      by_cases h0 : nc = 0
      · simp [h0] at hctor
      · simp only [h0, if_false] at hctor
        by_cases hW : W = 0
        · simp [hW] at hctor
        · simp only [hW, if_false] at hctor
          have hbase : ∀ c ∈ ((List.range nc).flatMap (fun c => List.replicate ((n + nc - 1) / nc) c)).take n, c < nc := by
            intro c hc
            have h1 := List.mem_of_mem_take hc
            simp only [List.mem_flatMap, List.mem_range, List.mem_replicate] at h1
            obtain ⟨a, ha, _, rfl⟩ := h1
            exact ha
          cases hr : rearrange (if padCount n W > 0 then
              ((List.range nc).flatMap (fun c => List.replicate ((n + nc - 1) / nc) c)).take n ++
                (((List.range nc).flatMap (fun c => List.replicate ((n + nc - 1) / nc) c)).take n).take (padCount n W)
            else ((List.range nc).flatMap (fun c => List.replicate ((n + nc - 1) / nc) c)).take n) W with
          | error e => rw [hr] at hctor; simp at hctor
          | ok c2 =>
            rw [hr] at hctor
            simp only [Except.ok.injEq] at hctor
            have hc2 : ∀ c ∈ c2, c < nc := by
              intro c hc
              have h1 := rearrange_mem hr c hc
              by_cases hp : padCount n W > 0
              · simp only [hp, if_true] at h1
                rcases List.mem_append.mp h1 with h | h
                · exact hbase c h
                · exact hbase c (List.mem_of_mem_take h)
              · simp only [hp, if_false] at h1
                exact hbase c h1
            subst hctor
            intro c hc
            by_cases hp : padCount n W > 0
            · simp only [hp, if_true] at hc
              exact hc2 c (List.mem_of_mem_take hc)
            · simp only [hp, if_false] at hc
              exact hc2 c hc
    | other => simp at hctor
  have hitem : ∀ i l, rcGetitem classes i = .ok l → 0 ≤ l ∧ l < (nc : Int) := by
    intro i l h
    unfold rcGetitem at h
    cases hg : listGet classes i with
    | error e => rw [hg] at h; cases h
    | ok c =>
      rw [hg] at h
      simp only [Except.ok.injEq] at h
      subst h
      exact ⟨Int.natCast_nonneg _, Int.ofNat_lt.mpr (hcl c (listGet_mem hg))⟩
  refine ⟨hcl, hitem, ?_⟩
  intro out h l hl
  simp only [rcGetall, Except.ok.injEq] at h
  subst h
  obtain ⟨c, hc, rfl⟩ := List.mem_map.mp hl
  exact ⟨Int.natCast_nonneg _, Int.ofNat_lt.mpr (hcl c hc)⟩

/-- the generated table has one class per sample in every mode (so the bulk accessor, which returns the table, has
    `len(dataset)` entries), given `randint` / `randperm` return the requested number of entries -/
theorem randomClass_length (n nc : Nat) (mode : RCMode) (ints perm classes : List Nat)
    (hints : ints.length = n) (hperm : perm.length = nc)
    (hctor : rcCtor n nc mode ints perm = .ok classes) : classes.length = n := by
  unfold rcCtor at hctor
  cases mode with
  | random =>
    simp only [Except.ok.injEq] at hctor
    subst hctor
    exact hints
  | randperm =>
    simp only at hctor
    by_cases h0 : nc = 0
    · simp [h0] at hctor
    · simp only [h0, if_false, Except.ok.injEq] at hctor
      subst hctor
      unfold repeatTake
      rw [List.length_take, flatten_replicate_length, hperm]
      have := le_ceilDiv_mul n nc (Nat.pos_of_ne_zero h0)
      omega
  | gatherbug W =>
    simp only at hctor
    by_cases h0 : nc = 0
    · simp [h0] at hctor
    · simp only [h0, if_false] at hctor
      by_cases hW : W = 0
      · simp [hW] at hctor
      · simp only [hW, if_false] at hctor
        have hbase : (((List.range nc).flatMap (fun c => List.replicate ((n + nc - 1) / nc) c)).take n).length = n := by
          rw [List.length_take, flatMap_length_const ((n + nc - 1) / nc) _ (fun c _ => by simp)]
          have := le_ceilDiv_mul n nc (Nat.pos_of_ne_zero h0)
          unfold ceilDiv at this
          simp only [List.length_range]
          rw [Nat.mul_comm] at this
          omega
        cases hr : rearrange (if padCount n W > 0 then
            ((List.range nc).flatMap (fun c => List.replicate ((n + nc - 1) / nc) c)).take n ++
              (((List.range nc).flatMap (fun c => List.replicate ((n + nc - 1) / nc) c)).take n).take (padCount n W)
          else ((List.range nc).flatMap (fun c => List.replicate ((n + nc - 1) / nc) c)).take n) W with
        | error e => rw [hr] at hctor; simp at hctor
        | ok c2 =>
          rw [hr] at hctor
          simp only [Except.ok.injEq] at hctor
          have hl := rearrange_length hr
          subst hctor
          by_cases hp : padCount n W > 0
          · simp only [hp, if_true] at hl ⊢
            rw [List.length_take, hl, List.length_append, hbase]
            omega
          · simp only [hp, if_false] at hl ⊢
            rw [hl, hbase]
  | other => simp at hctor

example : rcCtor 7 4 (.gatherbug 2) [] [] = .ok [0, 1, 2, 3, 0, 1, 2] ∧
    rcCtor 5 3 .randperm [] [2, 0, 1] = .ok [2, 0, 1, 2, 0] ∧ [2, 0, 1].Perm (List.range 3) :=
  ⟨by decide, by decide, by decide⟩

/-! ## SemiWrapper -/

/-- the in-place loop of the bulk accessor writes -1 exactly where the per-sample accessor answers -1 -/
theorem semi_bulk_eq_items (labels : List Int) (pOk : Bool) (k : Nat) (perm : List Nat) (st : SM)
    (hperm : ∀ i ∈ perm, i < labels.length) (hctor : smCtor labels pOk k perm = .ok st) :
    smGetall st = forRange labels.length (smGetitem st) := by
  unfold smCtor at hctor
  cases hp : pOk with
  | false => rw [hp] at hctor; simp at hctor
  | true =>
    rw [hp] at hctor
    simp only [if_true, Except.ok.injEq] at hctor
    subst hctor
    unfold smGetall
    simp only
    rw [setAll_spec _ _ (fun i hi => hperm i (List.mem_of_mem_take hi))]
    rw [← forEnumFrom_pure (fun i c => if i ∈ perm.take k then (-1 : Int) else c) labels 0]
    apply forEnum_eq_forRange
    intro j hj
    unfold smGetitem
    simp only
    by_cases hm : j ∈ perm.take k
    · simp [hm]
    · simp [hm, dsGet, listGet_of_lt _ _ hj]

/-- **range**: a produced label is -1 or the wrapped dataset's label -/
theorem semi_in_range (st : SM) (nc : Nat) (hl : ∀ c ∈ st.labels, InRange nc c) :
    ∀ i l, smGetitem st i = .ok l → InRange nc l := by
  intro i l h
  unfold smGetitem at h
  by_cases hm : i ∈ st.semi
  · simp only [hm, if_true, Except.ok.injEq] at h
    subst h
    exact Or.inl rfl
  · simp only [hm, if_false] at h
    exact hl l (listGet_mem h)

/-- the same for the bulk accessor -/
theorem semi_bulk_in_range (labels : List Int) (pOk : Bool) (k : Nat) (perm : List Nat) (st : SM) (nc : Nat)
    (hperm : ∀ i ∈ perm, i < labels.length) (hl : ∀ c ∈ labels, InRange nc c)
    (hctor : smCtor labels pOk k perm = .ok st) : ∀ out, smGetall st = .ok out → ∀ l ∈ out, InRange nc l := by
  intro out h l hlm
  rw [semi_bulk_eq_items labels pOk k perm st hperm hctor] at h
  obtain ⟨i, _, hi⟩ := mapE_mem _ out h l hlm
  have hlab : st.labels = labels := by
    unfold smCtor at hctor
    cases hp : pOk with
    | false => rw [hp] at hctor; simp at hctor
    | true => rw [hp] at hctor; simp only [if_true, Except.ok.injEq] at hctor; rw [← hctor]
  exact semi_in_range st nc (by rw [hlab]; exact hl) i l hi

example : ∃ st, smCtor [0, 1, 2, 3] true 2 [3, 1, 0, 2] = .ok st ∧ smGetall st = .ok [0, -1, 2, -1] :=
  ⟨_, rfl, by decide⟩

/-! ## LabelSmoothingWrapper -/

/-- **smoothed labels**: for `0 < smoothing ≤ 1`, at least two classes and a label `0 ≤ y < nc` the per-sample result
    is a vector of `nc` non-negative entries that sum to one and whose maximum sits at the original class —
    strictly so whenever `smoothing < 1` (for `smoothing = 1` all entries equal `1 / nc`) -/
theorem smoothing_simplex_argmax (s : Rat) (nc : Nat) (y : Int) (hs0 : 0 < s) (hs1 : s ≤ 1) (hnc : 2 ≤ nc)
    (hy0 : 0 ≤ y) (hy : y < (nc : Int)) :
    ∃ v, lsEncode s nc y = .ok (.vec v) ∧ v.length = nc ∧ (∀ x ∈ v, 0 ≤ x) ∧ v.sum = 1 ∧
      (∀ k (hk : k < v.length) (hc : y.toNat < v.length), v[k] ≤ v[y.toNat]) ∧
      (s < 1 → ∀ k (hk : k < v.length) (hc : y.toNat < v.length), k ≠ y.toNat → v[k] < v[y.toNat]) := by
  obtain ⟨c, rfl⟩ := Int.eq_ofNat_of_zero_le hy0
  have hc : c < nc := by omega
  have hs : ¬ s = 0 := by grind
  have h1 : ¬ ((c : Int) = -1) := by omega
  have h2 : ¬ nc = 1 := by omega
  have h3 : ¬ nc = 0 := by omega
  have h4 : ¬ ((c : Int) < 0) := by omega
  have h5 : ¬ ((c : Int) < 0 ∨ (nc : Int) ≤ (c : Int)) := by omega
  have hoff : 0 ≤ s / (nc : Rat) := div_natCast_nonneg s nc (Rat.le_of_lt hs0) (by omega)
  refine ⟨(List.replicate nc (s / (nc : Rat))).set c (1 - s + s / (nc : Rat)), ?_, ?_, ?_, ?_, ?_, ?_⟩
  · simp [lsEncode, hs, h1, h2, h3, h4, hc]
  · simp
  · intro x hx
    rcases List.mem_or_eq_of_mem_set hx with h | h
    · rw [(List.mem_replicate.mp h).2]; exact hoff
    · rw [h]; grind
  · exact smoothed_sum s nc c h3 hc
  · intro k hk hcl
    simp only [Int.toNat_natCast, List.getElem_set, List.getElem_replicate]
    by_cases hkc : c = k
    · simp [hkc]
    · simp only [hkc, if_false, if_true]; grind
  · intro hlt k hk hcl hne
    simp only [Int.toNat_natCast] at hne
    have hkc : ¬ c = k := fun e => hne e.symm
    simp only [Int.toNat_natCast, List.getElem_set, List.getElem_replicate, hkc, if_false, if_true]
    grind

/-- `smoothing == 0` returns the label itself, an unlabeled sample (-1) stays recognisably unlabeled -/
theorem smoothing_zero_and_unlabeled (s : Rat) (nc : Nat) (y : Int) :
    lsEncode 0 nc y = .ok (.cls y) ∧ (s ≠ 0 → lsEncode s nc (-1) = .ok (.vec (List.replicate nc (-1)))) := by
  constructor
  · simp [lsEncode]
  · intro h; simp [lsEncode, h]

/-- binary case (`getdim_class() = 1`, label 0 or 1): the smoothed scalar stays in `[0, 1]` on the label's side of
    `1/2`, strictly for `smoothing < 1` -/
theorem smoothing_binary (s : Rat) (hs0 : 0 < s) (hs1 : s ≤ 1) :
    (∃ q, lsEncode s 1 1 = .ok (.scalar q) ∧ 1 / 2 ≤ q ∧ q ≤ 1 ∧ (s < 1 → 1 / 2 < q)) ∧
    (∃ q, lsEncode s 1 0 = .ok (.scalar q) ∧ 0 ≤ q ∧ q ≤ 1 / 2 ∧ (s < 1 → q < 1 / 2)) := by
  have hs : ¬ s = 0 := by grind
  constructor
  · refine ⟨1 - s / 2, ?_, ?_, ?_, ?_⟩
    · have : (1 / 2 : Rat) < 1 := by grind
      simp [lsEncode, hs, this]
    · grind
    · grind
    · intro h; grind
  · refine ⟨s / 2, ?_, ?_, ?_, ?_⟩
    · have : ¬ (1 / 2 : Rat) < 0 := by grind
      simp [lsEncode, hs, this]
      grind
    · grind
    · grind
    · intro h; grind

/-- **bulk path of the encoding wrappers**: it is the wrapped dataset's (class indices), and entry `i` is the argmax
    of the per-sample smoothed vector -/
theorem smoothing_bulk_is_argmax (s : Rat) (nc : Nat) (labels : List Int) (i : Nat) (hi : i < labels.length)
    (hs0 : 0 < s) (hs1 : s ≤ 1) (hnc : 2 ≤ nc) (hy0 : 0 ≤ labels[i]) (hy : labels[i] < (nc : Int)) :
    encGetall labels = .ok labels ∧
    ∃ v, lsGetitem s nc labels i = .ok (.vec v) ∧ v.length = nc ∧
      ∀ k (hk : k < v.length) (hc : labels[i].toNat < v.length), v[k] ≤ v[labels[i].toNat] := by
  refine ⟨rfl, ?_⟩
  obtain ⟨v, h1, h2, _, _, h5, _⟩ := smoothing_simplex_argmax s nc labels[i] hs0 hs1 hnc hy0 hy
  exact ⟨v, by simp [lsGetitem, dsGet, listGet_of_lt _ _ hi, h1], h2, h5⟩

/-- non-vacuity: smoothing 1/10 over 3 classes -/
example : lsEncode (1 / 10) 3 1 = .ok (.vec [1 / 30, 14 / 15, 1 / 30]) := by decide +kernel

/-! ## OneHotWrapper -/

/-- **one-hot**: for a label `0 ≤ y < nc` the result has `nc` entries, each 0 or 1 (hence non-negative), summing to one,
    with the 1 at the original class (strict argmax) -/
theorem onehot_simplex_argmax (nc : Nat) (y : Int) (hy0 : 0 ≤ y) (hy : y < (nc : Int)) :
    ∃ v, ohEncode nc y = .ok v ∧ v.length = nc ∧ (∀ x ∈ v, x = 0 ∨ x = 1) ∧ (∀ x ∈ v, 0 ≤ x) ∧ v.sum = 1 ∧
      (∀ k (hk : k < v.length), v[k] = if k = y.toNat then 1 else 0) := by
  obtain ⟨c, rfl⟩ := Int.eq_ofNat_of_zero_le hy0
  have hc : c < nc := by omega
  have h5 : ¬ ((c : Int) < 0 ∨ (nc : Int) ≤ (c : Int)) := by omega
  refine ⟨(List.range nc).map (fun (k : Nat) => if (k : Int) = (c : Int) then (1 : Rat) else 0), ?_, ?_, ?_, ?_, ?_, ?_⟩
  · simp [ohEncode, hc]
  · simp
  · intro x hx
    obtain ⟨k, _, rfl⟩ := List.mem_map.mp hx
    by_cases h : (k : Int) = (c : Int) <;> simp [h]
  · intro x hx
    obtain ⟨k, _, rfl⟩ := List.mem_map.mp hx
    by_cases h : (k : Int) = (c : Int) <;> simp [h] <;> grind
  · rw [indicator_sum c nc]; simp [hc]
  · intro k hk
    simp only [List.getElem_map, List.getElem_range, Int.toNat_natCast]
    by_cases h : k = c
    · subst h; simp
    · have : ¬ ((k : Int) = (c : Int)) := by omega
      simp [h, this]

/-- the bulk path yields the class index, which is where the per-sample one-hot vector has its 1 -/
theorem onehot_bulk_is_argmax (nc : Nat) (labels : List Int) (i : Nat) (hi : i < labels.length)
    (hy0 : 0 ≤ labels[i]) (hy : labels[i] < (nc : Int)) :
    encGetall labels = .ok labels ∧
    ∃ v, ohGetitem nc labels i = .ok v ∧ v.length = nc ∧
      ∀ k (hk : k < v.length), v[k] = if k = labels[i].toNat then 1 else 0 := by
  refine ⟨rfl, ?_⟩
  obtain ⟨v, h1, h2, _, _, _, h6⟩ := onehot_simplex_argmax nc labels[i] hy0 hy
  exact ⟨v, by simp [ohGetitem, dsGet, listGet_of_lt _ _ hi, h1], h2, h6⟩

example : ohEncode 3 2 = .ok [0, 0, 1] := by decide +kernel

/-! ## the mapping is a function of the constructor arguments and the draws -/

/-- Every accessor of the model takes the constructor arguments and the tape of draws and nothing else (no clock, no
    global state, no call counter): equal arguments and equal draws give equal per-sample and bulk results. The content of
    this statement is the *signature* of the model; that the code has no further input is what the correspondence
    (recorded draws replayed into the model) and the oracle (second construction under a scrambled global RNG state)
    check on every run. -/
theorem label_pure (labels labels' : List Int) (nc nc' cpg cpg' : Nat) (sh sh' : Bool) (t t' : List Nat)
    (h1 : labels = labels') (h2 : nc = nc') (h3 : cpg = cpg') (h4 : sh = sh') (h5 : t = t') :
    cgCtor labels nc cpg sh t = cgCtor labels' nc' cpg' sh' t' ∧
    (∀ p1 p2, rsCtor labels nc cpg 1 sh t p1 = rsCtor labels' nc' cpg' 1 sh' t' p2 ∨ p1 ≠ p2) ∧
    agCtor labels nc = agCtor labels' nc' ∧ smCtor labels sh cpg t = smCtor labels' sh' cpg' t' := by
  subst h1 h2 h3 h4 h5
  refine ⟨rfl, fun p1 p2 => ?_, rfl, rfl⟩
  by_cases h : p1 = p2
  · subst h; exact Or.inl rfl
  · exact Or.inr h

end KDVerif.C16
