/-
C16 — Label-rewriting wrappers are coherent, in range and reproducible.

Model: `KDVerif/Model/Labels.lean` (one constructor / per-sample accessor / bulk accessor per wrapper, mirroring the
code after the three repairs of this round). `forRange n f` is the list comprehension `[f(i) for i in range(n)]`
with Python's exception order, so `getall = forRange len getitem` reads "the bulk accessor returns exactly what
the per-sample accessor returns, entry by entry, and raises exactly when (and what) the first failing per-sample
call raises". `InRange nc l` is `l = -1 ∨ 0 ≤ l < nc`. Tapes are universally quantified; the generators'
contracts appear as hypotheses.

Interpretation: bulk = per-sample is claimed for the eight wrappers that *rewrite* labels; the two *encoding*
wrappers (label smoothing, one-hot) define no bulk accessor on purpose: their bulk path yields the class index and
the statement is that this index is the (strict, for smoothing < 1) argmax of the per-sample encoding.
-/
import KDVerif.Lemmas.Labels
import KDVerif.Lemmas.LabelsEnc
import KDVerif.Lemmas.C16Extra

namespace KDVerif.C16
open KDVerif.Labels

/-! ## ClassGroupsWrapper -/

/-- bulk accessor = per-sample accessor, for every state (any table, any layout, any group size) -/
theorem classGroups_bulk_eq_items (st : CG) : cgGetall st = forRange st.labels.length (cgGetitem st) :=
  forEnum_eq_forRange (cgMap st) (cgGetitem st) st.labels
    (fun j hj => by simp [cgGetitem, dsGet, listGet_of_lt _ _ hj])

/-- **range**: if the group size divides the class count, every label the wrapper produces (per sample or in bulk)
    lies in `0 .. nc-1`, the range announced by the (delegated) class-shape query — for every layout and for every
    result of `rng.permuted` that is a rearrangement of the group table -/
theorem classGroups_in_range (labels : List Int) (nc cpg : Nat) (shuffle : Bool) (permuted : List Nat) (st : CG)
    (hdiv : cpg ∣ nc) (hperm : shuffle = true → permuted.Perm (cgTable0 nc cpg))
    (hctor : cgCtor labels nc cpg shuffle permuted = .ok st) :
    (∀ i l, cgGetitem st i = .ok l → 0 ≤ l ∧ l < (nc : Int)) ∧
    (∀ out, cgGetall st = .ok out → ∀ l ∈ out, 0 ≤ l ∧ l < (nc : Int)) := by
  unfold cgCtor at hctor
  by_cases h0 : cpg = 0
  · simp [h0] at hctor
  · simp only [h0, if_false, Except.ok.injEq] at hctor
    have hpos : 0 < cpg := Nat.pos_of_ne_zero h0
    obtain ⟨k, rfl⟩ := hdiv
    have hq : ceilDiv (cpg * k) cpg = k := ceilDiv_of_dvd cpg k hpos
    have htab : ∀ g ∈ st.table, g < k := by
      intro g hg
      rw [← hctor] at hg
      simp only at hg
      rw [← hq]
      cases hs : shuffle with
      | true =>
        rw [hs] at hg
        simp only [if_true] at hg
        exact mem_cgTable0 ((hperm hs).mem_iff.mp hg)
      | false =>
        rw [hs] at hg
        exact mem_cgTable0 (by simpa using hg)
    have hcpg : st.cpg = cpg := by rw [← hctor]
    have hmap : ∀ i c l, cgMap st i c = .ok l → 0 ≤ l ∧ l < ((cpg * k : Nat) : Int) := by
      intro i c l h
      unfold cgMap at h
      cases hg : pyGet st.table c with
      | error e => rw [hg] at h; cases h
      | ok g =>
        rw [hg] at h
        cases hw : listGet st.within i with
        | error e => rw [hw] at h; cases h
        | ok w =>
          rw [hw] at h
          simp only [Except.ok.injEq] at h
          subst h
          have hgk := htab g (pyGet_mem hg)
          rw [hcpg]
          have h1 : (g + 1) * cpg ≤ k * cpg := Nat.mul_le_mul_right cpg hgk
          rw [Nat.succ_mul] at h1
          have h2 : w % cpg < cpg := Nat.mod_lt w hpos
          have h3 : cpg * k = k * cpg := Nat.mul_comm _ _
          constructor
          · exact Int.natCast_nonneg _
          · exact Int.ofNat_lt.mpr (by omega)
    constructor
    · intro i l h
      unfold cgGetitem at h
      cases hd : dsGet st.labels i with
      | error e => rw [hd] at h; cases h
      | ok c => rw [hd] at h; exact hmap i c l h
    · intro out h l hl
      obtain ⟨i, c, _, hc⟩ := forEnumFrom_mem st.labels 0 out h l hl
      exact hmap i c l hc

/-- no accessor raises for labels inside `0 .. nc-1`: the group table has at least `nc` entries (exactly `nc` when the
    group size divides the class count) and the per-class counter has one entry per sample -/
theorem classGroups_total (labels : List Int) (nc cpg : Nat) (shuffle : Bool) (permuted : List Nat) (st : CG)
    (hl : ∀ c ∈ labels, 0 ≤ c ∧ c < (nc : Int)) (hperm : shuffle = true → permuted.Perm (cgTable0 nc cpg))
    (hctor : cgCtor labels nc cpg shuffle permuted = .ok st) :
    ∃ out, cgGetall st = .ok out ∧ out.length = labels.length := by
  unfold cgCtor at hctor
  by_cases h0 : cpg = 0
  · simp [h0] at hctor
  · simp only [h0, if_false, Except.ok.injEq] at hctor
    have hpos : 0 < cpg := Nat.pos_of_ne_zero h0
    have htl : nc ≤ st.table.length := by
      rw [← hctor]
      simp only
      have := le_ceilDiv_mul nc cpg hpos
      cases hs : shuffle with
      | true => simp only [if_true]; rw [(hperm hs).length_eq, cgTable0_length]; exact this
      | false => simp only [Bool.false_eq_true, if_false]; rw [cgTable0_length]; exact this
    have hwl : st.within.length = labels.length := by
      rw [← hctor]; exact idxWithinGo_length labels []
    have hlab : st.labels = labels := by rw [← hctor]
    rw [classGroups_bulk_eq_items, hlab]
    obtain ⟨ys, hys, hlen⟩ := mapE_total (f := cgGetitem st) (List.range labels.length) (by
      intro i hi
      have hi' : i < labels.length := List.mem_range.mp hi
      have hc := hl labels[i] (List.getElem_mem hi')
      have hc2 : labels[i].toNat < st.table.length := by omega
      have hi2 : i < st.within.length := by omega
      refine ⟨((st.table[labels[i].toNat] * st.cpg + st.within[i] % st.cpg : Nat) : Int), ?_⟩
      unfold cgGetitem cgMap
      simp only [hlab, dsGet, listGet_of_lt _ _ hi', pyGet_of_lt _ _ hc.1 hc2, listGet_of_lt _ _ hi2])
    exact ⟨ys, hys, by simpa using hlen⟩

/-- non-vacuity: 6 classes in groups of 2, shuffled table, a layout with a repeated class -/
example : ∃ st, cgCtor [0, 5, 0, 3] 6 2 true [1, 0, 2, 2, 0, 1] = .ok st ∧
    [1, 0, 2, 2, 0, 1].Perm (cgTable0 6 2) ∧ cgGetall st = .ok [2, 2, 3, 4] :=
  ⟨_, rfl, by decide, by decide⟩

/-! ## RandomSuperclassWrapper -/

theorem randomSuperclass_bulk_eq_items (st : RS) : rsGetall st = forRange st.labels.length (rsGetitem st) :=
  forEnum_eq_forRange (rsMap st) (rsGetitem st) st.labels
    (fun j hj => by simp [rsGetitem, dsGet, listGet_of_lt _ _ hj])

/-- **range**: every produced label is below `getshape_class()[0] = ceil(nc / classes_per_superclass) * splits`,
    for every class permutation drawn, every split bookkeeping and every layout (`splits ≥ 1`) -/
theorem randomSuperclass_in_range (labels : List Int) (nc cps splits : Nat) (shuffle : Bool) (perm1 perm2 : List Nat)
    (st : RS) (hs : 1 ≤ splits) (hperm : shuffle = true → perm1.Perm (List.range nc))
    (hctor : rsCtor labels nc cps splits shuffle perm1 perm2 = .ok st) :
    (∀ i l, rsGetitem st i = .ok l → 0 ≤ l ∧ l < (rsShape st : Int)) ∧
    (∀ out, rsGetall st = .ok out → ∀ l ∈ out, 0 ≤ l ∧ l < (rsShape st : Int)) := by
  unfold rsCtor at hctor
  by_cases h0 : cps = 0
  · simp [h0] at hctor
  · simp only [h0, if_false, Except.ok.injEq] at hctor
    have hpos : 0 < cps := Nat.pos_of_ne_zero h0
    have hperm' : ∀ p ∈ st.perm, p < nc := by
      intro p hp
      rw [← hctor] at hp
      simp only at hp
      cases hsf : shuffle with
      | true =>
        rw [hsf] at hp
        simp only [if_true] at hp
        exact List.mem_range.mp ((hperm hsf).mem_iff.mp hp)
      | false =>
        rw [hsf] at hp
        exact List.mem_range.mp (by simpa using hp)
    have hcps : st.cps = cps := by rw [← hctor]
    have hog : st.og = ceilDiv nc cps := by rw [← hctor]
    have hsp : st.splits = splits := by rw [← hctor]
    have hwithin : st.within = none → splits = 1 := by
      intro hn
      rw [← hctor] at hn
      simp only at hn
      by_cases h1 : splits > 1
      · simp [h1] at hn
      · omega
    have hmap : ∀ i c l, rsMap st i c = .ok l → 0 ≤ l ∧ l < (rsShape st : Int) := by
      intro i c l h
      unfold rsMap at h
      cases hg : pyGet st.perm c with
      | error e => rw [hg] at h; cases h
      | ok p =>
        rw [hg] at h
        simp only at h
        have hp := hperm' p (pyGet_mem hg)
        have hdiv := div_lt_ceilDiv p nc cps hpos hp
        unfold rsShape
        rw [hog, hsp]
        cases hw : st.within with
        | none =>
          rw [hw] at h
          simp only [Except.ok.injEq] at h
          subst h
          rw [hcps, hwithin hw]
          exact ⟨Int.natCast_nonneg _, Int.ofNat_lt.mpr (by omega)⟩
        | some ws =>
          rw [hw] at h
          simp only at h
          cases hl : listGet ws i with
          | error e => rw [hl] at h; cases h
          | ok w =>
            rw [hl] at h
            simp only [Except.ok.injEq] at h
            subst h
            rw [hcps, hsp, hog]
            have h2 : w % splits < splits := Nat.mod_lt w (by omega)
            have h3 : (w % splits + 1) * ceilDiv nc cps ≤ splits * ceilDiv nc cps := Nat.mul_le_mul_right _ h2
            rw [Nat.succ_mul] at h3
            have h4 : ceilDiv nc cps * splits = splits * ceilDiv nc cps := Nat.mul_comm _ _
            exact ⟨Int.natCast_nonneg _, Int.ofNat_lt.mpr (by omega)⟩
    constructor
    · intro i l h
      unfold rsGetitem at h
      cases hd : dsGet st.labels i with
      | error e => rw [hd] at h; cases h
      | ok c => rw [hd] at h; exact hmap i c l h
    · intro out h l hl
      obtain ⟨i, c, _, hc⟩ := forEnumFrom_mem st.labels 0 out h l hl
      exact hmap i c l hc

/-- non-vacuity: 5 classes, superclasses of 2, 2 splits, both permutations drawn -/
example : ∃ st, rsCtor [0, 4, 0, 2] 5 2 2 true [3, 0, 4, 1, 2] [2, 0, 3, 1] = .ok st ∧
    [3, 0, 4, 1, 2].Perm (List.range 5) ∧ rsShape st = 6 ∧ rsGetall st = .ok [4, 1, 1, 2] :=
  ⟨_, rfl, by decide, by decide, by decide⟩

/-! ## SwapLabelWrapper -/

/-- bulk = per-sample over `len(dataset)` entries, when the generator returned `size` entries per draw -/
theorem swap_bulk_eq_items (labels : List Int) (p : Rat) (us : List Rat) (news : List Int) (st : SW)
    (hus : us.length = labels.length) (hnews : news.length = labels.length)
    (hctor : swCtor labels p us news = .ok st) :
    swGetall st = forRange labels.length (swGetitem st) := by
  unfold swCtor at hctor
  by_cases hp : 0 ≤ p ∧ p ≤ 1
  · simp only [hp, and_self, if_true, Except.ok.injEq] at hctor
    have hlen : st.classes.length = labels.length := by
      rw [← hctor]
      simp [hus, hnews]
    rw [← hlen]
    exact (forRange_listGet st.classes).symm
  · simp [hp] at hctor

/-- **range**: swapped-in labels come from `integers(0, nc)`, kept labels are the original ones -/
theorem swap_in_range (labels : List Int) (nc : Nat) (p : Rat) (us : List Rat) (news : List Int) (st : SW)
    (hl : ∀ c ∈ labels, InRange nc c) (hn : ∀ v ∈ news, 0 ≤ v ∧ v < (nc : Int))
    (hctor : swCtor labels p us news = .ok st) :
    (∀ i l, swGetitem st i = .ok l → InRange nc l) ∧ (∀ out, swGetall st = .ok out → ∀ l ∈ out, InRange nc l) := by
  unfold swCtor at hctor
  by_cases hp : 0 ≤ p ∧ p ≤ 1
  · simp only [hp, and_self, if_true, Except.ok.injEq] at hctor
    have hall : ∀ l ∈ st.classes, InRange nc l := by
      rw [← hctor]
      apply zipWith_all
      intro x hx y hy
      by_cases hx1 : x.1 = true
      · simp only [hx1, if_true]
        exact Or.inr (hn x.2 (List.of_mem_zip hx).2)
      · simp only [hx1]
        exact hl y hy
    constructor
    · intro i l h
      exact hall l (listGet_mem h)
    · intro out h l hlm
      simp only [swGetall, Except.ok.injEq] at h
      subst h
      exact hall l hlm
  · simp [hp] at hctor

/-- non-vacuity -/
example : ∃ st, swCtor [0, -1, 2] (1 / 2) [1 / 4, 3 / 4, 1 / 8] [1, 1, 0] = .ok st ∧ swGetall st = .ok [1, -1, 0] :=
  ⟨⟨[1, -1, 0], [true, false, true]⟩, by decide +kernel, by decide⟩

/-! ## OverwriteClassesWrapper -/

/-- the bulk accessor is the comprehension over the per-sample accessor (the repaired code) … -/
theorem overwrite_bulk_eq_items (st : OW) : owGetall st = forRange st.n (owGetitem st) := rfl

/-- … and therefore returns the overwriting table, not the wrapped dataset's labels -/
theorem overwrite_bulk_is_table (labels classes : List Int) (st : OW) (hctor : owCtor labels classes = .ok st) :
    owGetall st = .ok classes := by
  unfold owCtor at hctor
  by_cases h : classes.length = labels.length
  · simp only [h, if_true, Except.ok.injEq] at hctor
    subst hctor
    unfold owGetall
    simp only
    rw [← h]
    exact forRange_listGet classes
  · simp [h] at hctor

/-- **range**: the produced labels are the table's entries (in range iff the table given is) -/
theorem overwrite_in_range (labels classes : List Int) (nc : Nat) (st : OW) (hc : ∀ c ∈ classes, InRange nc c)
    (hctor : owCtor labels classes = .ok st) :
    (∀ i l, owGetitem st i = .ok l → InRange nc l) ∧ (∀ out, owGetall st = .ok out → ∀ l ∈ out, InRange nc l) := by
  have hb := overwrite_bulk_is_table labels classes st hctor
  unfold owCtor at hctor
  by_cases h : classes.length = labels.length
  · simp only [h, if_true, Except.ok.injEq] at hctor
    constructor
    · intro i l hi
      subst hctor
      exact hc l (listGet_mem hi)
    · intro out ho l hl
      rw [hb] at ho
      cases ho
      exact hc l hl
  · simp [h] at hctor

example : ∃ st, owCtor [0, 1, 2] [2, -1, 0] = .ok st ∧ owGetall st = .ok [2, -1, 0] := ⟨_, rfl, by decide⟩

/-! ## AllgatherClassWrapper -/

/-- the bulk accessor applies the index map once: it is the comprehension over the per-sample accessor -/
theorem allgather_bulk_eq_items (st : AG) : agGetall st = forRange st.labels.length (agGetitem st) := rfl

/-- **domain**: for `0 < world_size ≤ len(dataset)` the constructor succeeds (the padding fits, the padded length is
    a multiple of the world size), the index table has one entry per sample and every entry is a valid sample index -/
theorem allgather_indices_ok (n W : Nat) (hW : 0 < W) (hWn : W ≤ n) :
    ∃ ix, agIndices n W = .ok ix ∧ ix.length = n ∧ ∀ j ∈ ix, j < n := by
  unfold agIndices
  have hW0 : ¬ W = 0 := by omega
  simp only [hW0, if_false]
  have hpadlt := padCount_lt n W hW
  have hdiv := pad_divides n W hW
  by_cases hpad : padCount n W > 0
  · simp only [hpad, if_true]
    have hlen1 : (List.range n ++ (List.range n).take (padCount n W)).length = n + padCount n W := by
      simp only [List.length_append, List.length_range, List.length_take]
      omega
    cases hr : rearrange (List.range n ++ (List.range n).take (padCount n W)) W with
    | error e =>
      unfold rearrange at hr
      rw [hlen1] at hr
      simp [hdiv] at hr
    | ok ys =>
      have hl := rearrange_length hr
      rw [hlen1] at hl
      refine ⟨_, rfl, ?_, ?_⟩
      · rw [List.length_take]; omega
      · intro j hj
        have hj' := rearrange_mem hr j (List.mem_of_mem_take hj)
        rcases List.mem_append.mp hj' with h | h
        · exact List.mem_range.mp h
        · exact List.mem_range.mp (List.mem_of_mem_take h)
  · simp only [hpad, if_false]
    have hp0 : padCount n W = 0 := by omega
    rw [hp0, Nat.add_zero] at hdiv
    cases hr : rearrange (List.range n) W with
    | error e =>
      unfold rearrange at hr
      simp only [List.length_range] at hr
      simp [hdiv] at hr
    | ok ys =>
      have hl := rearrange_length hr
      refine ⟨_, rfl, ?_, ?_⟩
      · simpa using hl
      · intro j hj
        exact List.mem_range.mp (rearrange_mem hr j hj)

/-- **range**: every produced label is one of the wrapped dataset's labels (the wrapper only permutes them) -/
theorem allgather_in_range (st : AG) (nc : Nat) (hl : ∀ c ∈ st.labels, InRange nc c) :
    (∀ i l, agGetitem st i = .ok l → InRange nc l) ∧ (∀ out, agGetall st = .ok out → ∀ l ∈ out, InRange nc l) := by
  have hitem : ∀ i l, agGetitem st i = .ok l → InRange nc l := by
    intro i l h
    unfold agGetitem at h
    cases hj : listGet st.indices i with
    | error e => rw [hj] at h; cases h
    | ok j => rw [hj] at h; exact hl l (listGet_mem h)
  refine ⟨hitem, ?_⟩
  intro out h l hlm
  obtain ⟨i, _, hi⟩ := mapE_mem _ out h l hlm
  exact hitem i l hi

/-- **domain, continued**: for `0 < world_size ≤ len(dataset)` no accessor raises — the bulk accessor returns one label
    per sample -/
theorem allgather_total (labels : List Int) (W : Nat) (st : AG) (hW : 0 < W) (hWn : W ≤ labels.length)
    (hctor : agCtor labels W = .ok st) : ∃ out, agGetall st = .ok out ∧ out.length = labels.length := by
  obtain ⟨ix, hix, hlen, hlt⟩ := allgather_indices_ok labels.length W hW hWn
  unfold agCtor at hctor
  rw [hix] at hctor
  simp only [Except.ok.injEq] at hctor
  subst hctor
  unfold agGetall forRange
  simp only
  obtain ⟨ys, hys, hl⟩ := mapE_total (f := agGetitem ⟨labels, ix⟩) (List.range labels.length) (by
    intro i hi
    have hi' : i < ix.length := by rw [hlen]; exact List.mem_range.mp hi
    have hj : ix[i] < labels.length := hlt _ (List.getElem_mem hi')
    exact ⟨labels[ix[i]], by simp [agGetitem, listGet_of_lt _ _ hi', dsGet, listGet_of_lt _ _ hj]⟩)
  exact ⟨ys, hys, by simpa using hl⟩

/-- non-vacuity (the layout of the recorded counterexample: 7 samples on 2 ranks) -/
example : ∃ st, agCtor [0, 1, 2, 3, 4, 5, 6] 2 = .ok st ∧ st.indices = [0, 2, 4, 6, 1, 3, 5] ∧
    agGetall st = .ok [0, 2, 4, 6, 1, 3, 5] := ⟨_, rfl, by decide, by decide⟩

/-! ## KDPseudoLabelWrapper -/

/-- the bulk accessor either is `NotImplementedError` (sampled pseudo labels: `topk` / `tau` given) or equals the
    per-sample accessor entry by entry — whatever the draws `d` (none is read on that path); hard tables, argmax of
    soft tables and thresholded soft tables alike -/
theorem pseudoLabel_bulk_eq_items_or_notImplemented (n C : Nat) (table : PTable) (thr : Option (List Bool))
    (topk : Option Nat) (tau : Tau) (topkIdx : List (List Nat)) (st : PL)
    (hctor : plCtor n C table thr topk tau topkIdx = .ok st) :
    plGetall st = .error .notImplemented ∨
      ∀ d : Nat → Nat, plGetall st = forRange st.n (fun i => plGetitem st i (d i)) := by
  by_cases hsamp : st.tau ≠ .none ∨ st.topk.isSome
  · left; simp [plGetall, hsamp]
  · right
    intro d
    have htau : st.tau = .none := by
      cases ht : st.tau <;> simp_all
    have htopk : st.topk = none := by
      cases hk : st.topk <;> simp_all
    have hitem : ∀ i dr, plGetitem st i dr = plGetitem st i 0 := by
      intro i dr
      simp [plGetitem, htopk]
    unfold plGetall
    simp only [hsamp, if_false]
    by_cases hthr : st.thr.isSome
    · simp only [hthr, if_true]
      exact forRange_congr _ (fun i _ => (hitem i (d i)).symm)
    · simp only [hthr]
      have hthr' : st.thr = none := by
        cases h : st.thr <;> simp_all
      unfold plCtor at hctor
      cases htab : table with
      | hard ls =>
        rw [htab] at hctor
        by_cases hl : ls.length = n
        · simp only [hl, if_true, Except.ok.injEq] at hctor
          have e1 : st.table = .hard ls := by rw [← hctor]
          have e2 : st.n = n := by rw [← hctor]
          rw [e1, e2, ← hl]
          simp only [Bool.false_eq_true, if_false]
          rw [← forRange_listGet ls]
          apply forRange_congr
          intro i _
          simp [plGetitem, htopk, htau, e1, hthr']
        · simp [hl] at hctor
      | soft rows =>
        rw [htab] at hctor
        simp only at hctor
        by_cases hl : rows.length = n ∧ rows.all (fun r => r.length == C) = true
        · rw [if_pos hl] at hctor
          simp only [Except.ok.injEq] at hctor
          have e1 : st.table = .soft rows := by rw [← hctor]
          have e2 : st.n = n := by rw [← hctor]
          rw [e1, e2, ← hl.1]
          simp only [Bool.false_eq_true, if_false]
          rw [← forEnumFrom_pure' (fun r => (argmax r : Int)) rows 0]
          apply forEnum_eq_forRange
          intro j hj
          simp [plGetitem, htopk, htau, e1, hthr', listGet_of_lt _ _ hj]
        · rw [if_neg hl] at hctor; cases hctor

/-- **range**: hard labels are the table's entries; argmax / thresholded labels are a column position or -1;
    sampled labels are one of the top-k positions — all below the class count the constructor checked the table
    against (`torch.topk` returns positions of the row: hypothesis `htk`) -/
theorem pseudoLabel_in_range (n C : Nat) (table : PTable) (thr : Option (List Bool))
    (topk : Option Nat) (tau : Tau) (topkIdx : List (List Nat)) (st : PL) (hC : 0 < C)
    (hhard : ∀ ls, table = .hard ls → ∀ c ∈ ls, InRange C c)
    (htk : ∀ ids ∈ topkIdx, ∀ c ∈ ids, c < C)
    (hctor : plCtor n C table thr topk tau topkIdx = .ok st) :
    (∀ i d l, plGetitem st i d = .ok l → InRange C l) ∧ (∀ out, plGetall st = .ok out → ∀ l ∈ out, InRange C l) := by
  have hst : st.table = table ∧ st.topkIdx = topkIdx ∧
      (∀ rows, table = .soft rows → ∀ r ∈ rows, r.length = C) := by
    unfold plCtor at hctor
    cases htab : table with
    | hard ls =>
      rw [htab] at hctor
      by_cases hl : ls.length = n
      · simp only [hl, if_true, Except.ok.injEq] at hctor
        subst hctor
        exact ⟨rfl, rfl, fun rows h => by cases h⟩
      · simp [hl] at hctor
    | soft rows =>
      rw [htab] at hctor
      simp only at hctor
      by_cases hl : rows.length = n ∧ rows.all (fun r => r.length == C) = true
      · rw [if_pos hl] at hctor
        simp only [Except.ok.injEq] at hctor
        subst hctor
        refine ⟨rfl, rfl, fun rows' h r hr => ?_⟩
        cases h
        have := List.all_eq_true.mp hl.2 r hr
        simpa using this
      · rw [if_neg hl] at hctor; cases hctor
  obtain ⟨e1, e2, hrows⟩ := hst
  have hargmax : ∀ rows, table = .soft rows → ∀ r ∈ rows, InRange C (argmax r : Int) := by
    intro rows h r hr
    have hlen := hrows rows h r hr
    have := argmax_lt r (by omega)
    exact Or.inr ⟨Int.natCast_nonneg _, Int.ofNat_lt.mpr (by omega)⟩
  have hitem : ∀ i d l, plGetitem st i d = .ok l → InRange C l := by
    intro i d l h
    unfold plGetitem at h
    rw [e1, e2] at h
    cases hk : st.topk with
    | some k =>
      rw [hk] at h
      simp only at h
      by_cases ht : st.thr.isSome
      · simp [ht] at h
      · simp only [ht] at h
        cases htab : table with
        | hard ls => rw [htab] at h; simp at h
        | soft rows =>
          rw [htab] at h
          simp only at h
          cases hr : listGet rows i with
          | error e => rw [hr] at h; simp at h
          | ok row =>
            rw [hr] at h
            simp only at h
            by_cases hkr : k > row.length
            · simp [hkr] at h
            · simp only [hkr, if_false] at h
              cases hti : topkIdx[i]? with
              | none => rw [hti] at h; simp at h
              | some ids =>
                rw [hti] at h
                simp only at h
                cases hc : listGet ids d with
                | error e => rw [hc] at h; simp at h
                | ok c =>
                  rw [hc] at h
                  simp only [Bool.false_eq_true, if_false, Except.ok.injEq] at h
                  subst h
                  have := htk ids (List.mem_of_getElem? hti) c (listGet_mem hc)
                  exact Or.inr ⟨Int.natCast_nonneg _, Int.ofNat_lt.mpr this⟩
    | none =>
      rw [hk] at h
      simp only at h
      by_cases htau : st.tau ≠ .none
      · simp [htau] at h
      · simp only [htau, if_false] at h
        cases htab : table with
        | hard ls =>
          rw [htab] at h
          simp only at h
          by_cases ht : st.thr.isSome
          · simp [ht] at h
          · simp only [ht] at h
            exact hhard ls htab l (listGet_mem h)
        | soft rows =>
          rw [htab] at h
          simp only at h
          cases hr : listGet rows i with
          | error e => rw [hr] at h; simp at h
          | ok row =>
            rw [hr] at h
            simp only at h
            have hrow := hargmax rows htab row (listGet_mem hr)
            cases hthr : st.thr with
            | none =>
              rw [hthr] at h
              simp only [Except.ok.injEq] at h
              subst h
              exact hrow
            | some bits =>
              rw [hthr] at h
              simp only at h
              cases hb : bits[i]? with
              | none => rw [hb] at h; simp at h
              | some b =>
                rw [hb] at h
                simp only [Except.ok.injEq] at h
                subst h
                cases b
                · exact Or.inl rfl
                · exact hrow
  refine ⟨hitem, ?_⟩
  intro out h l hl
  unfold plGetall at h
  by_cases hsamp : st.tau ≠ .none ∨ st.topk.isSome
  · simp [hsamp] at h
  · simp only [hsamp, if_false] at h
    by_cases hthr : st.thr.isSome
    · simp only [hthr, if_true] at h
      obtain ⟨i, _, hi⟩ := mapE_mem _ out h l hl
      exact hitem i 0 l hi
    · simp only [hthr] at h
      rw [e1] at h
      cases htab : table with
      | hard ls =>
        rw [htab] at h
        simp only [Bool.false_eq_true, if_false, Except.ok.injEq] at h
        subst h
        exact hhard ls htab l hl
      | soft rows =>
        rw [htab] at h
        simp only [Bool.false_eq_true, if_false, Except.ok.injEq] at h
        subst h
        obtain ⟨r, hr, rfl⟩ := List.mem_map.mp hl
        exact hargmax rows htab r hr

/-- non-vacuity: thresholded soft table (first row below the threshold), and a top-2 table -/
example : ∃ st, plCtor 2 3 (.soft [[1, 1, 1], [0, 3, 1]]) (some [false, true]) none .none [] = .ok st ∧
    plGetall st = .ok [-1, 1] ∧ plGetitem st 0 0 = .ok (-1) ∧ plGetitem st 1 0 = .ok 1 :=
  ⟨_, rfl, by decide, by decide, by decide⟩

example : ∃ st, plCtor 2 3 (.soft [[1, 1, 1], [0, 3, 1]]) none (some 2) .inf [[0, 1], [1, 2]] = .ok st ∧
    plGetall st = .error .notImplemented ∧ plGetitem st 1 1 = .ok 2 :=
  ⟨_, rfl, by decide, by decide⟩

/-! ## KDRandomClassWrapper -/

theorem randomClass_bulk_eq_items (classes : List Nat) :
    rcGetall classes = forRange classes.length (rcGetitem classes) := by
  unfold rcGetall
  rw [← forEnumFrom_pure' (fun (c : Nat) => (c : Int)) classes 0]
  apply forEnum_eq_forRange
  intro j hj
  simp [rcGetitem, listGet_of_lt _ _ hj]

/-- **range**: in each of the three modes every generated class is below `num_classes = getshape_class()[0]`
    (`randint` draws below `nc`; `randperm` is a permutation of `range nc`; the gather mode rearranges `arange`) -/
theorem randomClass_in_range (n nc : Nat) (mode : RCMode) (ints perm classes : List Nat)
    (hints : ∀ v ∈ ints, v < nc) (hperm : perm.Perm (List.range nc))
    (hctor : rcCtor n nc mode ints perm = .ok classes) :
    (∀ c ∈ classes, c < nc) ∧ (∀ i l, rcGetitem classes i = .ok l → 0 ≤ l ∧ l < (nc : Int)) ∧
    (∀ out, rcGetall classes = .ok out → ∀ l ∈ out, 0 ≤ l ∧ l < (nc : Int)) := by
  have hcl : ∀ c ∈ classes, c < nc := by
    unfold rcCtor at hctor
    cases mode with
    | random =>
      simp only [Except.ok.injEq] at hctor
      subst hctor
      exact hints
    | randperm =>
      simp only at hctor
      by_cases h0 : nc = 0
      · simp [h0] at hctor
      · simp only [h0, if_false, Except.ok.injEq] at hctor
        subst hctor
        intro c hc
        unfold repeatTake at hc
        have h1 := List.mem_of_mem_take hc
        simp only [List.mem_flatten, List.mem_replicate] at h1
        obtain ⟨l, ⟨_, rfl⟩, hcl⟩ := h1
        exact List.mem_range.mp (hperm.mem_iff.mp hcl)
    | gatherbug W =>
      simp only at hctor
      by_cases h0 : nc = 0
      · simp [h0] at hctor
      · simp only [h0, if_false] at hctor
        by_cases hW : W = 0
        · simp [hW] at hctor
        · simp only [hW, if_false] at hctor
          have hbase : ∀ c ∈ ((List.range nc).flatMap (fun c => List.replicate ((n + nc - 1) / nc) c)).take n, c < nc := by
            intro c hc
            have h1 := List.mem_of_mem_take hc
            simp only [List.mem_flatMap, List.mem_range, List.mem_replicate] at h1
            obtain ⟨a, ha, _, rfl⟩ := h1
            exact ha
          cases hr : rearrange (if padCount n W > 0 then
              ((List.range nc).flatMap (fun c => List.replicate ((n + nc - 1) / nc) c)).take n ++
                (((List.range nc).flatMap (fun c => List.replicate ((n + nc - 1) / nc) c)).take n).take (padCount n W)
            else ((List.range nc).flatMap (fun c => List.replicate ((n + nc - 1) / nc) c)).take n) W with
          | error e => rw [hr] at hctor; simp at hctor
          | ok c2 =>
            rw [hr] at hctor
            simp only [Except.ok.injEq] at hctor
            have hc2 : ∀ c ∈ c2, c < nc := by
              intro c hc
              have h1 := rearrange_mem hr c hc
              by_cases hp : padCount n W > 0
              · simp only [hp, if_true] at h1
                rcases List.mem_append.mp h1 with h | h
                · exact hbase c h
                · exact hbase c (List.mem_of_mem_take h)
              · simp only [hp, if_false] at h1
                exact hbase c h1
            subst hctor
            intro c hc
            by_cases hp : padCount n W > 0
            · simp only [hp, if_true] at hc
              exact hc2 c (List.mem_of_mem_take hc)
            · simp only [hp, if_false] at hc
              exact hc2 c hc
    | other => simp at hctor
  have hitem : ∀ i l, rcGetitem classes i = .ok l → 0 ≤ l ∧ l < (nc : Int) := by
    intro i l h
    unfold rcGetitem at h
    cases hg : listGet classes i with
    | error e => rw [hg] at h; cases h
    | ok c =>
      rw [hg] at h
      simp only [Except.ok.injEq] at h
      subst h
      exact ⟨Int.natCast_nonneg _, Int.ofNat_lt.mpr (hcl c (listGet_mem hg))⟩
  refine ⟨hcl, hitem, ?_⟩
  intro out h l hl
  simp only [rcGetall, Except.ok.injEq] at h
  subst h
  obtain ⟨c, hc, rfl⟩ := List.mem_map.mp hl
  exact ⟨Int.natCast_nonneg _, Int.ofNat_lt.mpr (hcl c hc)⟩

/-- the generated table has one class per sample in every mode (so the bulk accessor, which returns the table, has
    `len(dataset)` entries), given `randint` / `randperm` return the requested number of entries -/
theorem randomClass_length (n nc : Nat) (mode : RCMode) (ints perm classes : List Nat)
    (hints : ints.length = n) (hperm : perm.length = nc)
    (hctor : rcCtor n nc mode ints perm = .ok classes) : classes.length = n := by
  unfold rcCtor at hctor
  cases mode with
  | random =>
    simp only [Except.ok.injEq] at hctor
    subst hctor
    exact hints
  | randperm =>
    simp only at hctor
    by_cases h0 : nc = 0
    · simp [h0] at hctor
    · simp only [h0, if_false, Except.ok.injEq] at hctor
      subst hctor
      unfold repeatTake
      rw [List.length_take, flatten_replicate_length, hperm]
      have := le_ceilDiv_mul n nc (Nat.pos_of_ne_zero h0)
      omega
  | gatherbug W =>
    simp only at hctor
    by_cases h0 : nc = 0
    · simp [h0] at hctor
    · simp only [h0, if_false] at hctor
      by_cases hW : W = 0
      · simp [hW] at hctor
      · simp only [hW, if_false] at hctor
        have hbase : (((List.range nc).flatMap (fun c => List.replicate ((n + nc - 1) / nc) c)).take n).length = n := by
          rw [List.length_take, flatMap_length_const ((n + nc - 1) / nc) _ (fun c _ => by simp)]
          have := le_ceilDiv_mul n nc (Nat.pos_of_ne_zero h0)
          unfold ceilDiv at this
          simp only [List.length_range]
          rw [Nat.mul_comm] at this
          omega
        cases hr : rearrange (if padCount n W > 0 then
            ((List.range nc).flatMap (fun c => List.replicate ((n + nc - 1) / nc) c)).take n ++
              (((List.range nc).flatMap (fun c => List.replicate ((n + nc - 1) / nc) c)).take n).take (padCount n W)
          else ((List.range nc).flatMap (fun c => List.replicate ((n + nc - 1) / nc) c)).take n) W with
        | error e => rw [hr] at hctor; simp at hctor
        | ok c2 =>
          rw [hr] at hctor
          simp only [Except.ok.injEq] at hctor
          have hl := rearrange_length hr
          subst hctor
          by_cases hp : padCount n W > 0
          · simp only [hp, if_true] at hl ⊢
            rw [List.length_take, hl, List.length_append, hbase]
            omega
          · simp only [hp, if_false] at hl ⊢
            rw [hl, hbase]
  | other => simp at hctor

example : rcCtor 7 4 (.gatherbug 2) [] [] = .ok [0, 1, 2, 3, 0, 1, 2] ∧
    rcCtor 5 3 .randperm [] [2, 0, 1] = .ok [2, 0, 1, 2, 0] ∧ [2, 0, 1].Perm (List.range 3) :=
  ⟨by decide, by decide, by decide⟩

/-! ## SemiWrapper -/

/-- the in-place loop of the bulk accessor writes -1 exactly where the per-sample accessor answers -1 -/
theorem semi_bulk_eq_items (labels : List Int) (pOk : Bool) (k : Nat) (perm : List Nat) (st : SM)
    (hperm : ∀ i ∈ perm, i < labels.length) (hctor : smCtor labels pOk k perm = .ok st) :
    smGetall st = forRange labels.length (smGetitem st) := by
  unfold smCtor at hctor
  cases hp : pOk with
  | false => rw [hp] at hctor; simp at hctor
  | true =>
    rw [hp] at hctor
    simp only [if_true, Except.ok.injEq] at hctor
    subst hctor
    unfold smGetall
    simp only
    rw [setAll_spec _ _ (fun i hi => hperm i (List.mem_of_mem_take hi))]
    rw [← forEnumFrom_pure (fun i c => if i ∈ perm.take k then (-1 : Int) else c) labels 0]
    apply forEnum_eq_forRange
    intro j hj
    unfold smGetitem
    simp only
    by_cases hm : j ∈ perm.take k
    · simp [hm]
    · simp [hm, dsGet, listGet_of_lt _ _ hj]

/-- **range**: a produced label is -1 or the wrapped dataset's label -/
theorem semi_in_range (st : SM) (nc : Nat) (hl : ∀ c ∈ st.labels, InRange nc c) :
    ∀ i l, smGetitem st i = .ok l → InRange nc l := by
  intro i l h
  unfold smGetitem at h
  by_cases hm : i ∈ st.semi
  · simp only [hm, if_true, Except.ok.injEq] at h
    subst h
    exact Or.inl rfl
  · simp only [hm, if_false] at h
    exact hl l (listGet_mem h)

/-- the same for the bulk accessor -/
theorem semi_bulk_in_range (labels : List Int) (pOk : Bool) (k : Nat) (perm : List Nat) (st : SM) (nc : Nat)
    (hperm : ∀ i ∈ perm, i < labels.length) (hl : ∀ c ∈ labels, InRange nc c)
    (hctor : smCtor labels pOk k perm = .ok st) : ∀ out, smGetall st = .ok out → ∀ l ∈ out, InRange nc l := by
  intro out h l hlm
  rw [semi_bulk_eq_items labels pOk k perm st hperm hctor] at h
  obtain ⟨i, _, hi⟩ := mapE_mem _ out h l hlm
  have hlab : st.labels = labels := by
    unfold smCtor at hctor
    cases hp : pOk with
    | false => rw [hp] at hctor; simp at hctor
    | true => rw [hp] at hctor; simp only [if_true, Except.ok.injEq] at hctor; rw [← hctor]
  exact semi_in_range st nc (by rw [hlab]; exact hl) i l hi

example : ∃ st, smCtor [0, 1, 2, 3] true 2 [3, 1, 0, 2] = .ok st ∧ smGetall st = .ok [0, -1, 2, -1] :=
  ⟨_, rfl, by decide⟩

/-! ## LabelSmoothingWrapper -/

/-- **smoothed labels**: for `0 < smoothing ≤ 1`, at least two classes and a label `0 ≤ y < nc` the per-sample result
    is a vector of `nc` non-negative entries that sum to one and whose maximum sits at the original class —
    strictly so whenever `smoothing < 1` (for `smoothing = 1` all entries equal `1 / nc`) -/
theorem smoothing_simplex_argmax (s : Rat) (nc : Nat) (y : Int) (hs0 : 0 < s) (hs1 : s ≤ 1) (hnc : 2 ≤ nc)
    (hy0 : 0 ≤ y) (hy : y < (nc : Int)) :
    ∃ v, lsEncode s nc y = .ok (.vec v) ∧ v.length = nc ∧ (∀ x ∈ v, 0 ≤ x) ∧ v.sum = 1 ∧
      (∀ k (hk : k < v.length) (hc : y.toNat < v.length), v[k] ≤ v[y.toNat]) ∧
      (s < 1 → ∀ k (hk : k < v.length) (hc : y.toNat < v.length), k ≠ y.toNat → v[k] < v[y.toNat]) := by
  obtain ⟨c, rfl⟩ := Int.eq_ofNat_of_zero_le hy0
  have hc : c < nc := by omega
  have hs : ¬ s = 0 := by grind
  have h1 : ¬ ((c : Int) = -1) := by omega
  have h2 : ¬ nc = 1 := by omega
  have h3 : ¬ nc = 0 := by omega
  have h4 : ¬ ((c : Int) < 0) := by omega
  have h5 : ¬ ((c : Int) < 0 ∨ (nc : Int) ≤ (c : Int)) := by omega
  have hoff : 0 ≤ s / (nc : Rat) := div_natCast_nonneg s nc (Rat.le_of_lt hs0) (by omega)
  refine ⟨(List.replicate nc (s / (nc : Rat))).set c (1 - s + s / (nc : Rat)), ?_, ?_, ?_, ?_, ?_, ?_⟩
  · simp [lsEncode, hs, h1, h2, h3, h4, hc]
  · simp
  · intro x hx
    rcases List.mem_or_eq_of_mem_set hx with h | h
    · rw [(List.mem_replicate.mp h).2]; exact hoff
    · rw [h]; grind
  · exact smoothed_sum s nc c h3 hc
  · intro k hk hcl
    simp only [Int.toNat_natCast, List.getElem_set, List.getElem_replicate]
    by_cases hkc : c = k
    · simp [hkc]
    · simp only [hkc, if_false, if_true]; grind
  · intro hlt k hk hcl hne
    simp only [Int.toNat_natCast] at hne
    have hkc : ¬ c = k := fun e => hne e.symm
    simp only [Int.toNat_natCast, List.getElem_set, List.getElem_replicate, hkc, if_false, if_true]
    grind

/-- `smoothing == 0` returns the label itself, an unlabeled sample (-1) stays recognisably unlabeled -/
theorem smoothing_zero_and_unlabeled (s : Rat) (nc : Nat) (y : Int) :
    lsEncode 0 nc y = .ok (.cls y) ∧ (s ≠ 0 → lsEncode s nc (-1) = .ok (.vec (List.replicate nc (-1)))) := by
  constructor
  · simp [lsEncode]
  · intro h; simp [lsEncode, h]

/-- binary case (`getdim_class() = 1`, label 0 or 1): the smoothed scalar stays in `[0, 1]` on the label's side of
    `1/2`, strictly for `smoothing < 1` -/
theorem smoothing_binary (s : Rat) (hs0 : 0 < s) (hs1 : s ≤ 1) :
    (∃ q, lsEncode s 1 1 = .ok (.scalar q) ∧ 1 / 2 ≤ q ∧ q ≤ 1 ∧ (s < 1 → 1 / 2 < q)) ∧
    (∃ q, lsEncode s 1 0 = .ok (.scalar q) ∧ 0 ≤ q ∧ q ≤ 1 / 2 ∧ (s < 1 → q < 1 / 2)) := by
  have hs : ¬ s = 0 := by grind
  constructor
  · refine ⟨1 - s / 2, ?_, ?_, ?_, ?_⟩
    · have : (1 / 2 : Rat) < 1 := by grind
      simp [lsEncode, hs, this]
    · grind
    · grind
    · intro h; grind
  · refine ⟨s / 2, ?_, ?_, ?_, ?_⟩
    · have : ¬ (1 / 2 : Rat) < 0 := by grind
      simp [lsEncode, hs, this]
      grind
    · grind
    · grind
    · intro h; grind

/-- **bulk path of the encoding wrappers**: it is the wrapped dataset's (class indices), and entry `i` is the argmax
    of the per-sample smoothed vector -/
theorem smoothing_bulk_is_argmax (s : Rat) (nc : Nat) (labels : List Int) (i : Nat) (hi : i < labels.length)
    (hs0 : 0 < s) (hs1 : s ≤ 1) (hnc : 2 ≤ nc) (hy0 : 0 ≤ labels[i]) (hy : labels[i] < (nc : Int)) :
    encGetall labels = .ok labels ∧
    ∃ v, lsGetitem s nc labels i = .ok (.vec v) ∧ v.length = nc ∧
      ∀ k (hk : k < v.length) (hc : labels[i].toNat < v.length), v[k] ≤ v[labels[i].toNat] := by
  refine ⟨rfl, ?_⟩
  obtain ⟨v, h1, h2, _, _, h5, _⟩ := smoothing_simplex_argmax s nc labels[i] hs0 hs1 hnc hy0 hy
  exact ⟨v, by simp [lsGetitem, dsGet, listGet_of_lt _ _ hi, h1], h2, h5⟩

/-- non-vacuity: smoothing 1/10 over 3 classes -/
example : lsEncode (1 / 10) 3 1 = .ok (.vec [1 / 30, 14 / 15, 1 / 30]) := by decide +kernel

/-! ## OneHotWrapper -/

/-- **one-hot**: for a label `0 ≤ y < nc` the result has `nc` entries, each 0 or 1 (hence non-negative), summing to one,
    with the 1 at the original class (strict argmax) -/
theorem onehot_simplex_argmax (nc : Nat) (y : Int) (hy0 : 0 ≤ y) (hy : y < (nc : Int)) :
    ∃ v, ohEncode nc y = .ok v ∧ v.length = nc ∧ (∀ x ∈ v, x = 0 ∨ x = 1) ∧ (∀ x ∈ v, 0 ≤ x) ∧ v.sum = 1 ∧
      (∀ k (hk : k < v.length), v[k] = if k = y.toNat then 1 else 0) := by
  obtain ⟨c, rfl⟩ := Int.eq_ofNat_of_zero_le hy0
  have hc : c < nc := by omega
  have h5 : ¬ ((c : Int) < 0 ∨ (nc : Int) ≤ (c : Int)) := by omega
  refine ⟨(List.range nc).map (fun (k : Nat) => if (k : Int) = (c : Int) then (1 : Rat) else 0), ?_, ?_, ?_, ?_, ?_, ?_⟩
  · simp [ohEncode, hc]
  · simp
  · intro x hx
    obtain ⟨k, _, rfl⟩ := List.mem_map.mp hx
    by_cases h : (k : Int) = (c : Int) <;> simp [h]
  · intro x hx
    obtain ⟨k, _, rfl⟩ := List.mem_map.mp hx
    by_cases h : (k : Int) = (c : Int) <;> simp [h] <;> grind
  · rw [indicator_sum c nc]; simp [hc]
  · intro k hk
    simp only [List.getElem_map, List.getElem_range, Int.toNat_natCast]
    by_cases h : k = c
    · subst h; simp
    · have : ¬ ((k : Int) = (c : Int)) := by omega
      simp [h, this]

/-- the bulk path yields the class index, which is where the per-sample one-hot vector has its 1 -/
theorem onehot_bulk_is_argmax (nc : Nat) (labels : List Int) (i : Nat) (hi : i < labels.length)
    (hy0 : 0 ≤ labels[i]) (hy : labels[i] < (nc : Int)) :
    encGetall labels = .ok labels ∧
    ∃ v, ohGetitem nc labels i = .ok v ∧ v.length = nc ∧
      ∀ k (hk : k < v.length), v[k] = if k = labels[i].toNat then 1 else 0 := by
  refine ⟨rfl, ?_⟩
  obtain ⟨v, h1, h2, _, _, _, h6⟩ := onehot_simplex_argmax nc labels[i] hy0 hy
  exact ⟨v, by simp [ohGetitem, dsGet, listGet_of_lt _ _ hi, h1], h2, h6⟩

example : ohEncode 3 2 = .ok [0, 0, 1] := by decide +kernel

/-! ## the mapping is a function of the constructor arguments and the draws -/

/-- Every accessor of the model takes the constructor arguments and the tape of draws and nothing else (no clock, no
    global state, no call counter): equal arguments and equal draws give equal per-sample and bulk results. The content of
    this statement is the *signature* of the model; that the code has no further input is what the correspondence
    (recorded draws replayed into the model) and the oracle (second construction under a scrambled global RNG state)
    check on every run. -/
theorem label_pure (labels labels' : List Int) (nc nc' cpg cpg' : Nat) (sh sh' : Bool) (t t' : List Nat)
    (h1 : labels = labels') (h2 : nc = nc') (h3 : cpg = cpg') (h4 : sh = sh') (h5 : t = t') :
    cgCtor labels nc cpg sh t = cgCtor labels' nc' cpg' sh' t' ∧
    (∀ p1 p2, rsCtor labels nc cpg 1 sh t p1 = rsCtor labels' nc' cpg' 1 sh' t' p2 ∨ p1 ≠ p2) ∧
    agCtor labels nc = agCtor labels' nc' ∧ smCtor labels sh cpg t = smCtor labels' sh' cpg' t' := by
  subst h1 h2 h3 h4 h5
  refine ⟨rfl, fun p1 p2 => ?_, rfl, rfl⟩
  by_cases h : p1 = p2
  · subst h; exact Or.inl rfl
  · exact Or.inr h

/-! ## Closed forms, totality and announced ranges (second round)

Each theorem below states, for one wrapper and over the whole domain of the property, that

  * the constructor succeeds and **no accessor raises** (totality),
  * the per-sample accessor at *every* index and the bulk accessor **read one and the same list** — a closed form
    (`cgSpec`, `rsSpec`, `swSpec`, `agSpec`, `plSpec`, `rcSpec`, `smSpec` of `Model/C16Spec.lean`) that is written without the
    model's recursion and takes the wrapped labels, the constructor arguments and the draws made *in the constructor*
    and nothing else: this is "the mapping is a function of the constructor arguments and seed", and, because the
    accessors take no draw (the only exception, top-k pseudo labels, is treated separately), "the tape is consumed at
    construction only",
  * the list has one entry per sample and every entry lies in the range **announced** by the wrapper's class-shape
    query (`cgShape` … `smShape`), or is -1.

Hypotheses are the property's domain and the contracts of the generators (`rng.permutation(k)` returns a
rearrangement of `range(k)`, `rng.random(size=n)` returns `n` numbers, …); each is named in the docstring. -/

/-- **ClassGroupsWrapper.** Domain: a positive group size dividing the class count (the property's domain), wrapped
    labels in `0 .. nc-1` (what the wrapped dataset announces), and — when shuffling — `rng.permuted` returned a
    rearrangement of its argument. Then the constructor succeeds, `getitem_class(i)` (any `i`; outside the dataset both
    sides are `IndexError`) and `getall_class()` read the list `cgSpec`: sample `i` of class `c` gets
    `table[c] * cpg + (number of earlier samples of class c) % cpg`, where `table` is the draw or `c ↦ c / cpg`; the list
    has one entry per sample, all in `0 .. cgShape nc - 1` (the delegated class-shape query), and the group of each
    produced label (its quotient by `cpg`) is below the number of groups. -/
theorem classGroups_closed_form_total (labels : List Int) (nc cpg : Nat) (shuffle : Bool) (permuted : List Nat)
    (hpos : 0 < cpg) (hdiv : cpg ∣ nc) (hl : ∀ c ∈ labels, 0 ≤ c ∧ c < (nc : Int))
    (hperm : shuffle = true → permuted.Perm (cgTable0 nc cpg)) :
    ∃ st, cgCtor labels nc cpg shuffle permuted = .ok st ∧
      (∀ i, cgGetitem st i = listGet (cgSpec labels cpg (cgSpecTable nc cpg shuffle permuted)) i) ∧
      cgGetall st = .ok (cgSpec labels cpg (cgSpecTable nc cpg shuffle permuted)) ∧
      (cgSpec labels cpg (cgSpecTable nc cpg shuffle permuted)).length = labels.length ∧
      ∀ l ∈ cgSpec labels cpg (cgSpecTable nc cpg shuffle permuted),
        0 ≤ l ∧ l < (cgShape nc : Int) ∧ l.toNat / cpg < cgNumGroups nc cpg := by
  have h0 : ¬ cpg = 0 := by omega
  have htab : (if shuffle then permuted else cgTable0 nc cpg) = cgSpecTable nc cpg shuffle permuted := by
    unfold cgSpecTable
    cases shuffle with
    | true => rfl
    | false => simp [c16x_cgTable0_eq nc cpg hpos]
  have hctor : cgCtor labels nc cpg shuffle permuted =
      .ok ⟨labels, cpg, cgSpecTable nc cpg shuffle permuted, idxWithin labels⟩ := by
    unfold cgCtor
    rw [if_neg h0, htab]
  have htl : nc ≤ (cgSpecTable nc cpg shuffle permuted).length := by
    rw [← htab]
    have := le_ceilDiv_mul nc cpg hpos
    cases hs : shuffle with
    | true => simp only [if_true]; rw [(hperm hs).length_eq, cgTable0_length]; exact this
    | false => simp only [Bool.false_eq_true, if_false]; rw [cgTable0_length]; exact this
  obtain ⟨hitem, hall⟩ := c16x_cg_main labels nc cpg (cgSpecTable nc cpg shuffle permuted) hl htl
  refine ⟨_, hctor, hitem, hall, by simp [cgSpec], ?_⟩
  intro l hlm
  have hr := (classGroups_in_range labels nc cpg shuffle permuted _ hdiv hperm hctor).2 _ hall l hlm
  refine ⟨hr.1, hr.2, ?_⟩
  obtain ⟨k, rfl⟩ := hdiv
  unfold cgNumGroups
  rw [ceilDiv_of_dvd cpg k hpos]
  apply Nat.div_lt_of_lt_mul
  have : l.toNat < cpg * k := by omega
  exact this

/-- non-vacuity and value: 6 classes in groups of 2, unshuffled (`c ↦ c / 2`) and shuffled -/
example : cgSpec [0, 5, 0, 3] 2 (cgSpecTable 6 2 false []) = [0, 4, 1, 2] ∧
    cgSpec [0, 5, 0, 3] 2 (cgSpecTable 6 2 true [1, 0, 2, 2, 0, 1]) = [2, 2, 3, 4] ∧ (2 ∣ 6) ∧
    [1, 0, 2, 2, 0, 1].Perm (cgTable0 6 2) := ⟨by decide, by decide, by decide, by decide⟩

/-- **RandomSuperclassWrapper.** Domain: a positive superclass size, at least one split, wrapped labels in `0 .. nc-1`,
    and — when shuffling — both `rng.permutation` calls returned rearrangements of `range(nc)` / `range(len)` (the
    second is made only when there is more than one split). Then the constructor succeeds, both accessors read the
    list `rsSpec`: sample `i` of class `c` gets `perm[c] / cps`, plus, with splits, `(rank of i among the samples of
    its class in the order perm2) % splits * ceil(nc / cps)`; one entry per sample, all below
    `getshape_class()[0] = rsShape st = ceil(nc / cps) * splits`. -/
theorem randomSuperclass_closed_form_total (labels : List Int) (nc cps splits : Nat) (shuffle : Bool)
    (perm1 perm2 : List Nat) (hpos : 0 < cps) (hs : 1 ≤ splits) (hl : ∀ c ∈ labels, 0 ≤ c ∧ c < (nc : Int))
    (hp1 : shuffle = true → perm1.Perm (List.range nc))
    (hp2 : shuffle = true → splits > 1 → perm2.Perm (List.range labels.length)) :
    ∃ st, rsCtor labels nc cps splits shuffle perm1 perm2 = .ok st ∧
      (∀ i, rsGetitem st i = listGet (rsSpec labels nc cps splits shuffle perm1 perm2) i) ∧
      rsGetall st = .ok (rsSpec labels nc cps splits shuffle perm1 perm2) ∧
      (rsSpec labels nc cps splits shuffle perm1 perm2).length = labels.length ∧
      rsShape st = ceilDiv nc cps * splits ∧
      ∀ l ∈ rsSpec labels nc cps splits shuffle perm1 perm2, 0 ≤ l ∧ l < (rsShape st : Int) := by
  obtain ⟨st, hctor, hitem, hall⟩ := c16x_rs_main labels nc cps splits shuffle perm1 perm2 hpos hl hp1 hp2
  refine ⟨st, hctor, hitem, hall, by simp [rsSpec], ?_, ?_⟩
  · unfold rsCtor at hctor
    rw [if_neg (by omega)] at hctor
    simp only [Except.ok.injEq] at hctor
    subst hctor
    rfl
  · intro l hlm
    exact (randomSuperclass_in_range labels nc cps splits shuffle perm1 perm2 st hs hp1 hctor).2 _ hall l hlm

/-- non-vacuity and value: 5 classes, superclasses of 2, 2 splits, both permutations drawn (the instance of the
    example further up) -/
example : rsSpec [0, 4, 0, 2] 5 2 2 true [3, 0, 4, 1, 2] [2, 0, 3, 1] = [4, 1, 1, 2] ∧
    [3, 0, 4, 1, 2].Perm (List.range 5) ∧ [2, 0, 3, 1].Perm (List.range 4) := ⟨by decide, by decide, by decide⟩

/-- **SwapLabelWrapper.** Domain: `0 ≤ p ≤ 1`, the generator returned one uniform and one integer of `0 .. nc-1` per
    sample, wrapped labels in range or -1. Then the constructor succeeds and both accessors read `swSpec`: sample `i`
    gets the drawn label where its uniform is below `p` and keeps its own otherwise; every entry lies in the
    (delegated) announced range or is -1. -/
theorem swap_closed_form_total (labels : List Int) (nc : Nat) (p : Rat) (us : List Rat) (news : List Int)
    (hp : 0 ≤ p ∧ p ≤ 1) (hus : us.length = labels.length) (hnews : news.length = labels.length)
    (hl : ∀ c ∈ labels, InRange nc c) (hn : ∀ v ∈ news, 0 ≤ v ∧ v < (nc : Int)) :
    ∃ st, swCtor labels p us news = .ok st ∧
      (∀ i, swGetitem st i = listGet (swSpec labels p us news) i) ∧
      swGetall st = .ok (swSpec labels p us news) ∧
      (∀ i, swGetitemApply st i = listGet (us.map (fun u => decide (u < p))) i) ∧
      (swSpec labels p us news).length = labels.length ∧
      ∀ l ∈ swSpec labels p us news, InRange (swShape nc) l := by
  have hctor := c16x_sw_main labels p us news hp hus hnews
  refine ⟨_, hctor, fun _ => rfl, rfl, fun _ => rfl, by simp [swSpec], ?_⟩
  intro l hlm
  exact (swap_in_range labels nc p us news _ hl hn hctor).2 _ rfl l hlm

example : swSpec [0, -1, 2] (1 / 2) [1 / 4, 3 / 4, 1 / 8] [1, 1, 0] = [1, -1, 0] := by decide +kernel

/-- **OverwriteClassesWrapper.** The constructor succeeds exactly when the table has one entry per sample (its own
    assert); then the per-sample accessor reads the table (any index) and the bulk accessor returns it. The announced
    range is the wrapped dataset's (`owShape`); whether the table respects it is up to the caller
    (`overwrite_in_range`). -/
theorem overwrite_total (labels classes : List Int) :
    ((∃ st, owCtor labels classes = .ok st) ↔ classes.length = labels.length) ∧
    (classes.length = labels.length → ∃ st, owCtor labels classes = .ok st ∧
      (∀ i, owGetitem st i = listGet classes i) ∧ owGetall st = .ok classes) := by
  constructor
  · constructor
    · intro ⟨st, h⟩
      unfold owCtor at h
      by_cases hc : classes.length = labels.length
      · exact hc
      · rw [if_neg hc] at h; cases h
    · intro h
      exact ⟨_, by unfold owCtor; rw [if_pos h]⟩
  · intro h
    have hctor : owCtor labels classes = .ok ⟨classes, labels.length⟩ := by unfold owCtor; rw [if_pos h]
    exact ⟨_, hctor, fun _ => rfl, overwrite_bulk_is_table labels classes _ hctor⟩

/-- a table of the right length is accepted and handed out; one entry too few is refused by the assert -/
example : (∃ st, owCtor [0, 1, 2] [2, -1, 0] = .ok st ∧ owGetall st = .ok [2, -1, 0] ∧ owGetitem st 1 = .ok (-1)) ∧
    owCtor [0, 1, 2] [2, -1] = .error .assertion := ⟨⟨_, rfl, by decide, by decide⟩, rfl⟩

/-- **AllgatherClassWrapper — the gathered list is the ranks' shards in rank order.** Domain: `0 < world_size ≤ len`.
    The specification `agSpec labels W = allGatherOrder labels W` is written with Python slices, not with the model's
    rearrangement: pad the list with its own head to a multiple of `W` (what `DistributedSampler(shuffle=False)` does),
    give rank `r` the slice `padded[r::W]`, concatenate the ranks' shards in rank order (what `all_gather` does), keep
    the first `len` entries. Then: the constructor succeeds; the stored `indices` are that order applied to `range(len)`;
    the per-sample accessor at every index and the bulk accessor read `agSpec`; one entry per sample. -/
theorem allgather_is_rank_concatenation (labels : List Int) (W : Nat) (hW : 0 < W) (hWn : W ≤ labels.length) :
    ∃ st, agCtor labels W = .ok st ∧ st.indices = allGatherOrder (List.range labels.length) W ∧
      (∀ i, agGetitem st i = listGet (agSpec labels W) i) ∧
      agGetall st = .ok (agSpec labels W) ∧ (agSpec labels W).length = labels.length := by
  obtain ⟨h1, h2, h3, h4⟩ := c16x_ag_main labels W hW hWn
  exact ⟨_, h1, rfl, h3, h4, h2⟩

/-- **AllgatherClassWrapper — closed form of one position.** With `S = (len + pad) / W` samples per rank, position `k`
    of the gathered list is the label of sample `j = (k % S) * W + k / S` (offset `k % S` in the shard of rank `k / S`),
    or of sample `j - len` if `j` falls into the padding. -/
theorem allgather_closed_form (labels : List Int) (W k : Nat) (hW : 0 < W) (hWn : W ≤ labels.length)
    (hk : k < labels.length) : (agSpec labels W)[k]? = labels[agIdx labels.length W k]? :=
  c16x_allGatherOrder_getElem? labels W k hW hWn hk

/-- **AllgatherClassWrapper — when it is a rearrangement.** If the world size divides the dataset length nothing is
    padded and the gathered list is a rearrangement of the wrapped labels. (With padding it need not be: see the example
    below, 5 samples on 4 ranks — the cut removes the tail of the *last ranks'* shards, not the padded duplicates. The
    labels still all come from the wrapped dataset: `allgather_in_announced_range`.) -/
theorem allgather_perm_of_dvd (labels : List Int) (W : Nat) (hW : 0 < W) (hWn : W ≤ labels.length)
    (hdiv : W ∣ labels.length) : (agSpec labels W).Perm labels :=
  c16x_allGatherOrder_perm labels W hW hWn hdiv

/-- **AllgatherClassWrapper — announced range**: every gathered label is one of the wrapped labels, hence in the
    (delegated) announced range or -1 -/
theorem allgather_in_announced_range (labels : List Int) (W nc : Nat) (hW : 0 < W) (hWn : W ≤ labels.length)
    (hl : ∀ c ∈ labels, InRange nc c) : ∀ l ∈ agSpec labels W, InRange (agShape nc) l :=
  fun l hlm => hl l (c16x_allGatherOrder_mem labels W hW hWn l hlm)

/-- 7 samples on 2 ranks (one padded sample): shards `[0,2,4,6]`, `[1,3,5,(0)]`; 6 on 3: a rearrangement; 5 on 4
    (three padded samples): sample 3 is lost and sample 0 appears twice — not a rearrangement -/
example : agSpec [0, 1, 2, 3, 4, 5, 6] 2 = [0, 2, 4, 6, 1, 3, 5] ∧ agSpec [10, 11, 12, 13, 14, 15] 3 = [10, 13, 11, 14, 12, 15] ∧
    agSpec [0, 1, 2, 3, 4] 4 = [0, 4, 1, 0, 2] ∧ (List.range 5).map (agIdx 5 4) = [0, 4, 1, 0, 2] :=
  ⟨by decide, by decide, by decide, by decide⟩

/-- the hypotheses of `allgather_perm_of_dvd` on 6 samples and 3 ranks, and its conclusion; and its failure on 5 / 4 -/
example : (3 ∣ 6) ∧ (agSpec [10, 11, 12, 13, 14, 15] 3).Perm [10, 11, 12, 13, 14, 15] ∧
    ¬ (agSpec [0, 1, 2, 3, 4] 4).Perm [0, 1, 2, 3, 4] := ⟨by decide, by decide, by decide⟩

/-- **KDPseudoLabelWrapper without sampling** (hard table; soft table; soft table with threshold). Domain: at least one
    class, the table has one entry / one row of `C` columns per sample (the constructor's asserts, `plWellFormed`), the
    threshold oracle has one bit per row, the configuration is one the per-sample accessor accepts (`plValid`: no
    threshold on a hard table), and a hard table holds labels of the announced range or -1 (it is a constructor
    argument). Then the constructor succeeds; the per-sample accessor — **for every draw `d`: it reads none** — and the
    bulk accessor read the list `plSpec` (the table / the row-wise argmax / the argmax where the confidence bit is set
    and -1 elsewhere); one entry per sample, each in `0 .. plShape C - 1` or -1. -/
theorem pseudoLabel_static_closed_form_total (n C : Nat) (table : PTable) (thr : Option (List Bool))
    (topkIdx : List (List Nat)) (hC : 0 < C) (hwf : plWellFormed n C table thr) (hv : plValid table thr none .none)
    (hhard : ∀ ls, table = .hard ls → ∀ c ∈ ls, InRange C c) :
    ∃ st, plCtor n C table thr none .none topkIdx = .ok st ∧
      (∀ i d, plGetitem st i d = listGet (plSpec table thr) i) ∧
      plGetall st = .ok (plSpec table thr) ∧ (plSpec table thr).length = n ∧
      ∀ l ∈ plSpec table thr, InRange (plShape C) l := by
  obtain ⟨hlen, hitem, hall⟩ := c16x_pl_static n C table thr topkIdx hwf hv
  refine ⟨_, c16x_plCtor_ok n C table thr none .none topkIdx hwf, hitem, hall, hlen, ?_⟩
  intro l hlm
  cases table with
  | hard ls => exact hhard ls rfl l hlm
  | soft rows =>
    simp only [plWellFormed] at hwf
    have harg : ∀ r ∈ rows, InRange C (argmax r : Int) := by
      intro r hr
      have h1 := hwf.2.1 r hr
      have h2 := argmax_lt r (by omega)
      exact Or.inr ⟨Int.natCast_nonneg _, Int.ofNat_lt.mpr (by omega)⟩
    cases thr with
    | none =>
      simp only [plSpec, List.mem_map] at hlm
      obtain ⟨r, hr, rfl⟩ := hlm
      exact harg r hr
    | some bits =>
      simp only [plSpec] at hlm
      refine zipWith_all (P := InRange C) rows bits ?_ l hlm
      intro r hr b _
      cases b
      · exact Or.inl rfl
      · exact harg r hr

example : plSpec (.soft [[1, 1, 1], [0, 3, 1]]) (some [false, true]) = [-1, 1] ∧
    plWellFormed 2 3 (.soft [[1, 1, 1], [0, 3, 1]]) (some [false, true]) ∧
    plValid (.soft [[1, 1, 1], [0, 3, 1]]) (some [false, true]) none .none := by
  refine ⟨by decide, ⟨rfl, ?_, ?_⟩, ?_⟩
  · intro r hr; simp at hr; rcases hr with rfl | rfl <;> rfl
  · intro bits h; cases h; rfl
  · simp [plValid]

/-- **KDPseudoLabelWrapper with top-k sampling** (with or without temperature). What the code does: `getall_class`
    raises `NotImplementedError` whenever `topk` or `tau` is given — with or without a seed — so there is no bulk accessor
    to compare with. What holds instead, over the domain `k ≤ C`, one row of `C` columns per sample, `torch.topk`
    returned `k` positions `< C` per row: the constructor succeeds; the per-sample accessor is total for every draw
    `d < k` and returns the `d`-th top-k position of the sample's row, a label of the announced range; hence the
    comprehension `[getitem_class(i) for i in range(len)]` under draws `d i` is the list `plTopkSpec n topkIdx d`. -/
theorem pseudoLabel_topk_closed_form_total (n C : Nat) (rows : List (List Rat)) (k : Nat) (tau : Tau)
    (topkIdx : List (List Nat)) (hwf : plWellFormed n C (.soft rows) none) (hk : k ≤ C)
    (hrows : topkIdx.length = n) (hrow : ∀ ids ∈ topkIdx, ids.length = k)
    (htk : ∀ ids ∈ topkIdx, ∀ c ∈ ids, c < C) :
    ∃ st, plCtor n C (.soft rows) none (some k) tau topkIdx = .ok st ∧
      plGetall st = .error .notImplemented ∧
      (∀ i d, i < n → d < k → plGetitem st i d = .ok (((topkIdx.getD i []).getD d 0 : Nat) : Int)) ∧
      (∀ d : Nat → Nat, (∀ i, i < n → d i < k) →
        forRange n (fun i => plGetitem st i (d i)) = .ok (plTopkSpec n topkIdx d) ∧
        (plTopkSpec n topkIdx d).length = n ∧
        ∀ l ∈ plTopkSpec n topkIdx d, 0 ≤ l ∧ l < (plShape C : Int)) := by
  obtain ⟨hitem, hall, hni⟩ := c16x_pl_topk n C rows k tau topkIdx hwf hk hrows hrow
  refine ⟨_, c16x_plCtor_ok n C (.soft rows) none (some k) tau topkIdx hwf, hni, hitem, ?_⟩
  intro d hd
  refine ⟨hall d hd, by simp [plTopkSpec], ?_⟩
  intro l hlm
  simp only [plTopkSpec, List.mem_map, List.mem_range] at hlm
  obtain ⟨i, hi, rfl⟩ := hlm
  have hit : i < topkIdx.length := by omega
  have hids : topkIdx[i].length = k := hrow _ (List.getElem_mem hit)
  have hdi : d i < topkIdx[i].length := by rw [hids]; exact hd i hi
  have hmem : (topkIdx.getD i []).getD (d i) 0 ∈ topkIdx[i] := by
    have : (topkIdx.getD i []).getD (d i) 0 = topkIdx[i][d i] := by simp [hit, hdi]
    rw [this]
    exact List.getElem_mem hdi
  have := htk _ (List.getElem_mem hit) _ hmem
  exact ⟨Int.natCast_nonneg _, Int.ofNat_lt.mpr this⟩

/-- **top-k with a seed is reproducible**: with `seed` given, `_getitem_class(idx)` builds a *fresh* generator
    `default_rng(seed + idx)` and draws from it, so the drawn position is a function `fresh (seed + idx)` of `seed + idx`
    alone (`fresh s` = the first position `default_rng(s)` yields; the global tape is not touched). For every such
    `fresh` below `k`, the labels of all samples form the list `plTopkSpec n topkIdx (fun i => fresh (seed + i))` — the
    same list on every evaluation, in whatever order and however often the samples are visited, and equal for two
    samples `i`, `j` of two runs whenever `seed + i = seed' + j` and the top-k rows agree. -/
theorem pseudoLabel_topk_seeded_reproducible (n C : Nat) (rows : List (List Rat)) (k : Nat) (tau : Tau)
    (topkIdx : List (List Nat)) (seed : Nat) (fresh : Nat → Nat) (hwf : plWellFormed n C (.soft rows) none)
    (hk : k ≤ C) (hrows : topkIdx.length = n) (hrow : ∀ ids ∈ topkIdx, ids.length = k)
    (hfresh : ∀ s, fresh s < k) :
    ∃ st, plCtor n C (.soft rows) none (some k) tau topkIdx = .ok st ∧
      forRange n (fun i => plGetitem st i (fresh (seed + i))) =
        .ok (plTopkSpec n topkIdx (fun i => fresh (seed + i))) ∧
      ∀ i, i < n → plGetitem st i (fresh (seed + i)) =
        .ok (((topkIdx.getD i []).getD (fresh (seed + i)) 0 : Nat) : Int) := by
  obtain ⟨hitem, hall, _⟩ := c16x_pl_topk n C rows k tau topkIdx hwf hk hrows hrow
  exact ⟨_, c16x_plCtor_ok n C (.soft rows) none (some k) tau topkIdx hwf,
    hall _ (fun i _ => hfresh _), fun i hi => hitem i _ hi (hfresh _)⟩

/-- seed 5 with the (made-up) generator family `fresh s = s % 2`: samples 0 and 1 draw positions 1 and 0 -/
example : plTopkSpec 2 [[0, 1], [1, 2]] (fun i => (5 + i) % 2) = [1, 1] ∧ (∀ s, s % 2 < 2) :=
  ⟨by decide, fun s => Nat.mod_lt s (by decide)⟩

/-- top-2 of 3 classes, draws 1 and 0: labels 1 and 1 -/
example : plTopkSpec 2 [[0, 1], [1, 2]] (fun i => 1 - i) = [1, 1] ∧
    plWellFormed 2 3 (.soft [[1, 1, 1], [0, 3, 1]]) none := by
  refine ⟨by decide, rfl, ?_, ?_⟩
  · intro r hr; simp at hr; rcases hr with rfl | rfl <;> rfl
  · intro bits h; cases h

/-- **KDRandomClassWrapper.** Domain `rcDomain`: a known mode, at least one class, the torch generators keep their
    contracts, and for the gather mode `0 < world_size ≤ len`. Then `_generate_classes` succeeds and stores the list
    `rcSpec` — the drawn integers / the drawn permutation repeated cyclically (`perm[i % nc]`) / class `j / spc` of
    position `j` in all-gather order — of one entry per sample; the per-sample accessor at every index and the bulk
    accessor read that list; every entry is below `getshape_class()[0] = rcShape nc`. -/
theorem randomClass_closed_form_total (n nc : Nat) (mode : RCMode) (ints perm : List Nat)
    (hdom : rcDomain n nc mode ints perm) :
    rcCtor n nc mode ints perm = .ok (rcSpec n nc mode ints perm) ∧
    (rcSpec n nc mode ints perm).length = n ∧
    (∀ i, rcGetitem (rcSpec n nc mode ints perm) i =
      listGet ((rcSpec n nc mode ints perm).map (fun (c : Nat) => (c : Int))) i) ∧
    rcGetall (rcSpec n nc mode ints perm) = .ok ((rcSpec n nc mode ints perm).map (fun (c : Nat) => (c : Int))) ∧
    ∀ l ∈ (rcSpec n nc mode ints perm).map (fun (c : Nat) => (c : Int)), 0 ≤ l ∧ l < (rcShape nc : Int) := by
  obtain ⟨hctor, hlen⟩ := c16x_rc_main n nc mode ints perm hdom
  refine ⟨hctor, hlen, ?_, rfl, ?_⟩
  · intro i
    unfold rcGetitem
    by_cases hi : i < (rcSpec n nc mode ints perm).length
    · rw [listGet_of_lt _ _ hi, listGet_of_lt _ _ (by simpa using hi)]
      simp
    · rw [c16x_listGet_of_ge _ _ (by omega), c16x_listGet_of_ge _ _ (by simp; omega)]
  · intro l hlm
    obtain ⟨c, hc, rfl⟩ := List.mem_map.mp hlm
    exact ⟨Int.natCast_nonneg _, Int.ofNat_lt.mpr (c16x_rc_range n nc mode ints perm hdom c hc)⟩

/-- **KDRandomClassWrapper, gather mode, one position**: sample `k` gets class `agIdx n W k / spc` with
    `spc = ceil(n / nc)` samples per class -/
theorem randomClass_gather_closed_form (n nc W k : Nat) (ints perm : List Nat) (hW : 0 < W) (hWn : W ≤ n)
    (hk : k < n) :
    (rcSpec n nc (.gatherbug W) ints perm)[k]? = some (agIdx n W k / ((n + nc - 1) / nc)) := by
  simp only [rcSpec]
  have h := c16x_allGatherOrder_getElem? ((List.range n).map (fun j => j / ((n + nc - 1) / nc))) W k hW
    (by simpa using hWn) (by simpa using hk)
  rw [h]
  simp only [List.length_map, List.length_range]
  have hj : agIdx n W k < n := by
    obtain ⟨hS, hSW⟩ := c16x_perRank n W hW hWn
    have hp := padCount_lt n W hW
    have hmodlt : k % ((n + padCount n W) / W) < (n + padCount n W) / W := Nat.mod_lt _ hS
    have hkS : k / ((n + padCount n W) / W) < W := by
      apply Nat.div_lt_of_lt_mul
      rw [hSW]; omega
    have h1 : (k % ((n + padCount n W) / W) + 1) * W ≤ (n + padCount n W) / W * W := Nat.mul_le_mul_right W hmodlt
    rw [Nat.succ_mul] at h1
    unfold agIdx
    simp only
    split <;> omega
  simp [hj]

example : rcSpec 7 4 (.gatherbug 2) [] [] = [0, 1, 2, 3, 0, 1, 2] ∧ rcSpec 5 3 .randperm [] [2, 0, 1] = [2, 0, 1, 2, 0] ∧
    rcDomain 7 4 (.gatherbug 2) [] [] ∧ rcDomain 5 3 .randperm [] [2, 0, 1] :=
  ⟨by decide, by decide, ⟨by decide, by decide, by decide⟩, ⟨by decide, by decide⟩⟩

/-- **SemiWrapper.** Domain: `0 ≤ semi_percent ≤ 1` (`pOk`), `rng.permutation(len)` returned entries below `len`,
    wrapped labels in range or -1. Then the constructor succeeds and both accessors read `smSpec`: -1 for the first
    `k = int(len * semi_percent)` entries of the drawn permutation, the wrapped label elsewhere; one entry per sample,
    each in the (delegated) announced range or -1. -/
theorem semi_closed_form_total (labels : List Int) (nc k : Nat) (perm : List Nat)
    (hperm : ∀ i ∈ perm, i < labels.length) (hl : ∀ c ∈ labels, InRange nc c) :
    ∃ st, smCtor labels true k perm = .ok st ∧
      (∀ i, smGetitem st i = listGet (smSpec labels k perm) i) ∧
      smGetall st = .ok (smSpec labels k perm) ∧ (smSpec labels k perm).length = labels.length ∧
      ∀ l ∈ smSpec labels k perm, InRange (smShape nc) l := by
  obtain ⟨hitem, hall⟩ := c16x_sm_main labels k perm hperm
  refine ⟨⟨labels, perm.take k⟩, rfl, hitem, hall, by simp [smSpec], ?_⟩
  intro l hlm
  exact semi_bulk_in_range labels true k perm _ nc hperm hl rfl _ hall l hlm

example : smSpec [0, 1, 2, 3] 2 [3, 1, 0, 2] = [0, -1, 2, -1] := by decide

/-! ## Which draws matter

In the model every accessor except `plGetitem` takes the constructed state and an index and **no draw**: that the
code's accessors make no draw either is what the harness checks (the recorded tape is replayed into the constructor
only, and a second evaluation under a scrambled global generator must agree). What can be said inside the model, and is
not a matter of signatures, is which of the draws offered to a constructor or accessor are *read*. -/

/-- **draws that are not made do not matter**: without `shuffle` neither `ClassGroupsWrapper` nor
    `RandomSuperclassWrapper` reads its tape; with at most one split `RandomSuperclassWrapper` does not read the second
    permutation; the gather mode of `KDRandomClassWrapper` reads no draw, `random` only the integers, `randperm` only the
    permutation; `SemiWrapper` reads the first `k` entries of its permutation only; `SwapLabelWrapper` reads the uniforms
    only through the comparison with `p`; without top-k the per-sample accessor of `KDPseudoLabelWrapper` reads no
    draw. (`OverwriteClassesWrapper`, `AllgatherClassWrapper` have no tape.) -/
theorem label_unused_draws_irrelevant (labels : List Int) (nc g splits n : Nat) :
    (∀ t t', cgCtor labels nc g false t = cgCtor labels nc g false t') ∧
    (∀ p1 p1' p2 p2', rsCtor labels nc g splits false p1 p2 = rsCtor labels nc g splits false p1' p2') ∧
    (∀ sh p1 p2 p2', splits ≤ 1 → rsCtor labels nc g splits sh p1 p2 = rsCtor labels nc g splits sh p1 p2') ∧
    (∀ W a a' b b', rcCtor n nc (.gatherbug W) a b = rcCtor n nc (.gatherbug W) a' b') ∧
    (∀ a b b', rcCtor n nc .random a b = rcCtor n nc .random a b') ∧
    (∀ a a' b, rcCtor n nc .randperm a b = rcCtor n nc .randperm a' b) ∧
    (∀ pOk k perm perm', perm.take k = perm'.take k → smCtor labels pOk k perm = smCtor labels pOk k perm') ∧
    (∀ (p : Rat) us us' news, us.map (fun u => decide (u < p)) = us'.map (fun u => decide (u < p)) →
      swCtor labels p us news = swCtor labels p us' news) ∧
    (∀ (st : PL) i d d', st.topk = none → plGetitem st i d = plGetitem st i d') := by
  refine ⟨fun _ _ => rfl, fun _ _ _ _ => rfl, ?_, fun _ _ _ _ _ => rfl, fun _ _ _ => rfl, fun _ _ _ => rfl, ?_, ?_, ?_⟩
  · intro sh p1 p2 p2' h
    have : ¬ splits > 1 := by omega
    simp [rsCtor, this]
  · intro pOk k perm perm' h
    simp [smCtor, h]
  · intro p us us' news h
    simp [swCtor, h]
  · intro st i d d' h
    simp [plGetitem, h]

/-! ## "Wrapped data other than the label is untouched"

This clause of C16 has **no theorem**: it is checked by the harness only. The model of this file holds the label
column alone; every wrapper of the property defines `getitem_class` / `getall_class` (and `getshape_class` where the
announced range changes) and nothing else, so every other accessor (`getitem_x`, …) reaches the wrapped dataset through
`KDWrapper.__getattr__` with the *same* index — also for `AllgatherClassWrapper`, which permutes the labels only. A
two-column model would define that delegation and then prove it by `rfl`; the harness instead compares, on every
generated case, the non-label items of the wrapped and the wrapping dataset index by index. -/

end KDVerif.C16
