import KDVerif.Model.Labels

namespace KDVerif.C16
open KDVerif.Labels

/-- placeholder while the harness is brought up -/
theorem swap_bulk_is_table (st : SW) : swGetall st = .ok st.classes := rfl

end KDVerif.C16
