/-
C08 — Seeded sample wrappers make sample i a pure function of (data, config, seed, i).

`KDVerif.Gen.WrapperTable.seedRows` is regenerated from /repo's wrapper sources on every run.
-/
import KDVerif.Lemmas.SeedFlow
import KDVerif.Gen.WrapperTable
import KDVerif.Props.C07

namespace KDVerif.C08
open KDVerif.RngFlow KDVerif.SeedFlow

/-- **generated obligation**: every seeded wrapper builds its generator inside the per-sample method as
    `default_rng(self.seed + idx)` and injects it (under a guard every KDTransform passes) into every slot
    whose members that method applies -/
theorem seed_rows_ok : KDVerif.Gen.WrapperTable.seedRows.all seedRowOk = true := by decide +kernel

/-- **purity**: for every seeded wrapper class, every transform composition it may hold (any depth), every
    seed and index, and *every* state the transforms' generator cells are in when the request arrives
    (= every history of previous requests, every worker, every construction-time state): all cells the request
    can draw from are the fresh generator `seed + idx` -/
theorem seeded_getitem_pure (r : SeedRow) (hr : r ∈ KDVerif.Gen.WrapperTable.seedRows) (seed idx : Nat)
    (kids : Kids) (hc : allConform KDVerif.Gen.RngTable.table kids = true) :
    ∀ c ∈ appliedDraws KDVerif.Gen.RngTable.table r.applied
        (seededGetitem KDVerif.Gen.RngTable.table r seed idx kids), c = seed + idx := by
  have hok : seedRowOk r = true := by
    have := seed_rows_ok
    rw [List.all_eq_true] at this
    exact this r hr
  exact seeded_sound _ C07.table_ok r hok (seed + idx) kids hc

/-- two arbitrary pre-states (different histories / workers) of the same wrapper lead to the same generator at
    every drawing cell -/
theorem history_independent (r : SeedRow) (hr : r ∈ KDVerif.Gen.WrapperTable.seedRows) (seed idx : Nat)
    (kids₁ kids₂ : Kids) (h₁ : allConform KDVerif.Gen.RngTable.table kids₁ = true)
    (h₂ : allConform KDVerif.Gen.RngTable.table kids₂ = true) :
    ∀ c₁ ∈ appliedDraws KDVerif.Gen.RngTable.table r.applied (seededGetitem KDVerif.Gen.RngTable.table r seed idx kids₁),
    ∀ c₂ ∈ appliedDraws KDVerif.Gen.RngTable.table r.applied (seededGetitem KDVerif.Gen.RngTable.table r seed idx kids₂),
      c₁ = c₂ := by
  intro c₁ hc₁ c₂ hc₂
  rw [seeded_getitem_pure r hr seed idx kids₁ h₁ c₁ hc₁, seeded_getitem_pure r hr seed idx kids₂ h₂ c₂ hc₂]

/-- different indices draw from different generators -/
theorem distinct_index_distinct_generator (seed i j : Nat) (h : i ≠ j) : seed + i ≠ seed + j := by omega

/-- non-vacuity: XTransformWrapper holding compose(random-apply(patchwise(crop))) -/
example : (KDVerif.Gen.WrapperTable.seedRows.any (fun r => r.name == "XTransformWrapper")) = true ∧
    allConform KDVerif.Gen.RngTable.table
      (.cons "transform" (.node "KDComposeTransform" 1 (.cons "transforms"
        (.node "KDRandomApply" 2 (.cons "transform"
          (.node "PatchwiseTransform" 3 (.cons "transform" (.node "KDRandomCrop" 4 .nil) .nil)) .nil)) .nil)) .nil) = true := by
  constructor <;> decide +kernel

end KDVerif.C08
