/-
C08 — Seeded sample wrappers make sample i a pure function of (data, config, seed, i).

`KDVerif.Gen.WrapperTable.seedRows` is regenerated from /repo's wrapper sources on every run.
-/
import KDVerif.Lemmas.SeedFlow
import KDVerif.Lemmas.C07Extra
import KDVerif.Gen.WrapperTable
import KDVerif.Props.C07

namespace KDVerif.C08
open KDVerif.RngFlow KDVerif.SeedFlow

/-- **generated obligation**: every seeded wrapper builds its generator inside the per-sample method as
    `default_rng(self.seed + idx)` and injects it (under a guard every KDTransform passes) into every slot
    whose members that method applies -/
theorem seed_rows_ok : KDVerif.Gen.WrapperTable.seedRows.all seedRowOk = true := by decide +kernel

/-- **purity**: for every seeded wrapper class, every transform composition it may hold (any depth), every
    seed and index, and *every* state the transforms' generator cells are in when the request arrives
    (= every history of previous requests, every worker, every construction-time state): all cells the request
    can draw from are the fresh generator `seed + idx` -/
theorem seeded_getitem_pure (r : SeedRow) (hr : r ∈ KDVerif.Gen.WrapperTable.seedRows) (seed idx : Nat)
    (kids : Kids) (hc : allConform KDVerif.Gen.RngTable.table kids = true) :
    ∀ c ∈ appliedDraws KDVerif.Gen.RngTable.table r.applied
        (seededGetitem KDVerif.Gen.RngTable.table r seed idx kids), c = seed + idx := by
  have hok : seedRowOk r = true := by
    have := seed_rows_ok
    rw [List.all_eq_true] at this
    exact this r hr
  exact seeded_sound _ C07.table_ok r hok (seed + idx) kids hc

/-- two arbitrary pre-states (different histories / workers) of the same wrapper lead to the same generator at
    every drawing cell -/
theorem history_independent (r : SeedRow) (hr : r ∈ KDVerif.Gen.WrapperTable.seedRows) (seed idx : Nat)
    (kids₁ kids₂ : Kids) (h₁ : allConform KDVerif.Gen.RngTable.table kids₁ = true)
    (h₂ : allConform KDVerif.Gen.RngTable.table kids₂ = true) :
    ∀ c₁ ∈ appliedDraws KDVerif.Gen.RngTable.table r.applied (seededGetitem KDVerif.Gen.RngTable.table r seed idx kids₁),
    ∀ c₂ ∈ appliedDraws KDVerif.Gen.RngTable.table r.applied (seededGetitem KDVerif.Gen.RngTable.table r seed idx kids₂),
      c₁ = c₂ := by
  intro c₁ hc₁ c₂ hc₂
  rw [seeded_getitem_pure r hr seed idx kids₁ h₁ c₁ hc₁, seeded_getitem_pure r hr seed idx kids₂ h₂ c₂ hc₂]

/-- different indices draw from different generators -/
theorem distinct_index_distinct_generator (seed i j : Nat) (h : i ≠ j) : seed + i ≠ seed + j := by omega

/-- non-vacuity: XTransformWrapper holding compose(random-apply(patchwise(crop))) -/
example : (KDVerif.Gen.WrapperTable.seedRows.any (fun r => r.name == "XTransformWrapper")) = true ∧
    allConform KDVerif.Gen.RngTable.table
      (.cons "transform" (.node "KDComposeTransform" 1 (.cons "transforms"
        (.node "KDRandomApply" 2 (.cons "transform"
          (.node "PatchwiseTransform" 3 (.cons "transform" (.node "KDRandomCrop" 4 .nil) .nil)) .nil)) .nil)) .nil) = true := by
  constructor <;> decide +kernel

/-! ## Gap theorems (audit round)

Scope note on `seeded_getitem_pure` / `history_independent` above: they speak about the cells of the *members of
the applied slots*; for rows with `applied := []` (KDMixWrapper, KDPseudoLabelWrapper: the per-sample method
draws from the generator it builds, it holds no transforms) they say nothing. The theorems below use the object
model `WState` / `request` / `serve` of `Model/C07Spec.lean`: the generators a request uses are the per-sample
method's own generator *and* every cell of the applied members. -/

theorem c08x_rowOk_of_mem (r : SeedRow) (hr : r ∈ KDVerif.Gen.WrapperTable.seedRows) : seedRowOk r = true := by
  have := seed_rows_ok
  rw [List.all_eq_true] at this
  exact this r hr

/-- the transforms of the examples: compose(random-apply(patchwise(crop))) with cell contents `a b c d` -/
def exKids (a b c d : Nat) : Kids :=
  .cons "transform" (.node "KDComposeTransform" a (.cons "transforms"
    (.node "KDRandomApply" b (.cons "transform"
      (.node "PatchwiseTransform" c (.cons "transform" (.node "KDRandomCrop" d .nil) .nil)) .nil)) .nil)) .nil

def rowX : SeedRow :=
  { name := "XTransformWrapper", seedPlusIdx := true, applied := ["transform"], seeded := ["transform"] }
def rowMix : SeedRow := { name := "KDMixWrapper", seedPlusIdx := true, applied := [], seeded := [] }

/-- the object model performs exactly the injection of the driver-checked `seededGetitem` -/
theorem request_installs_seededGetitem (r : SeedRow) (hr : r ∈ KDVerif.Gen.WrapperTable.seedRows)
    (seed idx : Nat) (w : WState) :
    (request KDVerif.Gen.RngTable.table r seed idx w).1.kids =
      seededGetitem KDVerif.Gen.RngTable.table r seed idx w.kids := by
  simp [request, seededGetitem, c07x_requestGen r (c08x_rowOk_of_mem r hr)]

/-- **clause "returns for index i a value that depends only on the wrapped data, the configuration, the seed
    and i" — closed form, all seeded wrapper rows including KDMixWrapper / KDPseudoLabelWrapper**: the
    generators request `idx` uses (own per-request generator first, then every cell of every applied member, any
    nesting depth) are `seed + idx` repeated, the count being a function of the configuration skeleton only.
    The object's state `w` (own fallback generator, all cell contents) does not occur on the right-hand side.
    Hypothesis: the held transforms are built from the transform table (domain of the property). -/
theorem request_gens_closed_form (r : SeedRow) (hr : r ∈ KDVerif.Gen.WrapperTable.seedRows) (seed idx : Nat)
    (w : WState) (hc : allConform KDVerif.Gen.RngTable.table w.kids = true) :
    (request KDVerif.Gen.RngTable.table r seed idx w).2 =
      List.replicate (1 + (appliedDraws KDVerif.Gen.RngTable.table r.applied (eraseKids w.kids)).length)
        (seed + idx) :=
  c07x_request_closed _ C07.table_ok r (c08x_rowOk_of_mem r hr) seed idx w hc

/-- **the wrapper's own per-request generator** (non-vacuous for rows with `applied := []`): every generator a
    request draws from is `seed + idx`, and there is at least one — the one the per-sample method builds -/
theorem request_draws_only_from_seed_plus_idx (r : SeedRow) (hr : r ∈ KDVerif.Gen.WrapperTable.seedRows)
    (seed idx : Nat) (w : WState) (hc : allConform KDVerif.Gen.RngTable.table w.kids = true) :
    seed + idx ∈ (request KDVerif.Gen.RngTable.table r seed idx w).2 ∧
      ∀ c ∈ (request KDVerif.Gen.RngTable.table r seed idx w).2, c = seed + idx := by
  rw [request_gens_closed_form r hr seed idx w hc]
  constructor
  · rw [Nat.add_comm 1, List.replicate_succ]; exact List.mem_cons_self
  · intro c hcm; exact List.eq_of_mem_replicate hcm

example : (KDVerif.Gen.WrapperTable.seedRows.any (fun r => r == rowMix)) = true ∧
    (request KDVerif.Gen.RngTable.table rowMix 100 5 { own := 77, kids := .nil }).2 = [105] := by
  constructor <;> decide +kernel

/-- **clause "identical for repeated requests, for any order of requests" — every history**: for every list `hs`
    of earlier requests (any indices, any order, repetitions) served by an object that started in an arbitrary
    state `w₀`, the generators used for request `i` afterwards are those a fresh object `wf` of the same
    configuration (same skeleton, other cell contents, other fallback generator) uses for `i` -/
theorem request_after_any_history (r : SeedRow) (hr : r ∈ KDVerif.Gen.WrapperTable.seedRows) (seed i : Nat)
    (hs : List Nat) (w₀ wf : WState) (hshape : eraseKids w₀.kids = eraseKids wf.kids)
    (hc : allConform KDVerif.Gen.RngTable.table w₀.kids = true) :
    (request KDVerif.Gen.RngTable.table r seed i (afterRequests KDVerif.Gen.RngTable.table r seed hs w₀)).2 =
      (request KDVerif.Gen.RngTable.table r seed i wf).2 := by
  have hsk := c07x_afterRequests_skel KDVerif.Gen.RngTable.table r seed hs w₀
  have hcf : allConform KDVerif.Gen.RngTable.table wf.kids = true := by
    rw [← c07x_allConform_erase, ← hshape, c07x_allConform_erase]; exact hc
  rw [request_gens_closed_form r hr seed i _ (by rw [hsk.2]; exact hc),
    request_gens_closed_form r hr seed i wf hcf, hsk.1, hshape]

/-- **clauses "any order of requests", "any number of dataloader workers", "all index-to-worker assignments"
    — closed form of a whole request stream**: one object (= one worker's copy of the dataset, in whatever state
    it was forked) serving an arbitrary request sequence `reqs` uses, request by request, `pureGens` of the
    requested index: a `map` of a function of (configuration skeleton, seed, index) over the request list. Which
    worker serves an index, what it served before and how often is therefore irrelevant. -/
theorem serve_closed_form (r : SeedRow) (hr : r ∈ KDVerif.Gen.WrapperTable.seedRows) (seed : Nat)
    (reqs : List Nat) (w : WState) (hc : allConform KDVerif.Gen.RngTable.table w.kids = true) :
    serve KDVerif.Gen.RngTable.table r seed w reqs =
      reqs.map (pureGens KDVerif.Gen.RngTable.table r seed (eraseKids w.kids)) :=
  c07x_serve_closed _ C07.table_ok r (c08x_rowOk_of_mem r hr) seed reqs w hc

/-- two workers (arbitrary states of the same configuration, arbitrary request sequences): wherever both serve the
    same index — at positions `p₁`, `p₂` of their sequences — they use the same generators -/
theorem workers_agree_on_every_index (r : SeedRow) (hr : r ∈ KDVerif.Gen.WrapperTable.seedRows) (seed : Nat)
    (reqs₁ reqs₂ : List Nat) (w₁ w₂ : WState) (hshape : eraseKids w₁.kids = eraseKids w₂.kids)
    (hc : allConform KDVerif.Gen.RngTable.table w₁.kids = true)
    (p₁ p₂ : Nat) (hsame : reqs₁[p₁]? = reqs₂[p₂]?) :
    (serve KDVerif.Gen.RngTable.table r seed w₁ reqs₁)[p₁]? =
      (serve KDVerif.Gen.RngTable.table r seed w₂ reqs₂)[p₂]? := by
  have hc₂ : allConform KDVerif.Gen.RngTable.table w₂.kids = true := by
    rw [← c07x_allConform_erase, ← hshape, c07x_allConform_erase]; exact hc
  rw [serve_closed_form r hr seed reqs₁ w₁ hc, serve_closed_form r hr seed reqs₂ w₂ hc₂,
    List.getElem?_map, List.getElem?_map, hsame, hshape]

example : serve KDVerif.Gen.RngTable.table rowX 100 { own := 77, kids := exKids 1 2 3 4 } [5, 0, 5] =
    [[105, 105, 105], [100, 100, 100], [105, 105, 105]] := by decide +kernel

/-- **clause "different indices draw from different streams", tied to the request**: for `i ≠ j` no generator
    used for request `i` (own generator or any member cell, in any object state) is a generator used for request
    `j`; both lists are non-empty by `request_draws_only_from_seed_plus_idx` -/
theorem distinct_index_disjoint_generators (r : SeedRow) (hr : r ∈ KDVerif.Gen.WrapperTable.seedRows)
    (seed i j : Nat) (hij : i ≠ j) (w₁ w₂ : WState)
    (h₁ : allConform KDVerif.Gen.RngTable.table w₁.kids = true)
    (h₂ : allConform KDVerif.Gen.RngTable.table w₂.kids = true) :
    ∀ c₁ ∈ (request KDVerif.Gen.RngTable.table r seed i w₁).2,
    ∀ c₂ ∈ (request KDVerif.Gen.RngTable.table r seed j w₂).2, c₁ ≠ c₂ := by
  intro c₁ hc₁ c₂ hc₂
  have e₁ := (request_draws_only_from_seed_plus_idx r hr seed i w₁ h₁).2 c₁ hc₁
  have e₂ := (request_draws_only_from_seed_plus_idx r hr seed j w₂ h₂).2 c₂ hc₂
  omega

/-- the same for the driver-checked `seededGetitem`: the generators it installs for `i` and for `j ≠ i` in the
    drawing cells of the applied members differ -/
theorem distinct_index_disjoint_cells (r : SeedRow) (hr : r ∈ KDVerif.Gen.WrapperTable.seedRows)
    (seed i j : Nat) (hij : i ≠ j) (kids₁ kids₂ : Kids)
    (h₁ : allConform KDVerif.Gen.RngTable.table kids₁ = true)
    (h₂ : allConform KDVerif.Gen.RngTable.table kids₂ = true) :
    ∀ c₁ ∈ appliedDraws KDVerif.Gen.RngTable.table r.applied (seededGetitem KDVerif.Gen.RngTable.table r seed i kids₁),
    ∀ c₂ ∈ appliedDraws KDVerif.Gen.RngTable.table r.applied (seededGetitem KDVerif.Gen.RngTable.table r seed j kids₂),
      c₁ ≠ c₂ := by
  intro c₁ hc₁ c₂ hc₂
  have e₁ := seeded_getitem_pure r hr seed i kids₁ h₁ c₁ hc₁
  have e₂ := seeded_getitem_pure r hr seed j kids₂ h₂ c₂ hc₂
  omega

example : appliedDraws KDVerif.Gen.RngTable.table rowX.applied
      (seededGetitem KDVerif.Gen.RngTable.table rowX 100 5 (exKids 1 2 3 4)) = [105, 105] ∧
    appliedDraws KDVerif.Gen.RngTable.table rowX.applied
      (seededGetitem KDVerif.Gen.RngTable.table rowX 100 6 (exKids 9 8 7 6)) = [106, 106] := by
  constructor <;> decide +kernel

end KDVerif.C08
