/-
C01 — Mode string decides exactly which items a sample has, and in which order.

Model: KDVerif/Model/ModeWrapper.lean (constructor planner, `__getitem__`, index forms, static helpers).
Loader results are symbolic tags `(loader name, sample index, call number)`.
-/
import KDVerif.Model.ModeWrapper
import KDVerif.Lemmas.ModeWrapperPlan
import KDVerif.Lemmas.ModeWrapperGet

namespace KDVerif.C01
open KDVerif.ModeWrapper

/-! ### the constructor's planner (fused-group detection and index bookkeeping) -/

/-- **delivered in mode order**: every planned loader writes only positions whose mode item it loads; the `j`-th
    component of a joint (fused) loader goes to a position that holds the group's `j`-th item — for every mode
    (any length, order, duplicates) and every fused declaration the constructor accepts -/
theorem loaders_write_their_own_positions (fusedOps : List (List String)) (items : List String)
    (hnd : ∀ f ∈ fusedOps, hasDup f = false) : ∀ e ∈ plan fusedOps items, EntryOk items e :=
  plan_entries_ok fusedOps items hnd

/-- **every mode position gets a value**: each position is written by some planned loader -/
theorem every_position_loaded (fusedOps : List (List String)) (items : List String) :
    ∀ p, p < items.length → ∃ e ∈ plan fusedOps items, covers e p :=
  plan_covers' fusedOps items

/-- the members of a jointly loaded group land on pairwise distinct positions … -/
theorem joint_positions_distinct (fusedOps : List (List String)) (items : List String)
    (hnd : ∀ f ∈ fusedOps, hasDup f = false) :
    ∀ ops poss, Entry.fused ops poss ∈ plan fusedOps items → poss.Nodup :=
  plan_fused_positions_distinct fusedOps items hnd

/-- … and what the joint loader wrote there is final: no later loader overwrites a position of a joint group, so
    all positions of the group carry the components of that one joint call -/
theorem joint_load_is_final (fusedOps : List (List String)) (items : List String)
    (hnd : ∀ f ∈ fusedOps, hasDup f = false) (pre : List Entry) (ops : List String) (poss : List Nat) (post : List Entry)
    (h : plan fusedOps items = pre ++ Entry.fused ops poss :: post) :
    ∀ e ∈ post, ∀ p ∈ poss, ¬ covers e p :=
  plan_fused_final fusedOps items hnd pre ops poss post h

/-- without jointly loaded items the loaders run once each, in mode order -/
theorem unfused_plan_is_mode_order (items : List String) (p : Nat) :
    (plan [] items)[p]? = items[p]?.map (fun it => Entry.single it p) :=
  plan_nofused_getElem? items p

/-! ### end to end: what `mw[idx]` holds at every position -/

/-- **position by position**: for every wrapper the constructor accepts (any mode string, any fused declaration),
    every request index and every state of the instrumentation counter:
    * the sample has one value per mode item;
    * a loadable item's position holds the value of THAT item's loader for THIS sample, produced by a call made
      during this request — whether it was loaded alone or as a component of a joint load;
    * `index` positions hold the (normalised) index;
    * a `ctx.<key>` position holds what the per-sample context held under that key at its turn
      (a `KeyError` if nothing earlier recorded it);
    * all members of a jointly loaded group hold components of ONE joint call, at their own mode positions. -/
theorem getitem_positions (s : Stack) (mode : String) (rc : Bool) (mw : MW) (h : ctor s mode rc = .ok mw)
    (c : Nat) (idx : Int) :
    mw.items = mode.splitOn " " ∧
    (unpacked s mw c idx).length = mw.items.length ∧
    (∀ (p : Nat) (it : String), mw.items[p]? = some it → it ≠ "index" → isCtx it = false →
      ∃ call, c ≤ call ∧ call < (getOne s mw c idx).2 ∧
        (unpacked s mw c idx)[p]? = some (Val.tag it (normIndex s idx) call)) ∧
    (∀ (p : Nat), mw.items[p]? = some "index" → (∀ f ∈ s.fused, "index" ∉ f) →
      (unpacked s mw c idx)[p]? = some (Val.index (normIndex s idx))) ∧
    (∀ (p : Nat) (it : String), mw.items[p]? = some it → isCtx it = true → (∀ f ∈ s.fused, it ∉ f) →
      ∃ pre post, mw.entries = pre ++ Entry.single it p :: post ∧ (∀ e' ∈ post, ¬ covers e' p) ∧
        (unpacked s mw c idx)[p]? =
          some (runEntry s (normIndex s idx) (stAfter s (normIndex s idx) ⟨c, []⟩ pre) (Entry.single it p)).1 ∧
        (unpacked s mw c idx)[p]? =
          some (match ctxGet (stAfter s (normIndex s idx) ⟨c, []⟩ pre).ctx (it.drop 4).toString with
                | some v => v
                | none => Val.keyError (it.drop 4).toString)) ∧
    (∀ (ops : List String) (poss : List Nat), Entry.fused ops poss ∈ mw.entries →
      poss.length = ops.length ∧ poss.Nodup ∧
      ∃ c₀, c ≤ c₀ ∧ c₀ < (getOne s mw c idx).2 ∧
        ∀ (j q : Nat), poss[j]? = some q → ∃ o : String, ops[j]? = some o ∧ mw.items[q]? = some o ∧
          (unpacked s mw c idx)[q]? = some (Val.tag o (normIndex s idx) c₀)) :=
  ctor_getitem s mode rc mw h c idx

/-- what the caller sees without `return_ctx`: the bare value for a one-item mode, else the tuple of the positions -/
theorem getitem_returns_positions (s : Stack) (mw : MW) (c : Nat) (idx : Int) (hr : mw.returnCtx = false) :
    (∀ v, unpacked s mw c idx = [v] → (getOne s mw c idx).1 = Out.bare v) ∧
    ((unpacked s mw c idx).length ≠ 1 → (getOne s mw c idx).1 = Out.tuple (unpacked s mw c idx)) :=
  getOne_out s mw c idx hr

/-! ### index forms -/

/-- negative indices count from the end: `mw[k] = mw[len + k]` for `-len ≤ k < 0` -/
theorem neg_index (s : Stack) (mw : MW) (c : Nat) (k : Int) (hk : k < 0) (hlo : 0 ≤ (s.len : Int) + k) :
    getOne s mw c k = getOne s mw c ((s.len : Int) + k) := by
  unfold getOne
  have h2 : ¬ ((s.len : Int) + k < 0) := by omega
  simp only [hk, if_true, h2, if_false]

/-- an index list is answered element by element, in order (`[self[i] for i in idx]`) -/
theorem list_eq_map_cons (s : Stack) (mw : MW) (c : Nat) (i : Int) (is : List Int) :
    (getMany s mw c (i :: is)).1 = (getOne s mw c i).1 :: (getMany s mw (getOne s mw c i).2 is).1 := rfl

theorem list_length (s : Stack) (mw : MW) : ∀ (c : Nat) (is : List Int), (getMany s mw c is).1.length = is.length := by
  intro c is
  induction is generalizing c with
  | nil => rfl
  | cons i is ih => simp [getMany, ih]

theorem rangeGo_bounds_pos : ∀ (fuel : Nat) (cur stop step : Int), 0 < step → 0 ≤ cur →
    ∀ i ∈ rangeGo fuel cur stop step, 0 ≤ i ∧ i < stop := by
  intro fuel
  induction fuel with
  | zero => intro cur stop step _ _ i hi; simp [rangeGo] at hi
  | succ fuel ih =>
    intro cur stop step hs hc i hi
    simp only [rangeGo] at hi
    by_cases hcond : (step > 0 ∧ cur < stop) ∨ (step < 0 ∧ cur > stop)
    · simp only [hcond, if_true, List.mem_cons] at hi
      cases hi with
      | inl h => subst h; constructor <;> omega
      | inr h => exact ih (cur + step) stop step hs (by omega) i h
    · simp [hcond] at hi

theorem rangeGo_bounds_neg : ∀ (fuel : Nat) (cur stop step hi' : Int), step < 0 → -1 ≤ stop → cur ≤ hi' →
    ∀ i ∈ rangeGo fuel cur stop step, 0 ≤ i ∧ i ≤ hi' := by
  intro fuel
  induction fuel with
  | zero => intro cur stop step hi' _ _ _ i hi; simp [rangeGo] at hi
  | succ fuel ih =>
    intro cur stop step hi' hs hst hc i hi
    simp only [rangeGo] at hi
    by_cases hcond : (step > 0 ∧ cur < stop) ∨ (step < 0 ∧ cur > stop)
    · simp only [hcond, if_true, List.mem_cons] at hi
      cases hi with
      | inl h => subst h; constructor <;> omega
      | inr h => exact ih (cur + step) stop step hi' hs hst (by omega) i h
    · simp [hcond] at hi

theorem clampI_bounds (x lo hi : Int) (h : lo ≤ hi) : lo ≤ clampI x lo hi ∧ clampI x lo hi ≤ hi := by
  unfold clampI
  by_cases h1 : x < lo
  · simp [h1]; omega
  · by_cases h2 : x > hi
    · simp [h1, h2]; omega
    · simp [h1, h2]; omega

theorem normBound (v : Option Int) (dflt lo hi : Int) (n : Int) (hd : lo ≤ dflt ∧ dflt ≤ hi) (h : lo ≤ hi) :
    lo ≤ normIdx v dflt lo hi n ∧ normIdx v dflt lo hi n ≤ hi := by
  unfold normIdx
  cases v with
  | none => exact hd
  | some v =>
    simp only
    by_cases hv : v < 0
    · simp only [hv, if_true]; exact clampI_bounds _ _ _ h
    · simp only [hv, if_false]; exact clampI_bounds _ _ _ h

/-- every index a slice expands to is a valid sample index (Python `range(len)[slice]` semantics, any start /
    stop / non-zero step incl. negative and out-of-range ones) -/
theorem slice_indices_valid (n : Nat) (start stop : Option Int) (step : Int) (hstep : step ≠ 0) :
    ∀ i ∈ sliceRange n start stop step, 0 ≤ i ∧ i < (n : Int) := by
  intro i hi
  unfold sliceRange sliceIndices at hi
  by_cases hs : step > 0
  · simp only [hs, if_true] at hi
    have h1 := normBound start 0 0 (n : Int) (n : Int) (by omega) (by omega)
    have h2 := normBound stop (n : Int) 0 (n : Int) (n : Int) (by omega) (by omega)
    have hb := rangeGo_bounds_pos (n + 1) _ _ step hs h1.1 i hi
    omega
  · simp only [hs, if_false] at hi
    have hneg : step < 0 := by omega
    by_cases hn : n = 0
    · subst hn
      -- empty dataset: start = -1 or clamped to [-1,-1]; the range is empty
      have h1 := normBound start ((0 : Nat) - 1 : Int) (-1) (((0 : Nat) : Int) - 1) ((0 : Nat) : Int) (by omega) (by omega)
      have h2 := normBound stop (-1) (-1) (((0 : Nat) : Int) - 1) ((0 : Nat) : Int) (by omega) (by omega)
      have hb := rangeGo_bounds_neg ((0 : Nat) + 1) _ _ step (((0 : Nat) : Int) - 1) hneg h2.1 h1.2 i hi
      omega
    · have h1 := normBound start ((n : Int) - 1) (-1) ((n : Int) - 1) (n : Int) (by omega) (by omega)
      have h2 := normBound stop (-1) (-1) ((n : Int) - 1) (n : Int) (by omega) (by omega)
      have hb := rangeGo_bounds_neg (n + 1) _ _ step ((n : Int) - 1) hneg h2.1 h1.2 i hi
      omega

/-! ### packaging -/

theorem writeBack_length : ∀ (l : List (Entry × Val)) (out : List Val), (writeBack out l).length = out.length := by
  intro l
  induction l with
  | nil => intro out; rfl
  | cons p rest ih =>
    intro out
    rcases p with ⟨e, v⟩
    cases e with
    | single item pos => simp [writeBack, ih]
    | fused ops poss =>
      cases v with
      | tuple vs =>
        simp only [writeBack]
        rw [ih]
        generalize (poss.zip vs) = ps
        induction ps generalizing out with
        | nil => rfl
        | cons q qs ihq => simp only [List.foldl_cons]; rw [ihq]; simp
      | index i => simp [writeBack, ih]
      | tag n i c => simp [writeBack, ih]
      | keyError k => simp [writeBack, ih]
      | none => simp [writeBack, ih]

/-- the sample has exactly one value per mode item; a one-item mode yields the bare value, several items a tuple,
    and `(items, ctx)` is returned iff `return_ctx` -/
theorem packaging (s : Stack) (mw : MW) (c : Nat) (idx : Int) :
    (mw.returnCtx = false →
      (mw.items.length = 1 → ∃ v, (getOne s mw c idx).1 = Out.bare v) ∧
      (mw.items.length ≠ 1 → ∃ vs, (getOne s mw c idx).1 = Out.tuple vs ∧ vs.length = mw.items.length)) ∧
    (mw.returnCtx = true → ∃ o ctx, (getOne s mw c idx).1 = Out.withCtx o ctx) := by
  constructor
  · intro hr
    unfold getOne
    simp only [hr, Bool.false_eq_true, if_false]
    have hlen := writeBack_length (mw.entries.zip (runEntries s (if idx < 0 then (s.len : Int) + idx else idx) ⟨c, []⟩ mw.entries).1)
      (List.replicate mw.items.length Val.none)
    simp only [List.length_replicate] at hlen
    generalize writeBack (List.replicate mw.items.length Val.none)
      (mw.entries.zip (runEntries s (if idx < 0 then (s.len : Int) + idx else idx) ⟨c, []⟩ mw.entries).1) = u at hlen
    constructor
    · intro h1
      rw [h1] at hlen
      match u, hlen with
      | [v], _ => exact ⟨v, rfl⟩
    · intro hne
      match u, hlen with
      | [], h => exact ⟨[], rfl, h⟩
      | [v], h => simp at h; exact absurd h.symm hne
      | v :: w :: r, h => exact ⟨v :: w :: r, rfl, h⟩
  · intro hr
    unfold getOne
    simp only [hr, if_true]
    exact ⟨_, _, rfl⟩

/-! ### context -/

/-- every value a loader writes into the per-sample ctx carries this request's index -/
def CtxOf (idx : Int) (c : Ctx) : Prop := ∀ p ∈ c, ∃ n k, p.2 = Val.tag n idx k

theorem ctxSet_of (idx : Int) (c : Ctx) (k n : String) (call : Nat) (h : CtxOf idx c) :
    CtxOf idx (ctxSet c k (Val.tag n idx call)) := by
  intro p hp
  simp only [ctxSet, List.mem_cons, List.mem_filter] at hp
  cases hp with
  | inl h1 => exact ⟨n, call, by rw [h1]⟩
  | inr h1 => exact h p h1.1

theorem foldl_records_of (idx : Int) (n : String) (call : Nat) :
    ∀ (rs : List (String × String)) (c : Ctx), CtxOf idx c →
      CtxOf idx (rs.foldl (fun c r => ctxSet c r.2 (Val.tag n idx call)) c) := by
  intro rs
  induction rs with
  | nil => intro c h; exact h
  | cons r rs ih => intro c h; exact ih _ (ctxSet_of idx c r.2 n call h)

theorem runEntry_ctx (s : Stack) (idx : Int) (st : LS) (e : Entry) (h : CtxOf idx st.ctx) :
    CtxOf idx (runEntry s idx st e).2.ctx := by
  cases e with
  | single item pos =>
    simp only [runEntry]
    by_cases h1 : (item == "index") = true
    · simp only [h1, if_true]; exact h
    · simp only [h1, Bool.false_eq_true, if_false]
      by_cases h2 : isCtx item = true
      · simp only [h2, if_true]
        cases ctxGet st.ctx (item.drop 4).toString <;> exact h
      · simp only [h2, Bool.false_eq_true, if_false]
        exact foldl_records_of idx item st.call _ st.ctx h
  | fused ops poss =>
    simp only [runEntry]
    exact foldl_records_of idx (String.join ops) st.call _ st.ctx h

theorem runEntries_ctx (s : Stack) (idx : Int) : ∀ (es : List Entry) (st : LS), CtxOf idx st.ctx →
    CtxOf idx (runEntries s idx st es).2.ctx := by
  intro es
  induction es with
  | nil => intro st h; exact h
  | cons e es ih => intro st h; exact ih _ (runEntry_ctx s idx st e h)

/-- **the context is fresh per request and never carries entries of another sample**: whatever was requested
    before (the model has no ctx input — a request starts from the empty ctx), every entry of the ctx returned
    for index `i` was recorded by a loader invoked with `i` in this very call -/
theorem ctx_only_this_sample (s : Stack) (mw : MW) (c : Nat) (idx : Int) (o : Out) (ctx : Ctx)
    (h : (getOne s mw c idx).1 = Out.withCtx o ctx) :
    CtxOf (if idx < 0 then (s.len : Int) + idx else idx) ctx := by
  unfold getOne at h
  by_cases hr : mw.returnCtx = true
  · simp only [hr, if_true] at h
    injection h with _ h2
    rw [← h2]
    by_cases hp : mw.propagateCtx = true
    · simp only [hp, if_true]
      exact runEntries_ctx s _ mw.entries ⟨c, []⟩ (by intro p hp; simp at hp)
    · simp only [hp, Bool.false_eq_true, if_false]
      intro p hp; simp at hp
  · simp only [hr, Bool.false_eq_true, if_false] at h
    split at h <;> simp at h

/-! ### static helpers on a collated batch -/

/-- `set_item` followed by `get_item` returns the value, for every mode containing the item -/
theorem setItem_getItem {α} (mode item : String) (batch : List α) (v : α) (i : Nat)
    (hi : getItemIndex mode item = some i) (hlt : i < batch.length) :
    (setItem mode item batch v).bind (fun b => getItem mode item b) = some v := by
  simp [setItem, getItem, hi, hlt]

/-- `TorchWrapper`: item `k` of a tuple-returning torch dataset is component `index(mode, k)` of that dataset's
    sample (`TorchWrapper._getitem` = `dataset[idx][ModeWrapper.get_item_index(mode, k)]`, modelled by `getItem`);
    an item that is not in the mode has no component (the code asserts) -/
theorem torchWrapper_item {α} (mode item : String) (sample : List α) :
    getItem mode item sample =
      (if (mode.splitOn " ").contains item then sample[(mode.splitOn " ").idxOf item]? else none) := by
  unfold getItem getItemIndex
  by_cases h : item ∈ mode.splitOn " "
  · simp [h]
  · simp [h]

/-- `add_item` is idempotent and makes the item present -/
theorem addItem_has (mode item : String) (h : hasItem mode item = true) : addItem mode item = mode := by
  simp [addItem, h]

/-- non-vacuity: planner on mode "class x" with fused group [x, class] (the overwritten-single case) -/
example : plan [["x", "class"]] ["class", "x"] = [.single "class" 0, .fused ["x", "class"] [1, 0]] := by decide

example : sliceRange 5 (some (-2)) none (-2) = [3, 1] := by decide

end KDVerif.C01
