/-
C01 — Mode string decides exactly which items a sample has, and in which order.

Model: KDVerif/Model/ModeWrapper.lean (constructor planner, `__getitem__`, index forms, static helpers).
Loader results are symbolic tags `(loader name, sample index, call number)`.
-/
import KDVerif.Model.ModeWrapper
import KDVerif.Lemmas.ModeWrapperPlan
import KDVerif.Lemmas.ModeWrapperGet
import KDVerif.Model.C01Spec
import KDVerif.Lemmas.C01Extra

namespace KDVerif.C01
open KDVerif.ModeWrapper

/-! ### the constructor's planner (fused-group detection and index bookkeeping) -/

/-- **delivered in mode order**: every planned loader writes only positions whose mode item it loads; the `j`-th
    component of a joint (fused) loader goes to a position that holds the group's `j`-th item — for every mode
    (any length, order, duplicates) and every fused declaration the constructor accepts -/
theorem loaders_write_their_own_positions (fusedOps : List (List String)) (items : List String)
    (hnd : ∀ f ∈ fusedOps, hasDup f = false) : ∀ e ∈ plan fusedOps items, EntryOk items e :=
  plan_entries_ok fusedOps items hnd

/-- **every mode position gets a value**: each position is written by some planned loader -/
theorem every_position_loaded (fusedOps : List (List String)) (items : List String) :
    ∀ p, p < items.length → ∃ e ∈ plan fusedOps items, covers e p :=
  plan_covers' fusedOps items

/-- the members of a jointly loaded group land on pairwise distinct positions … -/
theorem joint_positions_distinct (fusedOps : List (List String)) (items : List String)
    (hnd : ∀ f ∈ fusedOps, hasDup f = false) :
    ∀ ops poss, Entry.fused ops poss ∈ plan fusedOps items → poss.Nodup :=
  plan_fused_positions_distinct fusedOps items hnd

/-- … and what the joint loader wrote there is final: no later loader overwrites a position of a joint group, so
    all positions of the group carry the components of that one joint call -/
theorem joint_load_is_final (fusedOps : List (List String)) (items : List String)
    (hnd : ∀ f ∈ fusedOps, hasDup f = false) (pre : List Entry) (ops : List String) (poss : List Nat) (post : List Entry)
    (h : plan fusedOps items = pre ++ Entry.fused ops poss :: post) :
    ∀ e ∈ post, ∀ p ∈ poss, ¬ covers e p :=
  plan_fused_final fusedOps items hnd pre ops poss post h

/-- without jointly loaded items the loaders run once each, in mode order -/
theorem unfused_plan_is_mode_order (items : List String) (p : Nat) :
    (plan [] items)[p]? = items[p]?.map (fun it => Entry.single it p) :=
  plan_nofused_getElem? items p

/-! ### end to end: what `mw[idx]` holds at every position -/

/-- **position by position**: for every wrapper the constructor accepts (any mode string, any fused declaration),
    every request index and every state of the instrumentation counter:
    * the sample has one value per mode item;
    * a loadable item's position holds the value of THAT item's loader for THIS sample, produced by a call made
      during this request — whether it was loaded alone or as a component of a joint load;
    * `index` positions hold the (normalised) index;
    * a `ctx.<key>` position holds what the per-sample context held under that key at its turn
      (a `KeyError` if nothing earlier recorded it);
    * all members of a jointly loaded group hold components of ONE joint call, at their own mode positions. -/
theorem getitem_positions (s : Stack) (mode : String) (rc : Bool) (mw : MW) (h : ctor s mode rc = .ok mw)
    (c : Nat) (idx : Int) :
    mw.items = mode.splitOn " " ∧
    (unpacked s mw c idx).length = mw.items.length ∧
    (∀ (p : Nat) (it : String), mw.items[p]? = some it → it ≠ "index" → isCtx it = false →
      ∃ call, c ≤ call ∧ call < (getOne s mw c idx).2 ∧
        (unpacked s mw c idx)[p]? = some (Val.tag it (normIndex s idx) call)) ∧
    (∀ (p : Nat), mw.items[p]? = some "index" → (∀ f ∈ s.fused, "index" ∉ f) →
      (unpacked s mw c idx)[p]? = some (Val.index (normIndex s idx))) ∧
    (∀ (p : Nat) (it : String), mw.items[p]? = some it → isCtx it = true → (∀ f ∈ s.fused, it ∉ f) →
      ∃ pre post, mw.entries = pre ++ Entry.single it p :: post ∧ (∀ e' ∈ post, ¬ covers e' p) ∧
        (unpacked s mw c idx)[p]? =
          some (runEntry s (normIndex s idx) (stAfter s (normIndex s idx) ⟨c, []⟩ pre) (Entry.single it p)).1 ∧
        (unpacked s mw c idx)[p]? =
          some (match ctxGet (stAfter s (normIndex s idx) ⟨c, []⟩ pre).ctx (it.drop 4).toString with
                | some v => v
                | none => Val.keyError (it.drop 4).toString)) ∧
    (∀ (ops : List String) (poss : List Nat), Entry.fused ops poss ∈ mw.entries →
      poss.length = ops.length ∧ poss.Nodup ∧
      ∃ c₀, c ≤ c₀ ∧ c₀ < (getOne s mw c idx).2 ∧
        ∀ (j q : Nat), poss[j]? = some q → ∃ o : String, ops[j]? = some o ∧ mw.items[q]? = some o ∧
          (unpacked s mw c idx)[q]? = some (Val.tag o (normIndex s idx) c₀)) :=
  ctor_getitem s mode rc mw h c idx

/-- what the caller sees without `return_ctx`: the bare value for a one-item mode, else the tuple of the positions -/
theorem getitem_returns_positions (s : Stack) (mw : MW) (c : Nat) (idx : Int) (hr : mw.returnCtx = false) :
    (∀ v, unpacked s mw c idx = [v] → (getOne s mw c idx).1 = Out.bare v) ∧
    ((unpacked s mw c idx).length ≠ 1 → (getOne s mw c idx).1 = Out.tuple (unpacked s mw c idx)) :=
  getOne_out s mw c idx hr

/-! ### index forms -/

/-- negative indices count from the end: `mw[k] = mw[len + k]` for `-len ≤ k < 0` -/
theorem neg_index (s : Stack) (mw : MW) (c : Nat) (k : Int) (hk : k < 0) (hlo : 0 ≤ (s.len : Int) + k) :
    getOne s mw c k = getOne s mw c ((s.len : Int) + k) := by
  unfold getOne
  have h2 : ¬ ((s.len : Int) + k < 0) := by omega
  simp only [hk, if_true, h2, if_false]

/-- an index list is answered element by element, in order (`[self[i] for i in idx]`) -/
theorem list_eq_map_cons (s : Stack) (mw : MW) (c : Nat) (i : Int) (is : List Int) :
    (getMany s mw c (i :: is)).1 = (getOne s mw c i).1 :: (getMany s mw (getOne s mw c i).2 is).1 := rfl

theorem list_length (s : Stack) (mw : MW) : ∀ (c : Nat) (is : List Int), (getMany s mw c is).1.length = is.length := by
  intro c is
  induction is generalizing c with
  | nil => rfl
  | cons i is ih => simp [getMany, ih]

theorem rangeGo_bounds_pos : ∀ (fuel : Nat) (cur stop step : Int), 0 < step → 0 ≤ cur →
    ∀ i ∈ rangeGo fuel cur stop step, 0 ≤ i ∧ i < stop := by
  intro fuel
  induction fuel with
  | zero => intro cur stop step _ _ i hi; simp [rangeGo] at hi
  | succ fuel ih =>
    intro cur stop step hs hc i hi
    simp only [rangeGo] at hi
    by_cases hcond : (step > 0 ∧ cur < stop) ∨ (step < 0 ∧ cur > stop)
    · simp only [hcond, if_true, List.mem_cons] at hi
      cases hi with
      | inl h => subst h; constructor <;> omega
      | inr h => exact ih (cur + step) stop step hs (by omega) i h
    · simp [hcond] at hi

theorem rangeGo_bounds_neg : ∀ (fuel : Nat) (cur stop step hi' : Int), step < 0 → -1 ≤ stop → cur ≤ hi' →
    ∀ i ∈ rangeGo fuel cur stop step, 0 ≤ i ∧ i ≤ hi' := by
  intro fuel
  induction fuel with
  | zero => intro cur stop step hi' _ _ _ i hi; simp [rangeGo] at hi
  | succ fuel ih =>
    intro cur stop step hi' hs hst hc i hi
    simp only [rangeGo] at hi
    by_cases hcond : (step > 0 ∧ cur < stop) ∨ (step < 0 ∧ cur > stop)
    · simp only [hcond, if_true, List.mem_cons] at hi
      cases hi with
      | inl h => subst h; constructor <;> omega
      | inr h => exact ih (cur + step) stop step hi' hs hst (by omega) i h
    · simp [hcond] at hi

theorem clampI_bounds (x lo hi : Int) (h : lo ≤ hi) : lo ≤ clampI x lo hi ∧ clampI x lo hi ≤ hi := by
  unfold clampI
  by_cases h1 : x < lo
  · simp [h1]; omega
  · by_cases h2 : x > hi
    · simp [h1, h2]; omega
    · simp [h1, h2]; omega

theorem normBound (v : Option Int) (dflt lo hi : Int) (n : Int) (hd : lo ≤ dflt ∧ dflt ≤ hi) (h : lo ≤ hi) :
    lo ≤ normIdx v dflt lo hi n ∧ normIdx v dflt lo hi n ≤ hi := by
  unfold normIdx
  cases v with
  | none => exact hd
  | some v =>
    simp only
    by_cases hv : v < 0
    · simp only [hv, if_true]; exact clampI_bounds _ _ _ h
    · simp only [hv, if_false]; exact clampI_bounds _ _ _ h

/-- every index a slice expands to is a valid sample index (Python `range(len)[slice]` semantics, any start /
    stop / non-zero step incl. negative and out-of-range ones) -/
theorem slice_indices_valid (n : Nat) (start stop : Option Int) (step : Int) (hstep : step ≠ 0) :
    ∀ i ∈ sliceRange n start stop step, 0 ≤ i ∧ i < (n : Int) := by
  intro i hi
  unfold sliceRange sliceIndices at hi
  by_cases hs : step > 0
  · simp only [hs, if_true] at hi
    have h1 := normBound start 0 0 (n : Int) (n : Int) (by omega) (by omega)
    have h2 := normBound stop (n : Int) 0 (n : Int) (n : Int) (by omega) (by omega)
    have hb := rangeGo_bounds_pos (n + 1) _ _ step hs h1.1 i hi
    omega
  · simp only [hs, if_false] at hi
    have hneg : step < 0 := by omega
    by_cases hn : n = 0
    · subst hn
      -- empty dataset: start = -1 or clamped to [-1,-1]; the range is empty
      have h1 := normBound start ((0 : Nat) - 1 : Int) (-1) (((0 : Nat) : Int) - 1) ((0 : Nat) : Int) (by omega) (by omega)
      have h2 := normBound stop (-1) (-1) (((0 : Nat) : Int) - 1) ((0 : Nat) : Int) (by omega) (by omega)
      have hb := rangeGo_bounds_neg ((0 : Nat) + 1) _ _ step (((0 : Nat) : Int) - 1) hneg h2.1 h1.2 i hi
      omega
    · have h1 := normBound start ((n : Int) - 1) (-1) ((n : Int) - 1) (n : Int) (by omega) (by omega)
      have h2 := normBound stop (-1) (-1) ((n : Int) - 1) (n : Int) (by omega) (by omega)
      have hb := rangeGo_bounds_neg (n + 1) _ _ step ((n : Int) - 1) hneg h2.1 h1.2 i hi
      omega

/-! ### packaging -/

theorem writeBack_length : ∀ (l : List (Entry × Val)) (out : List Val), (writeBack out l).length = out.length := by
  intro l
  induction l with
  | nil => intro out; rfl
  | cons p rest ih =>
    intro out
    rcases p with ⟨e, v⟩
    cases e with
    | single item pos => simp [writeBack, ih]
    | fused ops poss =>
      cases v with
      | tuple vs =>
        simp only [writeBack]
        rw [ih]
        generalize (poss.zip vs) = ps
        induction ps generalizing out with
        | nil => rfl
        | cons q qs ihq => simp only [List.foldl_cons]; rw [ihq]; simp
      | index i => simp [writeBack, ih]
      | tag n i c => simp [writeBack, ih]
      | keyError k => simp [writeBack, ih]
      | none => simp [writeBack, ih]

/-- the sample has exactly one value per mode item; a one-item mode yields the bare value, several items a tuple,
    and `(items, ctx)` is returned iff `return_ctx` -/
theorem packaging (s : Stack) (mw : MW) (c : Nat) (idx : Int) :
    (mw.returnCtx = false →
      (mw.items.length = 1 → ∃ v, (getOne s mw c idx).1 = Out.bare v) ∧
      (mw.items.length ≠ 1 → ∃ vs, (getOne s mw c idx).1 = Out.tuple vs ∧ vs.length = mw.items.length)) ∧
    (mw.returnCtx = true → ∃ o ctx, (getOne s mw c idx).1 = Out.withCtx o ctx) := by
  constructor
  · intro hr
    unfold getOne
    simp only [hr, Bool.false_eq_true, if_false]
    have hlen := writeBack_length (mw.entries.zip (runEntries s (if idx < 0 then (s.len : Int) + idx else idx) ⟨c, []⟩ mw.entries).1)
      (List.replicate mw.items.length Val.none)
    simp only [List.length_replicate] at hlen
    generalize writeBack (List.replicate mw.items.length Val.none)
      (mw.entries.zip (runEntries s (if idx < 0 then (s.len : Int) + idx else idx) ⟨c, []⟩ mw.entries).1) = u at hlen
    constructor
    · intro h1
      rw [h1] at hlen
      match u, hlen with
      | [v], _ => exact ⟨v, rfl⟩
    · intro hne
      match u, hlen with
      | [], h => exact ⟨[], rfl, h⟩
      | [v], h => simp at h; exact absurd h.symm hne
      | v :: w :: r, h => exact ⟨v :: w :: r, rfl, h⟩
  · intro hr
    unfold getOne
    simp only [hr, if_true]
    exact ⟨_, _, rfl⟩

/-! ### context -/

/-- every value a loader writes into the per-sample ctx carries this request's index -/
def CtxOf (idx : Int) (c : Ctx) : Prop := ∀ p ∈ c, ∃ n k, p.2 = Val.tag n idx k

theorem ctxSet_of (idx : Int) (c : Ctx) (k n : String) (call : Nat) (h : CtxOf idx c) :
    CtxOf idx (ctxSet c k (Val.tag n idx call)) := by
  intro p hp
  simp only [ctxSet, List.mem_cons, List.mem_filter] at hp
  cases hp with
  | inl h1 => exact ⟨n, call, by rw [h1]⟩
  | inr h1 => exact h p h1.1

theorem foldl_records_of (idx : Int) (n : String) (call : Nat) :
    ∀ (rs : List (String × String)) (c : Ctx), CtxOf idx c →
      CtxOf idx (rs.foldl (fun c r => ctxSet c r.2 (Val.tag n idx call)) c) := by
  intro rs
  induction rs with
  | nil => intro c h; exact h
  | cons r rs ih => intro c h; exact ih _ (ctxSet_of idx c r.2 n call h)

theorem runEntry_ctx (s : Stack) (idx : Int) (st : LS) (e : Entry) (h : CtxOf idx st.ctx) :
    CtxOf idx (runEntry s idx st e).2.ctx := by
  cases e with
  | single item pos =>
    simp only [runEntry]
    by_cases h1 : (item == "index") = true
    · simp only [h1, if_true]; exact h
    · simp only [h1, Bool.false_eq_true, if_false]
      by_cases h2 : isCtx item = true
      · simp only [h2, if_true]
        cases ctxGet st.ctx (item.drop 4).toString <;> exact h
      · simp only [h2, Bool.false_eq_true, if_false]
        exact foldl_records_of idx item st.call _ st.ctx h
  | fused ops poss =>
    simp only [runEntry]
    exact foldl_records_of idx (String.join ops) st.call _ st.ctx h

theorem runEntries_ctx (s : Stack) (idx : Int) : ∀ (es : List Entry) (st : LS), CtxOf idx st.ctx →
    CtxOf idx (runEntries s idx st es).2.ctx := by
  intro es
  induction es with
  | nil => intro st h; exact h
  | cons e es ih => intro st h; exact ih _ (runEntry_ctx s idx st e h)

/-- **the context is fresh per request and never carries entries of another sample**: whatever was requested
    before (the model has no ctx input — a request starts from the empty ctx), every entry of the ctx returned
    for index `i` was recorded by a loader invoked with `i` in this very call -/
theorem ctx_only_this_sample (s : Stack) (mw : MW) (c : Nat) (idx : Int) (o : Out) (ctx : Ctx)
    (h : (getOne s mw c idx).1 = Out.withCtx o ctx) :
    CtxOf (if idx < 0 then (s.len : Int) + idx else idx) ctx := by
  unfold getOne at h
  by_cases hr : mw.returnCtx = true
  · simp only [hr, if_true] at h
    injection h with _ h2
    rw [← h2]
    by_cases hp : mw.propagateCtx = true
    · simp only [hp, if_true]
      exact runEntries_ctx s _ mw.entries ⟨c, []⟩ (by intro p hp; simp at hp)
    · simp only [hp, Bool.false_eq_true, if_false]
      intro p hp; simp at hp
  · simp only [hr, Bool.false_eq_true, if_false] at h
    split at h <;> simp at h

/-! ### static helpers on a collated batch -/

/-- `set_item` followed by `get_item` returns the value, for every mode containing the item -/
theorem setItem_getItem {α} (mode item : String) (batch : List α) (v : α) (i : Nat)
    (hi : getItemIndex mode item = some i) (hlt : i < batch.length) :
    (setItem mode item batch v).bind (fun b => getItem mode item b) = some v := by
  simp [setItem, getItem, hi, hlt]

/-- `TorchWrapper`: item `k` of a tuple-returning torch dataset is component `index(mode, k)` of that dataset's
    sample (`TorchWrapper._getitem` = `dataset[idx][ModeWrapper.get_item_index(mode, k)]`, modelled by `getItem`);
    an item that is not in the mode has no component (the code asserts) -/
theorem torchWrapper_item {α} (mode item : String) (sample : List α) :
    getItem mode item sample =
      (if (mode.splitOn " ").contains item then sample[(mode.splitOn " ").idxOf item]? else none) := by
  unfold getItem getItemIndex
  by_cases h : item ∈ mode.splitOn " "
  · simp [h]
  · simp [h]

/-- `add_item` is idempotent and makes the item present -/
theorem addItem_has (mode item : String) (h : hasItem mode item = true) : addItem mode item = mode := by
  simp [addItem, h]

/-- non-vacuity: planner on mode "class x" with fused group [x, class] (the overwritten-single case) -/
example : plan [["x", "class"]] ["class", "x"] = [.single "class" 0, .fused ["x", "class"] [1, 0]] := by decide

example : sliceRange 5 (some (-2)) none (-2) = [3, 1] := by decide


/-! ## Added after the clause audit -/

/-! ### slices: closed form (clause "slices … follow Python sequence semantics") -/

/-- **`range(n)[a:b:step]` in closed form.** For every dataset size, every start/stop (absent, negative,
    out of range) and every non-zero step, the indices a slice expands to are
    `s0, s0 + step, s0 + 2·step, …` (`cnt` many), where `s0 = pyStart n a step` and
    `cnt = pyCount n a b step = len(range(s0, s1, step))` are Python's `slice.indices` / range-length rules
    written out in `Model/C01Spec.lean` independently of the model's fuel-driven `rangeGo`. -/
theorem slice_closed_form (n : Nat) (a b : Option Int) (step : Int) (hstep : step ≠ 0) :
    sliceRange n a b step =
      (List.range (pyCount n a b step)).map (fun (k : Nat) => pyStart n a step + (k : Int) * step) :=
  c01x_sliceRange_closed n a b step hstep

example : pyStart 10 (some (-3)) 2 = 7 ∧ pyStop 10 none 2 = 10 ∧ pyCount 10 (some (-3)) none 2 = 2 ∧
    sliceRange 10 (some (-3)) none 2 = [7, 9] := by decide
example : pyStart 5 (some 100) (-2) = 4 ∧ pyStop 5 (some (-100)) (-2) = -1 ∧ pyCount 5 (some 100) (some (-100)) (-2) = 3 ∧
    sliceRange 5 (some 100) (some (-100)) (-2) = [4, 2, 0] := by decide

/-- `mw[:]` visits `0, 1, …, n-1` -/
theorem slice_full_forward (n : Nat) :
    sliceRange n none none 1 = (List.range n).map (fun (k : Nat) => (k : Int)) := by
  rw [c01x_sliceRange_closed n none none 1 (by decide)]; exact c01x_full_forward n

/-- `mw[::-1]` visits `n-1, …, 1, 0` -/
theorem slice_full_reversed (n : Nat) :
    sliceRange n none none (-1) = (List.range n).reverse.map (fun (k : Nat) => (k : Int)) := by
  rw [c01x_sliceRange_closed n none none (-1) (by decide)]; exact c01x_full_backward n

example : sliceRange 4 none none 1 = [0, 1, 2, 3] ∧ sliceRange 4 none none (-1) = [3, 2, 1, 0] := by decide

/-- a slice is strictly increasing for `step > 0`, strictly decreasing for `step < 0`, never repeats an index and
    never selects more than `n` samples -/
theorem slice_sorted_nodup (n : Nat) (a b : Option Int) (step : Int) (hstep : step ≠ 0) :
    (0 < step → (sliceRange n a b step).Pairwise (· < ·)) ∧
    (step < 0 → (sliceRange n a b step).Pairwise (· > ·)) ∧
    (sliceRange n a b step).Nodup ∧
    (sliceRange n a b step).length = pyCount n a b step ∧ pyCount n a b step ≤ n := by
  rw [c01x_sliceRange_closed n a b step hstep]
  unfold pySlice
  have hlt := fun hs => c01x_affine_pairwise_lt (pyCount n a b step) (pyStart n a step) step hs
  have hgt := fun hs => c01x_affine_pairwise_gt (pyCount n a b step) (pyStart n a step) step hs
  refine ⟨hlt, hgt, ?_, by simp, c01x_pyCount_le n a b step hstep⟩
  rw [List.nodup_iff_pairwise_ne]
  by_cases hs : 0 < step
  · exact List.Pairwise.imp (fun h => by omega) (hlt hs)
  · exact List.Pairwise.imp (fun h => by omega) (hgt (by omega))



/-! ### index lists, slices, iteration, len (clause "slices, index lists, iteration and len follow Python
sequence semantics") — model-level versions of the driver's dispatch live in `Model/C01Spec.lean` -/

/-- every request costs the same number of loader invocations (`callsPer mw` = number of planned loaders that are
    not `index` / `ctx.*` getters), whatever the index — this is what makes the call numbers below explicit -/
theorem request_cost (s : Stack) (mw : MW) (c : Nat) (i : Int) : (getOne s mw c i).2 = c + callsPer mw :=
  c01x_getOne_snd s mw c i

/-- **index list**: `mw[[i₀, i₁, …]]` is the list whose `k`-th element is exactly `mw[i_k]` — an ordinary
    single-index request (own empty ctx, see `getOne`) made after `k` complete requests — in the order of the
    list, duplicates and negative entries included -/
theorem index_list_elementwise (s : Stack) (mw : MW) (c : Nat) (is : List Int) :
    getList s mw c is =
      (Out.list (is.mapIdx (fun k i => (getOne s mw (c + k * callsPer mw) i).1)), c + is.length * callsPer mw) := by
  unfold getList
  rw [← c01x_getMany_eq_mapIdx, ← c01x_getMany_snd]

/-- **slice**: `mw[a:b:step]` is the list of `mw[s0 + k·step]` for `k = 0 … cnt-1` with Python's `s0` / `cnt`
    (see `slice_closed_form`), each an ordinary single-index request, in that order -/
theorem slice_elementwise (s : Stack) (mw : MW) (c : Nat) (a b : Option Int) (step : Int) (hstep : step ≠ 0) :
    getSlice s mw c a b step =
      (Out.list ((List.range (pyCount s.len a b step)).map (fun (k : Nat) =>
          (getOne s mw (c + k * callsPer mw) (pyStart s.len a step + (k : Int) * step)).1)),
       c + pyCount s.len a b step * callsPer mw) := by
  unfold getSlice
  simp only [c01x_getMany_snd, c01x_getMany_eq_mapIdx, c01x_sliceRange_closed s.len a b step hstep]
  unfold pySlice
  simp only [List.length_map, List.length_range]
  congr 2
  apply List.ext_getElem?
  intro k
  simp only [List.getElem?_mapIdx, List.getElem?_map]
  cases h : (List.range (pyCount s.len a b step))[k]? with
  | none => rfl
  | some v =>
    have := (List.getElem?_eq_some_iff.mp h).2
    simp only [List.getElem_range] at this
    subst this
    rfl

/-- **iteration**: `list(iter(mw))` is `[mw[0], mw[1], …, mw[len-1]]` in this order, each an ordinary
    single-index request; it stops after exactly `len(mw)` samples -/
theorem iteration_elementwise (s : Stack) (mw : MW) (c : Nat) :
    (iterAll s mw c).1 =
      (List.range s.len).map (fun (k : Nat) => (getOne s mw (c + k * callsPer mw) (k : Int)).1) ∧
    (iterAll s mw c).1.length = lenOf s mw ∧
    (iterAll s mw c).2 = c + s.len * callsPer mw := by
  refine ⟨c01x_iterAll_eq s mw c, ?_, ?_⟩
  · rw [c01x_iterAll_eq]; simp [lenOf]
  · unfold iterAll lenOf; rw [c01x_getMany_snd]; simp

/-- iterating is the same as the full slice `mw[:]` -/
theorem iteration_is_full_slice (s : Stack) (mw : MW) (c : Nat) :
    getSlice s mw c none none 1 = (Out.list (iterAll s mw c).1, (iterAll s mw c).2) := by
  unfold getSlice iterAll lenOf
  rw [slice_full_forward]

/-- **len**: `len(mw)` is the wrapped dataset's length, and it is the number of samples that iteration, `mw[:]`
    and `mw[::-1]` deliver; a slice never delivers more -/
theorem len_semantics (s : Stack) (mw : MW) (c : Nat) :
    lenOf s mw = s.len ∧
    (iterAll s mw c).1.length = lenOf s mw ∧
    (getMany s mw c (sliceRange s.len none none 1)).1.length = lenOf s mw ∧
    (getMany s mw c (sliceRange s.len none none (-1))).1.length = lenOf s mw ∧
    (∀ a b step, step ≠ 0 → (getMany s mw c (sliceRange s.len a b step)).1.length ≤ lenOf s mw) := by
  refine ⟨rfl, (iteration_elementwise s mw c).2.1, ?_, ?_, ?_⟩
  · rw [c01x_getMany_length, slice_full_forward]; simp [lenOf]
  · rw [c01x_getMany_length, slice_full_reversed]; simp [lenOf]
  · intro a b step hstep
    rw [c01x_getMany_length]
    have := slice_sorted_nodup s.len a b step hstep
    unfold lenOf; omega

/-- non-vacuity: a 2-loader wrapper over 5 samples; `mw[[4, -1]]` asks loaders `x` and `y` for sample 4 twice
    (calls 0,1 and 2,3); `mw[3::-2]` visits 3 then 1; iteration visits 0..4 -/
example :
    let s : Stack := ⟨[], [], ["x", "y"], [], 5, false⟩
    let mw : MW := ⟨["x", "y"], [.single "x" 0, .single "y" 1], false, false⟩
    getList s mw 0 [4, -1] =
      (.list [.tuple [.tag "x" 4 0, .tag "y" 4 1], .tuple [.tag "x" 4 2, .tag "y" 4 3]], 4) ∧
    getSlice s mw 0 (some 3) none (-2) =
      (.list [.tuple [.tag "x" 3 0, .tag "y" 3 1], .tuple [.tag "x" 1 2, .tag "y" 1 3]], 4) ∧
    pyStart 5 (some 3) (-2) = 3 ∧ pyCount 5 (some 3) none (-2) = 2 ∧ callsPer mw = 2 ∧
    (iterAll s mw 0).1.length = 5 := by
  refine ⟨by rfl, by rfl, by decide, by decide, by rfl, by rfl⟩



/-! ### `'ctx.<key>'` gives what earlier items recorded for this sample -/

/-- **`ctx.<key>` — exact, in loader order, every stack.** Let the wrapper be built by the constructor, let mode
    position `p` hold a `ctx.<key>` item (not declared inside a fused group), and let `e` be the LAST loader planned
    before that getter which records `<key>` (`recordsKey`: `e` really invokes a loader and `s.records` lists
    `(its name, key)`); this is the property's domain "placed after the item that records the key".
    Then position `p` of the sample holds exactly the value that loader recorded for THIS (normalised) index in THIS
    request — the tag `(e's loader, idx, call number of e's own invocation)` — hence never a `KeyError`; and when
    `e` is an ordinary single loader this is literally the value `e`'s loader returned at its turn. -/
theorem ctx_item_gives_recorded_value (s : Stack) (mode : String) (rc : Bool) (mw : MW)
    (h : ctor s mode rc = .ok mw) (c : Nat) (idx : Int)
    (p : Nat) (it : String) (hit : mw.items[p]? = some it) (hctx : isCtx it = true)
    (hno : ∀ f ∈ s.fused, it ∉ f)
    (pre1 pre2 post : List Entry) (e : Entry)
    (hdec : mw.entries = pre1 ++ e :: (pre2 ++ Entry.single it p :: post))
    (hrec : recordsKey s e (ctxKey it) = true)
    (hlast : ∀ e' ∈ pre2, recordsKey s e' (ctxKey it) = false) :
    (unpacked s mw c idx)[p]? =
      some (Val.tag (entryName e) (normIndex s idx) (c + (pre1.filter isLoading).length)) ∧
    c + (pre1.filter isLoading).length < (getOne s mw c idx).2 ∧
    (∀ r q, e = Entry.single r q →
      (unpacked s mw c idx)[p]? =
        some (runEntry s (normIndex s idx) (stAfter s (normIndex s idx) ⟨c, []⟩ pre1) e).1) := by
  obtain ⟨_, he, _, hnd, _⟩ := ctor_ok s mode rc mw h
  obtain ⟨hu, hcall⟩ := ctor_unpacked s mode rc mw h c idx
  rw [he] at hdec
  have hv := c01x_unpacked_ctx_recorded s s.fused mw.items hnd c (normIndex s idx) p it hit hctx hno
    pre1 pre2 post e hdec hrec hlast
  have hl := (c01x_recordsKey_loading s e _ hrec).1
  refine ⟨by rw [hu]; exact hv, ?_, ?_⟩
  · have hw := call_window s (normIndex s idx) ⟨c, []⟩ pre1 (pre2 ++ Entry.single it p :: post) e hl
    rw [← hdec, stAfter_call] at hw
    rw [hcall]; exact hw.2
  · intro r q hr
    subst hr
    rw [hu, hv]
    simp only [isLoading, Bool.and_eq_true, Bool.not_eq_true', beq_eq_false_iff_ne, ne_eq] at hl
    rw [runEntry_loadable_val s _ _ r q hl.1 hl.2, stAfter_call]
    rfl

/-- **`ctx.<key>` — in mode terms, every stack: never a `KeyError`, never another sample's value.**
    If some EARLIER mode position `q < p` holds a loadable item `r` that records `<key>` (`(r, key) ∈ s.records`;
    `r` and the `ctx` item not declared inside a fused group, so each is served by its own loader), then position `p`
    holds a value recorded under `<key>` by a loader of this stack for THIS index during THIS request. -/
theorem ctx_item_never_keyError (s : Stack) (mode : String) (rc : Bool) (mw : MW)
    (h : ctor s mode rc = .ok mw) (c : Nat) (idx : Int)
    (p q : Nat) (it r : String) (hqp : q < p)
    (hit : mw.items[p]? = some it) (hctx : isCtx it = true) (hno : ∀ f ∈ s.fused, it ∉ f)
    (hr : mw.items[q]? = some r) (hr1 : r ≠ "index") (hr2 : isCtx r = false) (hnor : ∀ f ∈ s.fused, r ∉ f)
    (hrec : (r, ctxKey it) ∈ s.records) :
    ∃ n call, (n, ctxKey it) ∈ s.records ∧ c ≤ call ∧ call < (getOne s mw c idx).2 ∧
      (unpacked s mw c idx)[p]? = some (Val.tag n (normIndex s idx) call) := by
  obtain ⟨_, he, _, hnd, _⟩ := ctor_ok s mode rc mw h
  obtain ⟨hu, hcall⟩ := ctor_unpacked s mode rc mw h c idx
  obtain ⟨pre, post, hdec⟩ := List.append_of_mem (c01x_plan_single_mem s.fused mw.items hnd p it hit hno)
  have hm := c01x_recorder_before s.fused mw.items hnd p q it r hqp hr hnor pre post hdec
  have hrk : recordsKey s (Entry.single r q) (ctxKey it) = true := by
    rw [c01x_recordsKey_eq]
    simp only [isLoading, entryName, Bool.and_eq_true, Bool.not_eq_true', beq_eq_false_iff_ne, ne_eq,
      List.any_eq_true, beq_iff_eq]
    exact ⟨⟨hr1, hr2⟩, (r, ctxKey it), hrec, rfl, rfl⟩
  obtain ⟨e, _, hre, call, h1, h2, hv⟩ := c01x_unpacked_ctx_some s s.fused mw.items hnd c (normIndex s idx) p it
    hit hctx hno pre post hdec ⟨_, hm, hrk⟩
  exact ⟨entryName e, call, (c01x_recordsKey_loading s e _ hre).2, h1, by rw [hcall]; exact h2, by rw [hu]; exact hv⟩

/-- **`ctx.<key>` — in mode terms, stacks without fused operations: the getter repeats the recorder's position.**
    If `q < p`, item `r` at `q` records `<key>` and no item strictly between `q` and `p` records `<key>` (the
    recorder is not shadowed), then positions `p` and `q` of the sample hold the SAME value: the one `r`'s loader
    returned for this index in this request. -/
theorem ctx_item_equals_recorder_unfused (s : Stack) (mode : String) (rc : Bool) (mw : MW)
    (h : ctor s mode rc = .ok mw) (hfu : s.fused = []) (c : Nat) (idx : Int)
    (p q : Nat) (it r : String) (hqp : q < p)
    (hit : mw.items[p]? = some it) (hctx : isCtx it = true)
    (hr : mw.items[q]? = some r) (hr1 : r ≠ "index") (hr2 : isCtx r = false)
    (hrec : (r, ctxKey it) ∈ s.records)
    (hlast : ∀ (q' : Nat) (r' : String), q < q' → q' < p → mw.items[q']? = some r' →
      r' = "index" ∨ isCtx r' = true ∨ (r', ctxKey it) ∉ s.records) :
    ∃ call, c ≤ call ∧ call < (getOne s mw c idx).2 ∧
      (unpacked s mw c idx)[q]? = some (Val.tag r (normIndex s idx) call) ∧
      (unpacked s mw c idx)[p]? = some (Val.tag r (normIndex s idx) call) := by
  obtain ⟨hu, hcall⟩ := ctor_unpacked s mode rc mw h c idx
  rw [hu, hcall, hfu]
  exact c01x_unpacked_ctx_unfused s mw.items c (normIndex s idx) p q it r hqp hit hctx hr hr1 hr2 hrec hlast

/-- non-vacuity (plan level, where mode items can be written down): mode `"x y ctx.seed"`, `x` and `y` both record
    `seed`; the getter at position 2 delivers `y`'s value (the last recorder), call 1 of this request for sample 3 -/
example :
    let s : Stack := ⟨[], [], [], [("x", "seed"), ("y", "seed")], 10, false⟩
    ctxKey "ctx.seed" = "seed" ∧
    plan [] ["x", "y", "ctx.seed"] = [.single "x" 0] ++ .single "y" 1 :: ([] ++ .single "ctx.seed" 2 :: []) ∧
    recordsKey s (.single "y" 1) "seed" = true ∧
    unpackedOf s [] ["x", "y", "ctx.seed"] 0 3 = [.tag "x" 3 0, .tag "y" 3 1, .tag "y" 3 1] := by
  refine ⟨by decide, by decide, by decide, ?_⟩
  have hk : ("ctx.seed".drop 4).copy = "seed" := by decide
  simp [unpackedOf, plan, runEntries, runEntry, writeBack, isCtx, ctxGet, ctxSet, List.range, List.range.loop, hk]



/-! ### jointly loaded items: the planner DOES fuse (converse of `plan_fused_mem`) -/

/-- **fusion completeness.** The planner fuses a declared group `f` at the first unclaimed occurrence of its head
    `f[0]` provided every other member is still unclaimed anywhere in the mode (`findFused`); consequently, for fused
    declarations the constructor accepts (no duplicate inside a group, groups pairwise disjoint) and ANY mode —
    any order of the members, other items in between, duplicates — in which every member of a non-empty declared
    group occurs, the plan contains a joint load `Entry.fused f poss` of exactly that group, with one position per
    member pointing at that member's item. -/
theorem fusion_complete (fusedOps : List (List String)) (items : List String)
    (hnd : ∀ f ∈ fusedOps, hasDup f = false) (hflat : hasDup fusedOps.flatten = false)
    (f : List String) (hf : f ∈ fusedOps) (hne : f ≠ []) (hall : ∀ o ∈ f, o ∈ items) :
    ∃ poss, Entry.fused f poss ∈ plan fusedOps items ∧ poss.length = f.length ∧ poss.Nodup ∧
      ∀ (j q : Nat), poss[j]? = some q → ∃ o, f[j]? = some o ∧ items[q]? = some o := by
  obtain ⟨poss, hm⟩ := c01x_plan_fuses fusedOps items hnd hflat f hf hne hall
  have hok := plan_entries_ok fusedOps items hnd _ hm
  exact ⟨poss, hm, hok.1, plan_fused_positions_distinct fusedOps items hnd f poss hm,
    fun j q hq => entryOk_fused_get items f poss hok j q hq⟩

/-- **jointly, exactly once.** If moreover the group's head occurs only once in the mode (in particular for a
    duplicate-free mode), the plan contains exactly ONE joint load of the group: it splits as
    `pre ++ fused f poss :: post` with no joint load of `f` in `pre` or `post`.
    (With a repeated head, e.g. mode `"x class x class"` and group `(x, class)`, the code fuses twice.) -/
theorem fusion_exactly_once (fusedOps : List (List String)) (items : List String)
    (hnd : ∀ f ∈ fusedOps, hasDup f = false) (hflat : hasDup fusedOps.flatten = false)
    (h : String) (t : List String) (hf : (h :: t) ∈ fusedOps) (hall : ∀ o ∈ h :: t, o ∈ items)
    (hone : ∀ i j : Nat, items[i]? = some h → items[j]? = some h → i = j) :
    ∃ pre poss post, plan fusedOps items = pre ++ Entry.fused (h :: t) poss :: post ∧
      (∀ poss', Entry.fused (h :: t) poss' ∉ pre) ∧ (∀ poss', Entry.fused (h :: t) poss' ∉ post) :=
  c01x_plan_fuses_once fusedOps items hnd hflat h t hf hall hone

example : plan [["x", "class"]] ["class", "index", "x"] = [.single "class" 0, .single "index" 1, .fused ["x", "class"] [2, 0]] := by
  decide
/-- the repeated-head case: two joint loads -/
example : plan [["x", "class"]] ["x", "class", "x", "class"] = [.fused ["x", "class"] [0, 1], .fused ["x", "class"] [2, 3]] := by
  decide

/-- a wrapper built by the constructor has planned a joint load for every declared non-empty group whose members
    all occur in the mode -/
theorem ctor_fuses_declared_group (s : Stack) (mode : String) (rc : Bool) (mw : MW) (h : ctor s mode rc = .ok mw)
    (f : List String) (hf : f ∈ s.fused) (hne : f ≠ []) (hall : ∀ o ∈ f, o ∈ mode.splitOn " ") :
    ∃ poss, Entry.fused f poss ∈ mw.entries ∧ poss.length = f.length ∧ poss.Nodup ∧
      ∀ (j q : Nat), poss[j]? = some q → ∃ o, f[j]? = some o ∧ (mode.splitOn " ")[q]? = some o := by
  obtain ⟨hi, he, _, hnd, hflat⟩ := ctor_ok s mode rc mw h
  rw [he, hi]
  exact fusion_complete s.fused _ hnd hflat f hf hne hall

/-- **end to end: "equal what loading them together once yields".** For a wrapper built by the constructor: if every
    member of a declared (non-empty) fused group occurs in the mode, and occurs there only once (other items may
    repeat), there is ONE call `c₀` of this request such that EVERY mode position holding a member `o` of the group
    holds `o`'s component of that one joint call for this sample — each member at its own mode position, whatever
    the mode order. (With a repeated member the code loads the group, or the member alone, a second time — see the
    `"x class x class"` example above — so the "occurs once" hypothesis cannot be dropped.) -/
theorem joint_group_delivered (s : Stack) (mode : String) (rc : Bool) (mw : MW) (h : ctor s mode rc = .ok mw)
    (c : Nat) (idx : Int) (f : List String) (hf : f ∈ s.fused) (hne : f ≠ []) (hall : ∀ o ∈ f, o ∈ mw.items)
    (honce : ∀ o ∈ f, ∀ i j : Nat, mw.items[i]? = some o → mw.items[j]? = some o → i = j) :
    ∃ c₀, c ≤ c₀ ∧ c₀ < (getOne s mw c idx).2 ∧
      ∀ (q : Nat) (o : String), mw.items[q]? = some o → o ∈ f →
        (unpacked s mw c idx)[q]? = some (Val.tag o (normIndex s idx) c₀) := by
  obtain ⟨_, he, _, hnd, hflat⟩ := ctor_ok s mode rc mw h
  obtain ⟨poss, hm, _, _, _⟩ := fusion_complete s.fused mw.items hnd hflat f hf hne hall
  have hok := plan_entries_ok s.fused mw.items hnd _ hm
  rw [← he] at hm
  obtain ⟨_, _, _, _, _, hj⟩ := getitem_positions s mode rc mw h c idx
  obtain ⟨_, _, c₀, h1, h2, hall'⟩ := hj f poss hm
  refine ⟨c₀, h1, h2, ?_⟩
  intro q o hq ho
  obtain ⟨j, hpj, hfj⟩ := c01x_fused_pos_of_member mw.items f honce poss hok q o hq ho
  obtain ⟨o', ho1, _, hv⟩ := hall' j q hpj
  rw [hfj] at ho1
  simp only [Option.some.injEq] at ho1
  subst ho1
  exact hv

/-- non-vacuity (plan level): mode `"class index x"`, group `(x, class)`: both members carry call 8 -/
example : unpackedOf ⟨[["x", "class"]], [], [], [], 10, false⟩ [["x", "class"]] ["class", "index", "x"] 7 8 =
    [Val.tag "class" 8 8, Val.index 8, Val.tag "x" 8 8] := by
  simp [unpackedOf, plan, planGo, findFused, claim, indexOf, runEntries, runEntry, writeBack, isCtx]



/-! ### packaging with `return_ctx` -/

/-- the per-sample ctx after all planned loaders of the request ran (it started empty) -/
def sampleCtx (s : Stack) (mw : MW) (c : Nat) (idx : Int) : Ctx :=
  (stAfter s (normIndex s idx) ⟨c, []⟩ mw.entries).ctx

/-- **packaging, both settings of `return_ctx`, tied to the value list.** For every wrapper (any plan), the
    request returns
    * without `return_ctx`: the bare value when the mode has one item, else the tuple of ALL positions;
    * with `return_ctx`: the pair of exactly that same payload and the per-sample ctx (`sampleCtx`; the empty ctx
      for a hand-made wrapper that does not propagate — the constructor always propagates when `return_ctx`),
    and the instrumentation counter does not depend on `return_ctx`. -/
theorem packaging_payload (s : Stack) (mw : MW) (c : Nat) (idx : Int) :
    let payload := if mw.items.length = 1 then Out.bare ((unpacked s mw c idx).headD Val.none)
                   else Out.tuple (unpacked s mw c idx)
    (unpacked s mw c idx).length = mw.items.length ∧
    (mw.returnCtx = false → (getOne s mw c idx).1 = payload) ∧
    (mw.returnCtx = true → (getOne s mw c idx).1 =
        Out.withCtx payload (if mw.propagateCtx then sampleCtx s mw c idx else [])) ∧
    (getOne s mw c idx).2 = (getOne s { mw with returnCtx := !mw.returnCtx } c idx).2 := by
  intro payload
  have hlen : (unpacked s mw c idx).length = mw.items.length := by
    unfold unpacked; rw [writeBack_length]; simp
  have hp : pack (unpacked s mw c idx) = payload := by
    show _ = if mw.items.length = 1 then _ else _
    rw [← hlen]
    generalize unpacked s mw c idx = u
    match u with
    | [] => simp [pack]
    | [v] => simp [pack]
    | v :: w :: r => simp [pack]
  refine ⟨hlen, ?_, ?_, rfl⟩
  · intro hr; rw [getOne_fst, hr, hp]; rfl
  · intro hr; rw [getOne_fst, hr, hp]; rfl

/-- **`return_ctx=True` on a constructed wrapper**: `ModeWrapper(ds, mode, return_ctx=True)[i]` is
    `(ModeWrapper(ds, mode, return_ctx=False)[i], ctx)` — the inner part is EXACTLY what the same mode returns
    without `return_ctx`, and `ctx` is the per-sample ctx of this request. -/
theorem packaging_with_ctx (s : Stack) (mode : String) (mw : MW) (h : ctor s mode true = .ok mw)
    (c : Nat) (idx : Int) :
    ∃ mw0, ctor s mode false = .ok mw0 ∧ mw0.items = mw.items ∧ mw0.entries = mw.entries ∧
      (getOne s mw c idx).1 = Out.withCtx (getOne s mw0 c idx).1 (sampleCtx s mw c idx) ∧
      (getOne s mw c idx).2 = (getOne s mw0 c idx).2 := by
  unfold ctor at h ⊢
  by_cases hd : (s.fused.any hasDup || hasDup s.fused.flatten) = true
  · simp [hd] at h
  · simp only [hd, Bool.false_eq_true, if_false] at h ⊢
    cases hc : checkEntries s (!s.fused.isEmpty) (plan s.fused (mode.splitOn " ")) with
    | error e => rw [hc] at h; cases h
    | ok u =>
      rw [hc] at h
      simp only [Except.ok.injEq] at h
      subst h
      exact ⟨_, rfl, rfl, rfl, rfl, rfl⟩

/-- **what the returned ctx holds** (any wrapper): a key that no planned loader records is absent; a recorded key
    holds the value of the LAST planned loader that records it, for THIS index, with that loader's own call number
    of THIS request (cf. `ctx_only_this_sample`) -/
theorem returned_ctx_contents (s : Stack) (mw : MW) (c : Nat) (idx : Int) (key : String) :
    ((∀ e ∈ mw.entries, recordsKey s e key = false) → ctxGet (sampleCtx s mw c idx) key = none) ∧
    ((∃ e ∈ mw.entries, recordsKey s e key = true) →
      ∃ pre e post, mw.entries = pre ++ e :: post ∧ recordsKey s e key = true ∧
        (∀ e' ∈ post, recordsKey s e' key = false) ∧
        ctxGet (sampleCtx s mw c idx) key =
          some (Val.tag (entryName e) (normIndex s idx) (c + (pre.filter isLoading).length))) := by
  constructor
  · intro hn
    unfold sampleCtx
    rw [c01x_final_ctx_absent s _ _ mw.entries key hn]; rfl
  · intro hex
    exact c01x_final_ctx_present s (normIndex s idx) ⟨c, []⟩ mw.entries key hex

/-- non-vacuity: one-item and two-item modes with `return_ctx`, loader `x` records `seed` -/
example :
    let s : Stack := ⟨[], [], ["x", "y"], [("x", "seed")], 5, false⟩
    (getOne s ⟨["x"], [.single "x" 0], true, true⟩ 0 (-1)).1 =
      .withCtx (.bare (.tag "x" 4 0)) [("seed", .tag "x" 4 0)] ∧
    (getOne s ⟨["x", "y"], [.single "x" 0, .single "y" 1], true, true⟩ 0 2).1 =
      .withCtx (.tuple [.tag "x" 2 0, .tag "y" 2 1]) [("seed", .tag "x" 2 0)] := by
  refine ⟨by rfl, by rfl⟩



/-! ### when the constructor rejects (the property's domain sentence) -/

/-- the two duplicate assertions, as list properties -/
theorem dup_check_iff (s : Stack) :
    (s.fused.any hasDup || hasDup s.fused.flatten) = false ↔ (∀ f ∈ s.fused, f.Nodup) ∧ s.fused.flatten.Nodup := by
  simp only [Bool.or_eq_false_iff, List.any_eq_false, c01x_hasDup_iff]
  constructor
  · rintro ⟨h1, h2⟩
    exact ⟨fun f hf => (c01x_hasDup_iff f).mp (by simpa using h1 f hf), h2⟩
  · rintro ⟨h1, h2⟩
    exact ⟨fun f hf => by simpa using (c01x_hasDup_iff f).mpr (h1 f hf), h2⟩

/-- **acceptance = the property's domain.** The constructor returns a wrapper iff
    * no declared fused group repeats an operation and no operation is declared in two groups, and
    * every planned loader name — each mode item loaded on its own, and the joined name of each group that is
      loaded jointly — is `index`, a `ctx.*` getter, or
      - for stacks declaring jointly loaded items: implemented on the OUTERMOST wrapper's type (`s.onType`),
      - for stacks without: reachable through the stack (`s.reachable`);
    and then the wrapper is the one with `items = mode.split(" ")`, the planner's entries, and
    `propagate_ctx = return_ctx ∨ dataset.requires_propagate_ctx ∨ (some item is a ctx getter)`. -/
theorem ctor_accepts_iff (s : Stack) (mode : String) (rc : Bool) (mw : MW) :
    ctor s mode rc = .ok mw ↔
      ((∀ f ∈ s.fused, f.Nodup) ∧ s.fused.flatten.Nodup) ∧
      (∀ e ∈ plan s.fused (mode.splitOn " "), nameAccepted s (!s.fused.isEmpty) (entryName e) = true) ∧
      mw = ⟨mode.splitOn " ", plan s.fused (mode.splitOn " "), rc,
            rc || s.requiresPropagateCtx || (plan s.fused (mode.splitOn " ")).any (fun e => isCtx (entryName e))⟩ := by
  rw [c01x_ctor_cases, ← dup_check_iff, ← c01x_checkEntries_ok]
  by_cases hd : (s.fused.any hasDup || hasDup s.fused.flatten) = true
  · simp [hd]
  · simp only [hd, Bool.false_eq_true, if_false]
    cases hc : checkEntries s (!s.fused.isEmpty) (plan s.fused (mode.splitOn " ")) with
    | error e => simp
    | ok u =>
      simp only [Except.ok.injEq, true_and]
      exact eq_comm

/-- **rejection (1)**: the duplicate assertion fires iff a group repeats an operation or two groups share one -/
theorem ctor_rejects_dup_iff (s : Stack) (mode : String) (rc : Bool) :
    ctor s mode rc = .error .dupFused ↔ ¬ ((∀ f ∈ s.fused, f.Nodup) ∧ s.fused.flatten.Nodup) := by
  rw [c01x_ctor_error_iff, ← dup_check_iff]
  by_cases hd : (s.fused.any hasDup || hasDup s.fused.flatten) = true
  · simp [hd]
  · have hd' : (s.fused.any hasDup || hasDup s.fused.flatten) = false := by simpa using hd
    rw [hd']
    simp only [Bool.false_eq_true, false_and, false_or, true_and, not_true_eq_false, iff_false]
    intro hc
    obtain ⟨_, e', _, _, _, _, herr⟩ := (c01x_checkEntries_error s _ _ _).mp hc
    unfold rejectErr at herr
    split at herr <;> simp at herr

/-- **rejection (2), stacks declaring jointly loaded items**: `assert hasattr(type(dataset), "getitem_<n>")` fires
    with name `n` iff the declaration passes the duplicate checks, the stack declares fused operations, and `n` is
    the FIRST planned loader name (in loader order) that is neither `index` nor `ctx.*` nor implemented on the
    outermost wrapper's type -/
theorem ctor_rejects_notOnType_iff (s : Stack) (mode : String) (rc : Bool) (n : String) :
    ctor s mode rc = .error (.notOnType n) ↔
      ((∀ f ∈ s.fused, f.Nodup) ∧ s.fused.flatten.Nodup) ∧ s.fused ≠ [] ∧
      ∃ pre e post, plan s.fused (mode.splitOn " ") = pre ++ e :: post ∧ entryName e = n ∧
        (∀ e' ∈ pre, entryName e' = "index" ∨ isCtx (entryName e') = true ∨ entryName e' ∈ s.onType) ∧
        n ≠ "index" ∧ isCtx n = false ∧ n ∉ s.onType := by
  rw [c01x_ctor_error_iff, ← dup_check_iff]
  by_cases hd : (s.fused.any hasDup || hasDup s.fused.flatten) = true
  · simp [hd]
  · have hd' : (s.fused.any hasDup || hasDup s.fused.flatten) = false := by simpa using hd
    rw [hd']
    simp only [Bool.false_eq_true, false_and, false_or, true_and]
    rw [c01x_checkEntries_error]
    by_cases hfe : s.fused = []
    · simp [hfe, rejectErr]
    · have hfm : (!s.fused.isEmpty) = true := by simpa using hfe
      rw [hfm]
      simp only [rejectErr, if_true, CtorErr.notOnType.injEq, nameAccepted, Bool.or_eq_true, beq_iff_eq,
        List.contains_iff_mem, Bool.or_eq_false_iff, beq_eq_false_iff_ne, ne_eq, true_and,
        hfe, not_false_eq_true]
      constructor
      · rintro ⟨pre, e, post, heq, hpre, ⟨⟨h1, h2⟩, h3⟩, hn⟩
        subst hn
        refine ⟨pre, e, post, heq, rfl, ?_, h1, h2, by simpa using h3⟩
        intro e' he'
        rcases hpre e' he' with (h | h) | h
        · exact Or.inl h
        · exact Or.inr (Or.inl h)
        · exact Or.inr (Or.inr h)
      · rintro ⟨pre, e, post, heq, hn, hpre, h1, h2, h3⟩
        subst hn
        refine ⟨pre, e, post, heq, ?_, ⟨⟨h1, h2⟩, by simpa using h3⟩, rfl⟩
        intro e' he'
        rcases hpre e' he' with h | h | h
        · exact Or.inl (Or.inl h)
        · exact Or.inl (Or.inr h)
        · exact Or.inr h



/-- **rejection (3), stacks without fused operations**: `assert hasattr(dataset, "getitem_<n>")` fires with name
    `n` iff the stack declares no fused operations and `n` is the FIRST mode item (in mode order) that is neither
    `index` nor `ctx.*` nor reachable through the stack -/
theorem ctor_rejects_notReachable_iff (s : Stack) (mode : String) (rc : Bool) (n : String) :
    ctor s mode rc = .error (.notReachable n) ↔
      s.fused = [] ∧
      ∃ pre post, mode.splitOn " " = pre ++ n :: post ∧
        (∀ x ∈ pre, x = "index" ∨ isCtx x = true ∨ x ∈ s.reachable) ∧
        n ≠ "index" ∧ isCtx n = false ∧ n ∉ s.reachable := by
  rw [c01x_ctor_error_iff]
  by_cases hfe : s.fused = []
  · rw [hfe]
    have hdup : (([] : List (List String)).any hasDup || hasDup ([] : List (List String)).flatten) = false := by
      simp [hasDup]
    simp only [hdup, Bool.false_eq_true, false_and, false_or, true_and]
    rw [c01x_checkEntries_error_names, c01x_plan_nofused_names]
    simp only [List.isEmpty_nil, Bool.not_true, rejectErr, Bool.false_eq_true, if_false,
      CtorErr.notReachable.injEq, nameAccepted, Bool.or_eq_true, beq_iff_eq,
      List.contains_iff_mem, Bool.or_eq_false_iff, beq_eq_false_iff_ne, ne_eq]
    constructor
    · rintro ⟨pre, m, post, heq, hpre, ⟨⟨h1, h2⟩, h3⟩, hn⟩
      subst hn
      refine ⟨pre, post, heq, ?_, h1, h2, by simpa using h3⟩
      intro x hx
      rcases hpre x hx with (h | h) | h
      · exact Or.inl h
      · exact Or.inr (Or.inl h)
      · exact Or.inr (Or.inr h)
    · rintro ⟨pre, post, heq, hpre, h1, h2, h3⟩
      refine ⟨pre, n, post, heq, ?_, ⟨⟨h1, h2⟩, by simpa using h3⟩, rfl⟩
      intro x hx
      rcases hpre x hx with h | h | h
      · exact Or.inl (Or.inl h)
      · exact Or.inl (Or.inr h)
      · exact Or.inr h
  · have hfm : (!s.fused.isEmpty) = true := by simpa using hfe
    simp only [hfe, false_and, iff_false, hfm]
    rintro (⟨_, h⟩ | ⟨_, hc⟩)
    · cases h
    · obtain ⟨_, e', _, _, _, _, herr⟩ := (c01x_checkEntries_error s _ _ _).mp hc
      simp [rejectErr] at herr

/-- **the domain sentence, as a sufficient condition in mode terms**: for a stack declaring jointly loaded items
    (duplicate checks passed), if every mode item and the joined name of every declared group is `index`, a
    `ctx.*` getter or implemented on the outermost wrapper's type, the constructor accepts — whatever the planner
    decides to fuse -/
theorem ctor_accepts_outermost (s : Stack) (mode : String) (rc : Bool)
    (hnd : (∀ f ∈ s.fused, f.Nodup) ∧ s.fused.flatten.Nodup) (hfu : s.fused ≠ [])
    (hitems : ∀ it ∈ mode.splitOn " ", it = "index" ∨ isCtx it = true ∨ it ∈ s.onType)
    (hgroups : ∀ f ∈ s.fused, String.join f = "index" ∨ isCtx (String.join f) = true ∨ String.join f ∈ s.onType) :
    ∃ mw, ctor s mode rc = .ok mw := by
  refine ⟨_, (ctor_accepts_iff s mode rc _).mpr ⟨hnd, ?_, rfl⟩⟩
  have hfm : (!s.fused.isEmpty) = true := by simpa using hfu
  have hnd' : ∀ f ∈ s.fused, hasDup f = false := fun f hf => (c01x_hasDup_iff f).mpr (hnd.1 f hf)
  intro e he
  rw [hfm]
  simp only [nameAccepted, if_true, Bool.or_eq_true, beq_iff_eq, List.contains_iff_mem]
  have key : ∀ n, (n = "index" ∨ isCtx n = true ∨ n ∈ s.onType) → ((n = "index" ∨ isCtx n = true) ∨ n ∈ s.onType) := by
    intro n h; rcases h with h | h | h
    · exact Or.inl (Or.inl h)
    · exact Or.inl (Or.inr h)
    · exact Or.inr h
  cases e with
  | single it pos =>
    have := plan_entries_ok s.fused _ hnd' _ he
    exact key _ (hitems it (List.mem_of_getElem? this))
  | fused ops poss =>
    exact key _ (hgroups ops (plan_fused_mem s.fused _ ops poss he))

/-- the constructor's hypothesis of all `ctor`-based theorems above is satisfiable for EVERY mode string and both
    `return_ctx` settings (a stack without fused operations through which every mode item is reachable) -/
example (mode : String) (rc : Bool) :
    ∃ mw, ctor ⟨[], [], mode.splitOn " ", [], 3, false⟩ mode rc = .ok mw := by
  refine ⟨_, (ctor_accepts_iff _ mode rc _).mpr ⟨⟨by simp, by simp⟩, ?_, rfl⟩⟩
  intro e he
  obtain ⟨p, it, rfl, hit⟩ := plan_isEmpty_mem [] _ rfl e he
  simp [nameAccepted, entryName, List.mem_of_getElem? hit]

/-- rejection is real: planner output `[class, fused(x,class)]` with only `x`, `class` on the outer type — the joint
    loader `getitem_xclass` is missing, and it is the first rejected name -/
example : checkEntries ⟨[["x", "class"]], ["x", "class"], [], [], 3, false⟩ true (plan [["x", "class"]] ["class", "x"]) =
    .error (.notOnType "xclass") := by
  have h2 : String.join ["x", "class"] = "xclass" := by decide
  have h1 : plan [["x", "class"]] ["class", "x"] = [.single "class" 0, .fused ["x", "class"] [1, 0]] := by decide
  simp [h1, checkEntries, entryName, h2, isCtx]

example : checkEntries ⟨[], [], ["x"], [], 3, false⟩ false (plan [] ["index", "x", "y", "z"]) =
    .error (.notReachable "y") := by rfl



/-! ### "all orders of preceding accesses" -/

/-- **preceding accesses do not influence a sample.** The only state the model threads from one request to the next
    is the instrumentation counter (the ctx is created afresh inside each request). For every wrapper, index and
    any two histories that made `c` resp. `c + d` loader invocations before, the request returns the same sample —
    same items, same order, same index, same ctx keys — with every call number raised by `d` (`shiftOut d`), and
    costs the same number of invocations. -/
theorem history_only_renumbers (s : Stack) (mw : MW) (c d : Nat) (idx : Int) :
    getOne s mw (c + d) idx = (shiftOut d (getOne s mw c idx).1, (getOne s mw c idx).2 + d) :=
  c01x_getOne_shift s mw c d idx

/-- hence the `k`-th element of any index list / slice / iteration is the stand-alone answer `mw[i_k]` (asked at
    counter `c`), renumbered by the `k` requests that preceded it -/
theorem index_list_element_standalone (s : Stack) (mw : MW) (c : Nat) (is : List Int) (k : Nat) :
    (getMany s mw c is).1[k]? = is[k]?.map (fun i => shiftOut (k * callsPer mw) (getOne s mw c i).1) := by
  rw [c01x_getMany_getElem?]
  cases is[k]? with
  | none => rfl
  | some i => simp only [Option.map_some, c01x_getOne_shift]

example :
    let s : Stack := ⟨[], [], ["x", "y"], [("x", "seed")], 5, false⟩
    let mw : MW := ⟨["x", "y"], [.single "x" 0, .single "y" 1], true, true⟩
    (getOne s mw 0 2).1 = .withCtx (.tuple [.tag "x" 2 0, .tag "y" 2 1]) [("seed", .tag "x" 2 0)] ∧
    (getOne s mw 7 2).1 = .withCtx (.tuple [.tag "x" 2 7, .tag "y" 2 8]) [("seed", .tag "x" 2 7)] ∧
    shiftOut 7 (getOne s mw 0 2).1 = (getOne s mw 7 2).1 := by
  refine ⟨by rfl, by rfl, by rfl⟩


end KDVerif.C01
