/-
C09 — Every dataloader worker gets its own reproducible augmentation stream.

`KDVerif.Gen.WrapperTable.layerRows` (dataset-layer classes) and `KDVerif.Gen.RngTable.table`
(transform / collator classes) are regenerated from /repo on every run.
-/
import KDVerif.Lemmas.SeedFlow
import KDVerif.Lemmas.C07Extra
import KDVerif.Gen.WrapperTable
import KDVerif.Props.C07

namespace KDVerif.C09
open KDVerif.RngFlow KDVerif.SeedFlow

/-- **generated obligation**: every dataset-layer class hands `worker_init_fn` to the members of every
    transform-holding slot, wrappers / subsets / concats / the mode wrapper / the interleaved concat forward
    the call to their inner dataset(s), and root datasets re-seed their registered collators -/
theorem layer_rows_ok : layersOk KDVerif.Gen.WrapperTable.layerRows = true := by decide +kernel

/-- **generated obligation**: the transform / collator hook itself re-seeds unconditionally — whatever
    `get_worker_info()` reports (one worker or many, called in the main process or in a worker) -/
theorem hooks_reseed_unconditionally :
    KDVerif.Gen.WrapperTable.transformHookReseeds = true ∧ KDVerif.Gen.WrapperTable.collatorHookReseeds = true := by
  decide

/-- **generated obligation**: no dataset layer creates its own per-sample generator from OS entropy when no seed
    is configured (such a stream is neither derived from the worker's global seed nor reproducible) -/
theorem no_entropy_fallback : KDVerif.Gen.WrapperTable.entropyFallbackClasses = [] := by decide

/-- **worker_init_fn re-seeds everything**: for every dataset stack built from the tables (any depth, any
    branching through concat datasets, any transform composition in any layer, any collators), after the
    worker-initialisation chain has run, every reachable generator cell is one of the generators derived from
    this worker's global state during this initialisation (`base + j`, `k ≤ j < k'`) — none keeps a copy of
    the parent process's generator, not even a nested one -/
theorem worker_init_reseeds_everything (base k : Nat) (d : DS)
    (hc : conformsDS KDVerif.Gen.RngTable.table KDVerif.Gen.WrapperTable.layerRows d = true) :
    let r := workerInit KDVerif.Gen.RngTable.table KDVerif.Gen.WrapperTable.layerRows base k d
    k ≤ r.2 ∧ ∀ c ∈ stackCells KDVerif.Gen.RngTable.table r.1, ∃ j, k ≤ j ∧ j < r.2 ∧ c = base + j :=
  workerInit_sound _ C07.table_ok _ layer_rows_ok base d k hc

/-- **workers never share a cell**: if the generator families two workers derive are disjoint
    (`base₁ + n₁ ≤ base₂`, the numpy contract for different worker seeds), no cell of worker 1 — nested ones
    included — equals a cell of worker 2 -/
theorem workers_disjoint (base₁ base₂ : Nat) (d₁ d₂ : DS)
    (h₁ : conformsDS KDVerif.Gen.RngTable.table KDVerif.Gen.WrapperTable.layerRows d₁ = true)
    (h₂ : conformsDS KDVerif.Gen.RngTable.table KDVerif.Gen.WrapperTable.layerRows d₂ = true)
    (hsep : base₁ + (workerInit KDVerif.Gen.RngTable.table KDVerif.Gen.WrapperTable.layerRows base₁ 0 d₁).2 ≤ base₂) :
    ∀ c₁ ∈ stackCells KDVerif.Gen.RngTable.table
        (workerInit KDVerif.Gen.RngTable.table KDVerif.Gen.WrapperTable.layerRows base₁ 0 d₁).1,
    ∀ c₂ ∈ stackCells KDVerif.Gen.RngTable.table
        (workerInit KDVerif.Gen.RngTable.table KDVerif.Gen.WrapperTable.layerRows base₂ 0 d₂).1, c₁ ≠ c₂ := by
  intro c₁ hc₁ c₂ hc₂
  obtain ⟨j₁, _, hj₁, e₁⟩ := (worker_init_reseeds_everything base₁ 0 d₁ h₁).2 c₁ hc₁
  obtain ⟨j₂, _, _, e₂⟩ := (worker_init_reseeds_everything base₂ 0 d₂ h₂).2 c₂ hc₂
  omega

/-- a transform's own hook is `set_rng(fresh)`: by C07 it reaches every member cell -/
theorem transform_worker_init_reaches_members (g : Nat) (t : T)
    (hc : conforms KDVerif.Gen.RngTable.table t = true) :
    ∀ c ∈ draws KDVerif.Gen.RngTable.table (setRng KDVerif.Gen.RngTable.table g t), c = g :=
  C07.setRng_reaches_every_drawing_cell g t hc

/-- non-vacuity: ModeWrapper(XTransformWrapper(KDSubset(KDConcatDataset([root, root])))) conforms -/
example : conformsDS KDVerif.Gen.RngTable.table KDVerif.Gen.WrapperTable.layerRows
    (.wrap "ModeWrapper" .nil
      (.wrap "XTransformWrapper" (.cons "transform" (.node "KDRandomCrop" 1 .nil) .nil)
        (.wrap "KDSubset" .nil
          (.multi "KDConcatDataset"
            (.cons (.root "KDDataset" .nil (.cons "collators" (.node "KDMixCollator" 2 .nil) .nil))
              (.cons (.root "KDDataset" .nil .nil) .nil)))))) = true := by decide +kernel

/-! ## Gap theorems (audit round) -/

/-- the stack of the examples with cell contents `a` (crop), `b` (mix collator) -/
def exStack (a b : Nat) : DS :=
  .wrap "ModeWrapper" .nil
    (.wrap "XTransformWrapper" (.cons "transform" (.node "KDRandomCrop" a .nil) .nil)
      (.wrap "KDSubset" .nil
        (.multi "KDConcatDataset"
          (.cons (.root "KDDataset" .nil (.cons "collators" (.node "KDMixCollator" b .nil) .nil))
            (.cons (.root "KDImageFolder" (.cons "transform" (.node "KDRandomCrop" a .nil) .nil) .nil) .nil)))))

/-- **clause "the same worker seed reproduces the same stream"**: two stacks with the same skeleton (same layer
    classes, same transform / collator compositions; arbitrary, different generator-cell contents — e.g. the
    copies two runs, or two epochs' freshly forked workers, hand to the hook) initialised under the same worker
    seed (`base`, same derivation counter `k`) end up with, position by position, the same generator in every
    reachable cell (transforms at any depth in any layer, collators), and derive the same number of generators.
    Hypothesis: the stack is built from the tables (domain of the property); conformance of `d₂` follows. -/
theorem same_worker_seed_same_cells (base k : Nat) (d₁ d₂ : DS) (hshape : eraseDS d₁ = eraseDS d₂)
    (h₁ : conformsDS KDVerif.Gen.RngTable.table KDVerif.Gen.WrapperTable.layerRows d₁ = true) :
    stackCells KDVerif.Gen.RngTable.table
        (workerInit KDVerif.Gen.RngTable.table KDVerif.Gen.WrapperTable.layerRows base k d₁).1 =
      stackCells KDVerif.Gen.RngTable.table
        (workerInit KDVerif.Gen.RngTable.table KDVerif.Gen.WrapperTable.layerRows base k d₂).1 ∧
    (workerInit KDVerif.Gen.RngTable.table KDVerif.Gen.WrapperTable.layerRows base k d₁).2 =
      (workerInit KDVerif.Gen.RngTable.table KDVerif.Gen.WrapperTable.layerRows base k d₂).2 := by
  have h₂ : conformsDS KDVerif.Gen.RngTable.table KDVerif.Gen.WrapperTable.layerRows d₂ = true := by
    rw [← c07x_conformsDS_erase, ← hshape, c07x_conformsDS_erase]; exact h₁
  have e₁ := c07x_workerInit_erase _ C07.table_ok _ layer_rows_ok base d₁ k h₁
  have e₂ := c07x_workerInit_erase _ C07.table_ok _ layer_rows_ok base d₂ k h₂
  rw [hshape] at e₁
  exact ⟨e₁.2.symm.trans e₂.2, e₁.1.symm.trans e₂.1⟩

example : eraseDS (exStack 1 2) = eraseDS (exStack 30 40) := by rfl
example : conformsDS KDVerif.Gen.RngTable.table KDVerif.Gen.WrapperTable.layerRows (exStack 1 2) = true ∧
    stackCells KDVerif.Gen.RngTable.table (exStack 1 2) = [1, 2, 1] ∧
    stackCells KDVerif.Gen.RngTable.table
      (workerInit KDVerif.Gen.RngTable.table KDVerif.Gen.WrapperTable.layerRows 1000 0 (exStack 30 40)).1 =
      [1000, 1001, 1003] := by
  refine ⟨?_, ?_, ?_⟩ <;> decide +kernel

/-- the number of generators a worker derives is `numDerived` of the stack — a function of the layer table and
    the stack's shape, not of the worker seed or of any cell content (all stacks, conforming or not) -/
theorem derivation_count_closed_form (base k : Nat) (d : DS) :
    (workerInit KDVerif.Gen.RngTable.table KDVerif.Gen.WrapperTable.layerRows base k d).2 =
      k + numDerived KDVerif.Gen.WrapperTable.layerRows d :=
  c07x_workerInit_count _ _ base d k

/-- **clause "workers with different seeds never replay one another's stream, not even in part" — from the
    named contract `DisjointFamilies` on the derivation function instead of the ad-hoc `hsep`**: let worker seed
    `ws` derive the generators `base ws + 0, base ws + 1, …` (`get_rng_from_global` under the worker's NumPy
    seed). If different worker seeds derive disjoint families (`DisjointFamilies base n`, the NumPy contract; `n`
    at least the number of derivations `numDerived` of either stack), then for `ws₁ ≠ ws₂` no cell reachable in
    worker 1 — nested ones included — holds a generator any cell of worker 2 holds. -/
theorem workers_disjoint_of_contract (base : Nat → Nat) (n : Nat) (hcontract : DisjointFamilies base n)
    (ws₁ ws₂ : Nat) (hne : ws₁ ≠ ws₂) (d₁ d₂ : DS)
    (h₁ : conformsDS KDVerif.Gen.RngTable.table KDVerif.Gen.WrapperTable.layerRows d₁ = true)
    (h₂ : conformsDS KDVerif.Gen.RngTable.table KDVerif.Gen.WrapperTable.layerRows d₂ = true)
    (hn₁ : numDerived KDVerif.Gen.WrapperTable.layerRows d₁ ≤ n)
    (hn₂ : numDerived KDVerif.Gen.WrapperTable.layerRows d₂ ≤ n) :
    ∀ c₁ ∈ stackCells KDVerif.Gen.RngTable.table
        (workerInit KDVerif.Gen.RngTable.table KDVerif.Gen.WrapperTable.layerRows (base ws₁) 0 d₁).1,
    ∀ c₂ ∈ stackCells KDVerif.Gen.RngTable.table
        (workerInit KDVerif.Gen.RngTable.table KDVerif.Gen.WrapperTable.layerRows (base ws₂) 0 d₂).1, c₁ ≠ c₂ := by
  intro c₁ hc₁ c₂ hc₂
  obtain ⟨j₁, _, hj₁, e₁⟩ := (worker_init_reseeds_everything (base ws₁) 0 d₁ h₁).2 c₁ hc₁
  obtain ⟨j₂, _, hj₂, e₂⟩ := (worker_init_reseeds_everything (base ws₂) 0 d₂ h₂).2 c₂ hc₂
  rw [derivation_count_closed_form] at hj₁ hj₂
  rw [e₁, e₂]
  exact hcontract ws₁ ws₂ hne j₁ j₂ (by omega) (by omega)

/-- the contract is satisfiable: families laid out in blocks of `n` (`base ws = ws * n`) are disjoint -/
theorem disjointFamilies_blocks (n : Nat) : DisjointFamilies (fun ws => ws * n) n := by
  intro ws₁ ws₂ hne j₁ j₂ h₁ h₂ he
  simp only at he
  rcases Nat.lt_or_gt_of_ne hne with h | h
  · have : (ws₁ + 1) * n ≤ ws₂ * n := Nat.mul_le_mul_right n h
    rw [Nat.add_mul] at this; omega
  · have : (ws₂ + 1) * n ≤ ws₁ * n := Nat.mul_le_mul_right n h
    rw [Nat.add_mul] at this; omega

/-- the ordering condition `hsep` of `workers_disjoint` is the special case of two seeds of a contract-abiding
    derivation: from the contract and the closed-form count the disjointness follows without `hsep` — here
    instantiated for two forked copies of the same stack and the block layout -/
theorem workers_disjoint_blocks (ws₁ ws₂ : Nat) (hne : ws₁ ≠ ws₂) (d₁ d₂ : DS) (hshape : eraseDS d₁ = eraseDS d₂)
    (h₁ : conformsDS KDVerif.Gen.RngTable.table KDVerif.Gen.WrapperTable.layerRows d₁ = true) :
    let n := numDerived KDVerif.Gen.WrapperTable.layerRows d₁
    ∀ c₁ ∈ stackCells KDVerif.Gen.RngTable.table
        (workerInit KDVerif.Gen.RngTable.table KDVerif.Gen.WrapperTable.layerRows (ws₁ * n) 0 d₁).1,
    ∀ c₂ ∈ stackCells KDVerif.Gen.RngTable.table
        (workerInit KDVerif.Gen.RngTable.table KDVerif.Gen.WrapperTable.layerRows (ws₂ * n) 0 d₂).1, c₁ ≠ c₂ := by
  intro n
  have h₂ : conformsDS KDVerif.Gen.RngTable.table KDVerif.Gen.WrapperTable.layerRows d₂ = true := by
    rw [← c07x_conformsDS_erase, ← hshape, c07x_conformsDS_erase]; exact h₁
  have hcount : numDerived KDVerif.Gen.WrapperTable.layerRows d₂ = n := by
    have := (same_worker_seed_same_cells 0 0 d₁ d₂ hshape h₁).2
    rw [derivation_count_closed_form, derivation_count_closed_form] at this
    omega
  exact workers_disjoint_of_contract (fun ws => ws * n) n (disjointFamilies_blocks n) ws₁ ws₂ hne d₁ d₂ h₁ h₂
    (Nat.le_refl _) (by omega)

example : numDerived KDVerif.Gen.WrapperTable.layerRows (exStack 1 2) = 4 ∧
    stackCells KDVerif.Gen.RngTable.table
      (workerInit KDVerif.Gen.RngTable.table KDVerif.Gen.WrapperTable.layerRows (3 * 4) 0 (exStack 1 2)).1 =
      [12, 13, 15] ∧
    stackCells KDVerif.Gen.RngTable.table
      (workerInit KDVerif.Gen.RngTable.table KDVerif.Gen.WrapperTable.layerRows (4 * 4) 0 (exStack 1 2)).1 =
      [16, 17, 19] := by
  refine ⟨?_, ?_, ?_⟩ <;> decide +kernel

/-- **`hooks_reseed_unconditionally` connected to the model**: `workerInitGuarded th ch` is the hook chain in
    which the transform hook (`th`) / collator hook (`ch`) re-seed only if the flag says "unconditionally" and are
    skipped otherwise. With the flags as generated from /repo it is `workerInit` — on every stack. -/
theorem guarded_init_is_workerInit (base k : Nat) (d : DS) :
    workerInitGuarded KDVerif.Gen.WrapperTable.transformHookReseeds KDVerif.Gen.WrapperTable.collatorHookReseeds
        KDVerif.Gen.RngTable.table KDVerif.Gen.WrapperTable.layerRows base k d =
      workerInit KDVerif.Gen.RngTable.table KDVerif.Gen.WrapperTable.layerRows base k d := by
  rw [hooks_reseed_unconditionally.1, hooks_reseed_unconditionally.2]
  exact c07x_workerInitGuarded_true _ _ base d k

/-- hence the re-seeding guarantee holds for the flag-reading chain -/
theorem guarded_init_reseeds_everything (base k : Nat) (d : DS)
    (hc : conformsDS KDVerif.Gen.RngTable.table KDVerif.Gen.WrapperTable.layerRows d = true) :
    let r := workerInitGuarded KDVerif.Gen.WrapperTable.transformHookReseeds
      KDVerif.Gen.WrapperTable.collatorHookReseeds KDVerif.Gen.RngTable.table KDVerif.Gen.WrapperTable.layerRows base k d
    k ≤ r.2 ∧ ∀ c ∈ stackCells KDVerif.Gen.RngTable.table r.1, ∃ j, k ≤ j ∧ j < r.2 ∧ c = base + j := by
  rw [guarded_init_is_workerInit]
  exact worker_init_reseeds_everything base k d hc

/-- the flags matter: were the transform hook conditional (`th = false`), the parent's generators `1` (crops)
    would survive in the worker; were the collator hook conditional, the collator's `2` would -/
example : stackCells KDVerif.Gen.RngTable.table
      (workerInitGuarded false true KDVerif.Gen.RngTable.table KDVerif.Gen.WrapperTable.layerRows 1000 0 (exStack 1 2)).1 =
      [1, 1000, 1] ∧
    stackCells KDVerif.Gen.RngTable.table
      (workerInitGuarded true false KDVerif.Gen.RngTable.table KDVerif.Gen.WrapperTable.layerRows 1000 0 (exStack 1 2)).1 =
      [1000, 2, 1001] := by
  constructor <;> decide +kernel

/-- **`no_entropy_fallback` connected to the model**: `stackSources fallback` lists every source of random
    decisions of a stack — the generator cells plus an OS-entropy source per layer whose class is in `fallback`.
    With the list as generated from /repo, after the hook chain every source of every conforming stack is a
    generator derived from this worker's seed during this initialisation. -/
theorem every_source_derived_from_worker_seed (base k : Nat) (d : DS)
    (hc : conformsDS KDVerif.Gen.RngTable.table KDVerif.Gen.WrapperTable.layerRows d = true) :
    let r := workerInit KDVerif.Gen.RngTable.table KDVerif.Gen.WrapperTable.layerRows base k d
    ∀ s ∈ stackSources KDVerif.Gen.RngTable.table KDVerif.Gen.WrapperTable.entropyFallbackClasses r.1,
      ∃ j, k ≤ j ∧ j < r.2 ∧ s = StreamSrc.cell (base + j) := by
  intro r s hs
  rw [no_entropy_fallback, c07x_stackSources_nil, List.mem_map] at hs
  obtain ⟨c, hcm, rfl⟩ := hs
  obtain ⟨j, h1, h2, h3⟩ := (worker_init_reseeds_everything base k d hc).2 c hcm
  exact ⟨j, h1, h2, by rw [h3]⟩

/-- the list matters: a layer class listed as falling back to OS entropy contributes a source that no
    initialisation derives -/
example : StreamSrc.entropy ∈ stackSources KDVerif.Gen.RngTable.table ["XTransformWrapper"]
      (workerInit KDVerif.Gen.RngTable.table KDVerif.Gen.WrapperTable.layerRows 1000 0 (exStack 1 2)).1 := by
  decide +kernel

end KDVerif.C09
