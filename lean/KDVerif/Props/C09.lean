/-
C09 — Every dataloader worker gets its own reproducible augmentation stream.

`KDVerif.Gen.WrapperTable.layerRows` (dataset-layer classes) and `KDVerif.Gen.RngTable.table`
(transform / collator classes) are regenerated from /repo on every run.
-/
import KDVerif.Lemmas.SeedFlow
import KDVerif.Gen.WrapperTable
import KDVerif.Props.C07

namespace KDVerif.C09
open KDVerif.RngFlow KDVerif.SeedFlow

/-- **generated obligation**: every dataset-layer class hands `worker_init_fn` to the members of every
    transform-holding slot, wrappers / subsets / concats / the mode wrapper / the interleaved concat forward
    the call to their inner dataset(s), and root datasets re-seed their registered collators -/
theorem layer_rows_ok : layersOk KDVerif.Gen.WrapperTable.layerRows = true := by decide +kernel

/-- **generated obligation**: the transform / collator hook itself re-seeds unconditionally — whatever
    `get_worker_info()` reports (one worker or many, called in the main process or in a worker) -/
theorem hooks_reseed_unconditionally :
    KDVerif.Gen.WrapperTable.transformHookReseeds = true ∧ KDVerif.Gen.WrapperTable.collatorHookReseeds = true := by
  decide

/-- **generated obligation**: no dataset layer creates its own per-sample generator from OS entropy when no seed
    is configured (such a stream is neither derived from the worker's global seed nor reproducible) -/
theorem no_entropy_fallback : KDVerif.Gen.WrapperTable.entropyFallbackClasses = [] := by decide

/-- **worker_init_fn re-seeds everything**: for every dataset stack built from the tables (any depth, any
    branching through concat datasets, any transform composition in any layer, any collators), after the
    worker-initialisation chain has run, every reachable generator cell is one of the generators derived from
    this worker's global state during this initialisation (`base + j`, `k ≤ j < k'`) — none keeps a copy of
    the parent process's generator, not even a nested one -/
theorem worker_init_reseeds_everything (base k : Nat) (d : DS)
    (hc : conformsDS KDVerif.Gen.RngTable.table KDVerif.Gen.WrapperTable.layerRows d = true) :
    let r := workerInit KDVerif.Gen.RngTable.table KDVerif.Gen.WrapperTable.layerRows base k d
    k ≤ r.2 ∧ ∀ c ∈ stackCells KDVerif.Gen.RngTable.table r.1, ∃ j, k ≤ j ∧ j < r.2 ∧ c = base + j :=
  workerInit_sound _ C07.table_ok _ layer_rows_ok base d k hc

/-- **workers never share a cell**: if the generator families two workers derive are disjoint
    (`base₁ + n₁ ≤ base₂`, the numpy contract for different worker seeds), no cell of worker 1 — nested ones
    included — equals a cell of worker 2 -/
theorem workers_disjoint (base₁ base₂ : Nat) (d₁ d₂ : DS)
    (h₁ : conformsDS KDVerif.Gen.RngTable.table KDVerif.Gen.WrapperTable.layerRows d₁ = true)
    (h₂ : conformsDS KDVerif.Gen.RngTable.table KDVerif.Gen.WrapperTable.layerRows d₂ = true)
    (hsep : base₁ + (workerInit KDVerif.Gen.RngTable.table KDVerif.Gen.WrapperTable.layerRows base₁ 0 d₁).2 ≤ base₂) :
    ∀ c₁ ∈ stackCells KDVerif.Gen.RngTable.table
        (workerInit KDVerif.Gen.RngTable.table KDVerif.Gen.WrapperTable.layerRows base₁ 0 d₁).1,
    ∀ c₂ ∈ stackCells KDVerif.Gen.RngTable.table
        (workerInit KDVerif.Gen.RngTable.table KDVerif.Gen.WrapperTable.layerRows base₂ 0 d₂).1, c₁ ≠ c₂ := by
  intro c₁ hc₁ c₂ hc₂
  obtain ⟨j₁, _, hj₁, e₁⟩ := (worker_init_reseeds_everything base₁ 0 d₁ h₁).2 c₁ hc₁
  obtain ⟨j₂, _, _, e₂⟩ := (worker_init_reseeds_everything base₂ 0 d₂ h₂).2 c₂ hc₂
  omega

/-- a transform's own hook is `set_rng(fresh)`: by C07 it reaches every member cell -/
theorem transform_worker_init_reaches_members (g : Nat) (t : T)
    (hc : conforms KDVerif.Gen.RngTable.table t = true) :
    ∀ c ∈ draws KDVerif.Gen.RngTable.table (setRng KDVerif.Gen.RngTable.table g t), c = g :=
  C07.setRng_reaches_every_drawing_cell g t hc

/-- non-vacuity: ModeWrapper(XTransformWrapper(KDSubset(KDConcatDataset([root, root])))) conforms -/
example : conformsDS KDVerif.Gen.RngTable.table KDVerif.Gen.WrapperTable.layerRows
    (.wrap "ModeWrapper" .nil
      (.wrap "XTransformWrapper" (.cons "transform" (.node "KDRandomCrop" 1 .nil) .nil)
        (.wrap "KDSubset" .nil
          (.multi "KDConcatDataset"
            (.cons (.root "KDDataset" .nil (.cons "collators" (.node "KDMixCollator" 2 .nil) .nil))
              (.cons (.root "KDDataset" .nil .nil) .nil)))))) = true := by decide +kernel

end KDVerif.C09
