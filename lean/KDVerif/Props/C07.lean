/-
C07 — An injected seed fully determines an augmentation, and nothing else does.

The class table `KDVerif.Gen.RngTable.table` is regenerated from /repo's source on every run
(harness/kdv/translate_rngflow.py). The theorems below hold for *every* instance tree built from the
table — any composition (compose, random-apply, patchwise, scheduled, pipelines), any nesting depth,
any construction-time generators (= any call history before the injection, the only state being the cells).
-/
import KDVerif.Lemmas.RngFlow
import KDVerif.Lemmas.C07Extra
import KDVerif.Gen.RngTable

namespace KDVerif.C07
open KDVerif.RngFlow

/-- **generated obligation**: for every transform / collator class of /repo the MRO-resolved `set_rng`
    does not raise, sets the own generator cell, reaches every child slot that can hold a cell, and no
    method of the class draws from a process-global RNG -/
theorem table_ok : wellFormed KDVerif.Gen.RngTable.table = true := by decide +kernel

/-- after `set_rng(g)` on the root, every generator cell any member can draw from is `g` -/
theorem setRng_reaches_every_drawing_cell (g : Nat) (t : T)
    (hc : conforms KDVerif.Gen.RngTable.table t = true) :
    ∀ c ∈ draws KDVerif.Gen.RngTable.table (setRng KDVerif.Gen.RngTable.table g t), c = g :=
  setRng_sound_T _ table_ok g t hc

/-- the same for any table satisfying the obligation (what the proof actually uses) -/
theorem setRng_reaches_every_drawing_cell_any_table (tb : Table) (hwf : wellFormed tb = true) (g : Nat) (t : T)
    (hc : conforms tb t = true) : ∀ c ∈ draws tb (setRng tb g t), c = g :=
  setRng_sound_T tb hwf g t hc

/-- two independently constructed instances of the same shape draw from the same generator everywhere
    once equal generators are injected, whatever their construction-time cells were -/
theorem seed_determines (g : Nat) (t₁ t₂ : T)
    (h₁ : conforms KDVerif.Gen.RngTable.table t₁ = true) (h₂ : conforms KDVerif.Gen.RngTable.table t₂ = true) :
    ∀ c₁ ∈ draws KDVerif.Gen.RngTable.table (setRng KDVerif.Gen.RngTable.table g t₁),
    ∀ c₂ ∈ draws KDVerif.Gen.RngTable.table (setRng KDVerif.Gen.RngTable.table g t₂), c₁ = c₂ := by
  intro c₁ hc₁ c₂ hc₂
  rw [setRng_reaches_every_drawing_cell g t₁ h₁ c₁ hc₁, setRng_reaches_every_drawing_cell g t₂ h₂ c₂ hc₂]

/-- no class of the table draws from the process-global NumPy / Torch / Python RNG -/
theorem no_global_draw (r : Row) (hr : r ∈ KDVerif.Gen.RngTable.table) : r.globalDraw = false :=
  KDVerif.RngFlow.no_global_draw _ table_ok r hr

/-- non-vacuity: a nested composition (compose ∘ random-apply ∘ patchwise ∘ crop) conforms to the table -/
example : conforms KDVerif.Gen.RngTable.table
    (.node "KDComposeTransform" 1 (.cons "transforms"
      (.node "KDRandomApply" 2 (.cons "transform"
        (.node "PatchwiseTransform" 3 (.cons "transform" (.node "KDRandomCrop" 4 .nil) .nil)) .nil))
      (.cons "transforms" .leaf .nil))) = true := by decide +kernel

/-! ## Gap theorems (audit round): replay / overwrite, equal seeds on independently built instances, draw sites -/

/-- the nested composition used in the examples below, with construction-time generators `a b c d` -/
def pipeline (a b c d : Nat) : T :=
  .node "KDComposeTransform" a (.cons "transforms"
    (.node "KDRandomApply" b (.cons "transform"
      (.node "PatchwiseTransform" c (.cons "transform" (.node "KDRandomCrop" d .nil) .nil)) .nil))
    (.cons "transforms" .leaf .nil))

/-- **clause "re-injecting the seed replays the sequence" — a later injection completely overwrites an earlier
    one**: the instance after `set_rng(h)` followed by `set_rng(g)` is, as a whole tree (every cell at every
    depth), the instance after `set_rng(g)` alone; nothing of `h` survives. Holds for every instance tree, even
    non-conforming ones. -/
theorem reinjection_overwrites (g h : Nat) (t : T) :
    setRng KDVerif.Gen.RngTable.table g (setRng KDVerif.Gen.RngTable.table h t) =
      setRng KDVerif.Gen.RngTable.table g t :=
  c07x_setRng_setRng _ g h t

/-- **clause "re-injecting the seed replays the sequence" — idempotence**: injecting the same generator twice
    is the same as injecting it once -/
theorem reinjection_idempotent (g : Nat) (t : T) :
    setRng KDVerif.Gen.RngTable.table g (setRng KDVerif.Gen.RngTable.table g t) =
      setRng KDVerif.Gen.RngTable.table g t :=
  c07x_setRng_setRng _ g g t

/-- **clause "re-injecting the seed replays the sequence", quantifier "all call histories before the seed is
    injected"**: whatever generators `hs` were injected in between (in the model the cells are the only state a
    call history can leave behind), re-injecting `g` restores exactly the instance the first injection of `g`
    produced — hence the same sequence of generator reads is replayed -/
theorem reinjection_replays_after_any_history (g : Nat) (hs : List Nat) (t : T) :
    setRng KDVerif.Gen.RngTable.table g
        (injectAll KDVerif.Gen.RngTable.table hs (setRng KDVerif.Gen.RngTable.table g t)) =
      setRng KDVerif.Gen.RngTable.table g t := by
  rw [c07x_setRng_injectAll, c07x_setRng_setRng]

/-- **clause "re-injecting ..." at the level of drawing cells**: after `set_rng(h)` then `set_rng(g)` on an
    instance built from the table, every cell any member can draw from holds `g` (none holds `h`, none a
    construction-time generator) -/
theorem reinjection_reaches_every_drawing_cell (g h : Nat) (t : T)
    (hc : conforms KDVerif.Gen.RngTable.table t = true) :
    ∀ c ∈ draws KDVerif.Gen.RngTable.table
        (setRng KDVerif.Gen.RngTable.table g (setRng KDVerif.Gen.RngTable.table h t)), c = g := by
  rw [reinjection_overwrites]
  exact setRng_reaches_every_drawing_cell g t hc

example : setRng KDVerif.Gen.RngTable.table 7 (injectAll KDVerif.Gen.RngTable.table [8, 9]
      (setRng KDVerif.Gen.RngTable.table 7 (pipeline 1 2 3 4))) = pipeline 1 7 3 7 := by rfl

/-- **clause "two independently constructed instances given equal seeds agree" — closed form**: after
    `set_rng(g)` the list of drawing cells (pre-order over the whole composition) is `g` repeated once per drawing
    cell of the *skeleton* `erase t` — a function of (shape, g) only; construction-time cell contents do not
    occur in it. Hypothesis: the instance is built from the table (the property's domain). -/
theorem cells_after_injection_closed_form (g : Nat) (t : T)
    (hc : conforms KDVerif.Gen.RngTable.table t = true) :
    draws KDVerif.Gen.RngTable.table (setRng KDVerif.Gen.RngTable.table g t) =
      List.replicate (draws KDVerif.Gen.RngTable.table (erase t)).length g :=
  c07x_draws_setRng_closed _ table_ok g t hc

/-- **clause "two independently constructed instances given equal seeds agree"**: two instances with the same
    skeleton (same classes, slots, shape: `erase t₁ = erase t₂`) and arbitrary, different pre-existing cell
    contents have, after `set_rng(g)` on both, position by position the same generator in every drawing cell.
    (Conformance of `t₂` follows from that of `t₁`, it depends on the skeleton only.) -/
theorem equal_seeds_equal_cells (g : Nat) (t₁ t₂ : T) (hshape : erase t₁ = erase t₂)
    (h₁ : conforms KDVerif.Gen.RngTable.table t₁ = true) :
    draws KDVerif.Gen.RngTable.table (setRng KDVerif.Gen.RngTable.table g t₁) =
      draws KDVerif.Gen.RngTable.table (setRng KDVerif.Gen.RngTable.table g t₂) := by
  have h₂ : conforms KDVerif.Gen.RngTable.table t₂ = true := by
    rw [c07x_conforms_of_erase_eq _ t₁ t₂ hshape]; exact h₁
  rw [cells_after_injection_closed_form g t₁ h₁, cells_after_injection_closed_form g t₂ h₂, hshape]

/-- the same with arbitrary, different injection histories on the two instances before the seed is injected -/
theorem equal_seeds_equal_cells_after_any_histories (g : Nat) (hs₁ hs₂ : List Nat) (t₁ t₂ : T)
    (hshape : erase t₁ = erase t₂) (h₁ : conforms KDVerif.Gen.RngTable.table t₁ = true) :
    draws KDVerif.Gen.RngTable.table
        (setRng KDVerif.Gen.RngTable.table g (injectAll KDVerif.Gen.RngTable.table hs₁ t₁)) =
      draws KDVerif.Gen.RngTable.table
        (setRng KDVerif.Gen.RngTable.table g (injectAll KDVerif.Gen.RngTable.table hs₂ t₂)) := by
  rw [c07x_setRng_injectAll, c07x_setRng_injectAll]
  exact equal_seeds_equal_cells g t₁ t₂ hshape h₁

example : erase (pipeline 1 2 3 4) = erase (pipeline 50 60 70 80) := by rfl
example : conforms KDVerif.Gen.RngTable.table (pipeline 1 2 3 4) = true ∧
    draws KDVerif.Gen.RngTable.table (pipeline 1 2 3 4) = [2, 4] ∧
    draws KDVerif.Gen.RngTable.table (pipeline 50 60 70 80) = [60, 80] ∧
    draws KDVerif.Gen.RngTable.table (setRng KDVerif.Gen.RngTable.table 7 (pipeline 50 60 70 80)) = [7, 7] := by
  decide +kernel

/-- **clause "the process-global NumPy / Torch / Python random state neither influences the result nor is
    consumed"**, over instance trees: in every instance built from the table, after `set_rng(g)` *every draw site*
    of every member (`drawSources` lists one entry per class flagged `globalDraw` and one per owned cell) reads
    from a cell holding `g`, i.e. a cell that `set_rng` wrote -/
theorem draw_sites_read_injected_cells (g : Nat) (t : T)
    (hc : conforms KDVerif.Gen.RngTable.table t = true) :
    ∀ s ∈ drawSources KDVerif.Gen.RngTable.table (setRng KDVerif.Gen.RngTable.table g t), s = Source.cell g := by
  intro s hs
  have hc' : conforms KDVerif.Gen.RngTable.table (setRng KDVerif.Gen.RngTable.table g t) = true := by
    rw [c07x_conforms_setRng]; exact hc
  rw [c07x_drawSources_eq_map _ table_ok _ hc', List.mem_map] at hs
  obtain ⟨c, hcm, rfl⟩ := hs
  rw [setRng_reaches_every_drawing_cell g t hc c hcm]

/-- no draw site of an instance built from the table reads the process-global state — before or after an
    injection -/
theorem global_state_never_read (t : T) (hc : conforms KDVerif.Gen.RngTable.table t = true) :
    Source.global ∉ drawSources KDVerif.Gen.RngTable.table t := by
  rw [c07x_drawSources_eq_map _ table_ok _ hc, List.mem_map]
  rintro ⟨c, _, h⟩
  exact Source.noConfusion h

/-- the cell-reading draw sites are exactly the cells `draws` lists (ties `drawSources` to the model the
    drivers run) -/
theorem draw_sites_cells_are_draws (t : T) :
    (drawSources KDVerif.Gen.RngTable.table t).filterMap Source.cell? = draws KDVerif.Gen.RngTable.table t :=
  c07x_drawSources_cells _ t

/-- the two theorems above really depend on the generated `globalDraw` flags: for any table, an instance of a
    class whose row is flagged reads the global state, injection or not -/
theorem globalDraw_flag_is_read (tb : Table) (cls : String) (r : Row) (hl : lookup tb cls = some r)
    (hg : r.globalDraw = true) (g cell : Nat) (kids : Kids) :
    Source.global ∈ drawSources tb (setRng tb g (.node cls cell kids)) := by
  simp [setRng, drawSources, hl, hg]

example : drawSources KDVerif.Gen.RngTable.table (setRng KDVerif.Gen.RngTable.table 7 (pipeline 1 2 3 4)) =
    [Source.cell 7, Source.cell 7] := by decide +kernel

end KDVerif.C07
