/-
C07 — An injected seed fully determines an augmentation, and nothing else does.

The class table `KDVerif.Gen.RngTable.table` is regenerated from /repo's source on every run
(harness/kdv/translate_rngflow.py). The theorems below hold for *every* instance tree built from the
table — any composition (compose, random-apply, patchwise, scheduled, pipelines), any nesting depth,
any construction-time generators (= any call history before the injection, the only state being the cells).
-/
import KDVerif.Lemmas.RngFlow
import KDVerif.Gen.RngTable

namespace KDVerif.C07
open KDVerif.RngFlow

/-- **generated obligation**: for every transform / collator class of /repo the MRO-resolved `set_rng`
    does not raise, sets the own generator cell, reaches every child slot that can hold a cell, and no
    method of the class draws from a process-global RNG -/
theorem table_ok : wellFormed KDVerif.Gen.RngTable.table = true := by decide +kernel

/-- after `set_rng(g)` on the root, every generator cell any member can draw from is `g` -/
theorem setRng_reaches_every_drawing_cell (g : Nat) (t : T)
    (hc : conforms KDVerif.Gen.RngTable.table t = true) :
    ∀ c ∈ draws KDVerif.Gen.RngTable.table (setRng KDVerif.Gen.RngTable.table g t), c = g :=
  setRng_sound_T _ table_ok g t hc

/-- the same for any table satisfying the obligation (what the proof actually uses) -/
theorem setRng_reaches_every_drawing_cell_any_table (tb : Table) (hwf : wellFormed tb = true) (g : Nat) (t : T)
    (hc : conforms tb t = true) : ∀ c ∈ draws tb (setRng tb g t), c = g :=
  setRng_sound_T tb hwf g t hc

/-- two independently constructed instances of the same shape draw from the same generator everywhere
    once equal generators are injected, whatever their construction-time cells were -/
theorem seed_determines (g : Nat) (t₁ t₂ : T)
    (h₁ : conforms KDVerif.Gen.RngTable.table t₁ = true) (h₂ : conforms KDVerif.Gen.RngTable.table t₂ = true) :
    ∀ c₁ ∈ draws KDVerif.Gen.RngTable.table (setRng KDVerif.Gen.RngTable.table g t₁),
    ∀ c₂ ∈ draws KDVerif.Gen.RngTable.table (setRng KDVerif.Gen.RngTable.table g t₂), c₁ = c₂ := by
  intro c₁ hc₁ c₂ hc₂
  rw [setRng_reaches_every_drawing_cell g t₁ h₁ c₁ hc₁, setRng_reaches_every_drawing_cell g t₂ h₂ c₂ hc₂]

/-- no class of the table draws from the process-global NumPy / Torch / Python RNG -/
theorem no_global_draw (r : Row) (hr : r ∈ KDVerif.Gen.RngTable.table) : r.globalDraw = false :=
  KDVerif.RngFlow.no_global_draw _ table_ok r hr

/-- non-vacuity: a nested composition (compose ∘ random-apply ∘ patchwise ∘ crop) conforms to the table -/
example : conforms KDVerif.Gen.RngTable.table
    (.node "KDComposeTransform" 1 (.cons "transforms"
      (.node "KDRandomApply" 2 (.cons "transform"
        (.node "PatchwiseTransform" 3 (.cons "transform" (.node "KDRandomCrop" 4 .nil) .nil)) .nil))
      (.cons "transforms" .leaf .nil))) = true := by decide +kernel

end KDVerif.C07
