/-
C13 — balanced, semi-supervised and weighted samplers compose epochs as promised.

Model: `KDVerif/Model/Samplers.lean`.  `classCount classes v l` = number of indices in `l` whose class is `v`;
`poolOf classes v` = the samples of class `v` (`indices_per_class[v]`); `UsedOk classes [0..C) used` = every
permutation the class-balanced loop used for class `k` is a permutation of `range(len(pool_k))` (torch's
`randperm` contract; `arange` when `shuffle=False`).  `l₁ <+: l₂` = `l₁` is a prefix of `l₂`.
-/
import KDVerif.Lemmas.SamplersSemi
import KDVerif.Props.C12

namespace KDVerif.C13
open KDVerif.Samplers

/-! ### ClassBalancedSampler -/

/-- the global draw is a rearrangement of what was drawn per class (identical without shuffle) -/
theorem cb_global_perm (c : CBCfg) (tape : Tape) (G : CBGlobal) (h : cbGlobal c tape = .ok G)
    (hfinal : ∀ fp, G.final = some fp → fp.Perm (List.range fp.length)) :
    G.g.Perm G.perClass.flatten := by
  obtain ⟨t, _, hcase⟩ := cbGlobal_ok h
  rcases hcase with ⟨_, _, hg⟩ | ⟨_, fp, t', hpop, hf, hgat⟩
  · rw [hg]
  · have hp := hfinal fp hf
    rw [popLen_length hpop] at hp
    rw [(gather_ok hgat).1]
    exact map_getD_perm hp

/-- **Exact class counts**: the global draw of one epoch (all ranks together, before the tail cut) holds
    exactly `samples_per_class` indices of every class `v < C` — for every class layout, every
    `samples_per_class`, every tape whose final shuffle is a permutation. -/
theorem balanced_exact_counts (c : CBCfg) (tape : Tape) (G : CBGlobal) (h : cbGlobal c tape = .ok G)
    (hfinal : ∀ fp, G.final = some fp → fp.Perm (List.range fp.length)) :
    G.g.length = cbNumClasses c * cbSpc c ∧
    ∀ v, v < cbNumClasses c → classCount c.classes v G.g = cbSpc c := by
  refine ⟨(C12.cb_rank_streams c 0 tape G h 0).1, ?_⟩
  intro v hv
  have hperm := cb_global_perm c tape G h hfinal
  obtain ⟨t, hd, _⟩ := cbGlobal_ok h
  rw [cbPools_eq] at hd
  obtain ⟨_, _, hcnt⟩ := cbDraw_spec c.shuffle (cbSpc c) c.classes _ _ _ _ _ hd
  unfold classCount at hcnt ⊢
  rw [hperm.countP_eq, hcnt v, List.count_range]
  simp [hv]

example : (cbGlobal ⟨[0, 1, 1, 1, 0], 1, true, some 4, 0, none, none⟩
    [[1, 0], [0, 1], [2, 0, 1], [1, 2, 0], [7, 0, 3, 2, 6, 1, 5, 4]]).map (·.g) = .ok [2, 4, 4, 0, 2, 0, 1, 3] := by rfl

/-- **Even reuse**: if every permutation used for a class is a permutation of that class's pool positions and
    the final shuffle is a permutation, then the multiplicities of any two samples of one class in the global
    draw differ by at most one (a class's samples are reused as evenly as possible). -/
theorem balanced_even_reuse (c : CBCfg) (tape : Tape) (G : CBGlobal) (h : cbGlobal c tape = .ok G)
    (hfinal : ∀ fp, G.final = some fp → fp.Perm (List.range fp.length))
    (hused : UsedOk c.classes (List.range (cbNumClasses c)) G.used)
    (v a b : Nat) (ha : c.classes[a]? = some (Int.ofNat v)) (hb : c.classes[b]? = some (Int.ofNat v)) :
    G.g.count a ≤ G.g.count b + 1 := by
  have hperm := cb_global_perm c tape G h hfinal
  obtain ⟨t, hd, _⟩ := cbGlobal_ok h
  rw [cbPools_eq] at hd
  have := cbDraw_even c.shuffle (cbSpc c) c.classes _ _ _ _ _ hd List.nodup_range hused v a b
    (mem_poolOf.2 ha) (mem_poolOf.2 hb)
  rw [hperm.count_eq, hperm.count_eq]
  exact this

/-- non-vacuity of the permutation contracts: a recorded tape (3 samples of class 1 drawn 4 times) -/
example : UsedOk [0, 1, 1, 1, 0] (List.range 2) [[[1, 0], [0, 1]], [[2, 0, 1], [1, 2, 0]]] := by
  refine ⟨?_, ?_, trivial⟩ <;> intro p hp <;> simp at hp <;> rcases hp with rfl | rfl <;> decide

/-- **Ranks together**: the rank streams interleave back into the first `len·W` entries of the global draw;
    fewer than `W` trailing entries are lost, none when `W` divides `classes · samples_per_class`. -/
theorem balanced_ranks_total (c : CBCfg) (epoch : Nat) (tape : Tape) (G : CBGlobal) (h : cbGlobal c tape = .ok G)
    (hW : 0 < wsOf c.wsArg) :
    let W := wsOf c.wsArg
    let len := cbEffective c / W
    interleave W len (fun r => C12.okOr (cbIter { c with rankArg := some r } epoch tape).out) = G.g.take (len * W) ∧
    cbEffective c < len * W + W ∧
    (cbEffective c % W = 0 → G.g.take (len * W) = G.g) := by
  intro W len
  have hlen := (C12.cb_rank_streams c epoch tape G h 0).1
  obtain ⟨hspec, hint, hle, hlt⟩ := C12.slice_rank_streams G.g W (cbEffective c) hW (by rw [hlen]; exact Nat.le_refl _)
  refine ⟨?_, hlt, ?_⟩
  · rw [← hint]
    congr 1
    funext r
    rw [(C12.cb_rank_streams c epoch tape G h r).2.2.1]
    rfl
  · intro hmod
    have : len * W = cbEffective c := by
      have h1 := Nat.div_add_mod (cbEffective c) W
      rw [hmod, Nat.add_zero, Nat.mul_comm] at h1
      exact h1
    rw [this, ← hlen, List.take_length]

/-- **All indices valid** (class-balanced): every index of the global draw, hence of every rank stream, is a
    position of the dataset and carries one of the classes `0..C-1`. -/
theorem balanced_indices_valid (c : CBCfg) (tape : Tape) (G : CBGlobal) (h : cbGlobal c tape = .ok G) :
    (∀ x, x ∈ G.g → x < c.classes.length) ∧
    ∀ r W eff len x, x ∈ rankSlice G.g r W eff len → x < c.classes.length := by
  have hg : ∀ x, x ∈ G.g → x < c.classes.length := by
    obtain ⟨t, hd, hcase⟩ := cbGlobal_ok h
    rw [cbPools_eq] at hd
    obtain ⟨_, hmem, _⟩ := cbDraw_spec c.shuffle (cbSpc c) c.classes _ _ _ _ _ hd
    have hflat : ∀ x, x ∈ G.perClass.flatten → x < c.classes.length := by
      intro x hx
      obtain ⟨j, _, hj⟩ := hmem x hx
      exact positions_lt hj
    rcases hcase with ⟨_, _, hgeq⟩ | ⟨_, fp, t', _, _, hgat⟩
    · rw [hgeq]; exact hflat
    · intro x hx
      exact hflat x (gather_mem hgat x hx)
  exact ⟨hg, fun r W eff len x hx => hg x (mem_of_mem_rankSlice hx)⟩

/-- the class-balanced epoch length: `classes · samples_per_class // world_size`, with `samples_per_class`
    defaulting to the size of the largest class -/
theorem balanced_length (c : CBCfg) :
    cbLen c = cbNumClasses c * cbSpc c / wsOf c.wsArg ∧
    (c.spcArg = none → cbSpc c = maxCount c.classes) ∧
    (∀ k, c.spcArg = some (k + 1) → cbSpc c = k + 1) :=
  ⟨rfl, fun h => by simp [cbSpc, orDefault, h], fun k h => by simp [cbSpc, orDefault, h]⟩

/-- **The per-class loop ends**: for a non-empty class pool the `while remaining_indices > 0` loop needs at
    most `samples_per_class` passes — the model never runs out of the fuel it is given (`Err.nonterm` only
    stands for the endless loop on an empty pool, which the constructor's assert excludes). -/
theorem balanced_loop_terminates (sh : Bool) (pool : List Nat) (hpos : 0 < pool.length) (spc : Nat) (t : Tape) :
    cbClass sh pool spc spc t ≠ .error .nonterm :=
  cbClass_terminates sh pool hpos spc spc t (Nat.le_refl _)

/-! ### SemiSampler -/

/-- `semiIter` yields the values of `semiRun`'s steps -/
theorem semiIter_out {c : SemiCfg} {epoch : Nat} {tape : Tape} {out : List Nat}
    (h : (semiIter c epoch tape).out = .ok out) :
    ∃ steps, (semiRun c epoch tape).steps = .ok steps ∧ out = steps.map (·.val) := by
  unfold semiIter at h
  simp only at h
  cases hs : (semiRun c epoch tape).steps with
  | error e => rw [hs] at h; simp at h
  | ok steps =>
    rw [hs] at h
    injection h with h
    exact ⟨steps, rfl, h.symm⟩

/-- **Strict alternation**: the stream has `len` entries and entry `i` is a labeled sample (class ≠ -1)
    exactly when `i % (L+U) < L`, an unlabeled one (class = -1) otherwise; in particular every entry is a
    valid dataset index. -/
theorem semi_alternation (c : SemiCfg) (epoch : Nat) (tape : Tape) (out : List Nat)
    (h : (semiIter c epoch tape).out = .ok out) :
    out.length = semiLen c ∧
    ∀ i x, out[i]? = some x →
      ∃ cl, c.classes[x]? = some cl ∧ (cl ≠ -1 ↔ i % (c.L + c.U) < c.L) := by
  obtain ⟨steps, hs, hout⟩ := semiIter_out h
  obtain ⟨v1, v2, rest, _, hloop⟩ := semiRun_steps hs
  obtain ⟨hlen, halt, hval, _⟩ := semiLoop_spec c.L c.U _ _ _ _ _ _ _ _ hloop
  subst hout
  refine ⟨by rw [List.length_map, hlen], ?_⟩
  intro i x hx
  rw [List.getElem?_map] at hx
  cases hsi : steps[i]? with
  | none => rw [hsi] at hx; simp at hx
  | some s =>
    rw [hsi] at hx
    simp only [Option.map_some, Option.some.injEq] at hx
    have hl := halt i s hsi
    rw [Nat.zero_add] at hl
    have hv := hval s (List.mem_of_getElem? hsi)
    by_cases hlab : i % (c.L + c.U) < c.L
    · have : s.lab = true := by rw [hl]; simpa using hlab
      rw [this] at hv
      simp only [if_true] at hv
      have hm : s.val ∈ semiLabeled c := List.mem_of_getElem? hv
      unfold semiLabeled at hm
      obtain ⟨cl, hcl, hp⟩ := mem_positions.1 hm
      rw [hx] at hcl
      refine ⟨cl, hcl, ?_⟩
      have : cl ≠ -1 := by simpa using hp
      simp [this, hlab]
    · have : s.lab = false := by rw [hl]; simpa using hlab
      rw [this] at hv
      simp only [Bool.false_eq_true, if_false] at hv
      have hm : s.val ∈ semiUnlabeled c := List.mem_of_getElem? hv
      unfold semiUnlabeled at hm
      obtain ⟨cl, hcl, hp⟩ := mem_positions.1 hm
      rw [hx] at hcl
      refine ⟨cl, hcl, ?_⟩
      have : cl = -1 := by simpa using hp
      simp [this, hlab]

example : (semiIter ⟨[0, -1, 1, -1, 2, 3], 1, 1, none, none, 9243, .labeled⟩ 0
    [[5], [7], [3, 0, 1, 2], [1, 0], [0, 1]]).out = .ok [5, 3, 0, 1, 2, 1, 4, 3] := by rfl

/-- **Pool exhaustion before repeat**: if the `randperm` answers on the tape (everything after the two seed
    draws) are permutations, the labeled entries of the stream, in order, are a prefix of a concatenation of
    permutations of the labeled pool, and likewise for the unlabeled entries — a whole pool is gone through
    before any of its elements comes again. -/
theorem semi_pool_exhaustion (c : SemiCfg) (epoch : Nat) (v1 v2 : List Nat) (rest : Tape) (out : List Nat)
    (h : (semiIter c epoch (v1 :: v2 :: rest)).out = .ok out)
    (hperm : ∀ p, p ∈ rest → p.Perm (List.range p.length)) :
    ∃ chunksL chunksU : List (List Nat),
      (∀ ch, ch ∈ chunksL → ch.Perm (semiLabeled c)) ∧ (∀ ch, ch ∈ chunksU → ch.Perm (semiUnlabeled c)) ∧
      out.filter (fun x => (semiLabeled c).contains x) <+: chunksL.flatten ∧
      out.filter (fun x => (semiUnlabeled c).contains x) <+: chunksU.flatten := by
  obtain ⟨steps, hs, hout⟩ := semiIter_out h
  obtain ⟨w1, w2, rest', htape, hloop⟩ := semiRun_steps hs
  have hrest : rest' = rest := by
    injection htape with _ h2
    injection h2 with _ h3
    exact h3.symm
  subst hrest
  obtain ⟨_, halt, hval, hpl, hpu, hdl, hdu⟩ := semiLoop_spec c.L c.U _ _ _ _ _ _ _ _ hloop
  rw [List.nil_append] at hpl hpu
  have hvl : ∀ s, s ∈ steps → s.lab = true → (semiLabeled c)[s.j]? = some s.val := by
    intro s hs hl
    have := hval s hs
    rw [hl] at this
    simpa using this
  have hvu : ∀ s, s ∈ steps → s.lab = false → (semiUnlabeled c)[s.j]? = some s.val := by
    intro s hs hl
    have := hval s hs
    rw [hl] at this
    simpa using this
  have hmemL : ∀ s, s ∈ steps → ((semiLabeled c).contains s.val = (s.lab == true)) := by
    intro s hs
    cases hl : s.lab with
    | true =>
      have := List.mem_of_getElem? (hvl s hs hl)
      simpa using this
    | false =>
      have hu := List.mem_of_getElem? (hvu s hs hl)
      have : ¬ s.val ∈ semiLabeled c := fun hin => semi_pools_disjoint c s.val ⟨hin, hu⟩
      simpa using this
  have hmemU : ∀ s, s ∈ steps → ((semiUnlabeled c).contains s.val = (s.lab == false)) := by
    intro s hs
    cases hl : s.lab with
    | true =>
      have hlm := List.mem_of_getElem? (hvl s hs hl)
      have : ¬ s.val ∈ semiUnlabeled c := fun hin => semi_pools_disjoint c s.val ⟨hlm, hin⟩
      simpa using this
    | false =>
      have := List.mem_of_getElem? (hvu s hs hl)
      simpa using this
  have hfl : out.filter (fun x => (semiLabeled c).contains x) = valsOf true steps := by
    rw [hout, List.filter_map]
    unfold valsOf
    congr 1
    apply List.filter_congr
    intro s hs
    exact hmemL s hs
  have hfu : out.filter (fun x => (semiUnlabeled c).contains x) = valsOf false steps := by
    rw [hout, List.filter_map]
    unfold valsOf
    congr 1
    apply List.filter_congr
    intro s hs
    exact hmemU s hs
  refine ⟨(drawsOf true steps).map (fun p => p.map (fun j => (semiLabeled c).getD j 0)),
    (drawsOf false steps).map (fun p => p.map (fun j => (semiUnlabeled c).getD j 0)), ?_, ?_, ?_, ?_⟩
  · intro ch hch
    rw [List.mem_map] at hch
    obtain ⟨p, hp, rfl⟩ := hch
    obtain ⟨hpt, hplen⟩ := hdl p hp
    have := hperm p hpt
    rw [hplen] at this
    exact map_getD_perm this
  · intro ch hch
    rw [List.mem_map] at hch
    obtain ⟨p, hp, rfl⟩ := hch
    obtain ⟨hpt, hplen⟩ := hdu p hp
    have := hperm p hpt
    rw [hplen] at this
    exact map_getD_perm this
  · rw [hfl]
    exact valsOf_prefix _ true steps hvl hpl
  · rw [hfu]
    exact valsOf_prefix _ false steps hvu hpu

/-- non-vacuity: the recorded tape of the example above consists of permutations (after the two seed draws) -/
example : ∀ p, p ∈ [[3, 0, 1, 2], [1, 0], [0, 1]] → p.Perm (List.range p.length) := by
  intro p hp
  simp at hp
  rcases hp with rfl | rfl | rfl <;> decide

/-- **Equally long streams per rank**: `len` has no rank argument and every rank's stream has `len` entries. -/
theorem semi_len_rank_independent (c : SemiCfg) (r epoch : Nat) (tape : Tape) (out : List Nat)
    (h : (semiIter { c with rankArg := some r } epoch tape).out = .ok out) :
    semiLen { c with rankArg := some r } = semiLen c ∧ out.length = semiLen c :=
  ⟨rfl, (semi_alternation { c with rankArg := some r } epoch tape out h).1⟩

/-- **Differently seeded per rank**: the requests start with the rank's and the epoch's seed draws and the
    stream generator is seeded with `seed + rank_seed + epoch_seed`; for one epoch two ranks get the same
    generator seed only if their rank seeds coincide (and likewise for two epochs on one rank). -/
theorem semi_seed_per_rank (seed : Int) (a b e : Nat) :
    (semiSeed seed a e = semiSeed seed b e → a = b) ∧ (semiSeed seed e a = semiSeed seed e b → a = b) := by
  unfold semiSeed
  constructor <;> intro h <;> omega

theorem semi_requests (c : SemiCfg) (epoch : Nat) (a b : Nat) (rest : Tape) :
    ∃ more, (semiRun c epoch ([a] :: [b] :: rest)).reqs =
      [Req.newGen (Int.ofNat (rankOf c.rankArg)), Req.randomScalar (.made 0) 32,
       Req.newGen (Int.ofNat epoch), Req.randomScalar (.made 1) 32, Req.newGen (semiSeed c.seed a b)] ++ more := by
  unfold semiRun
  simp only [popLen, List.length_cons, List.length_nil, Nat.zero_add, if_true]
  cases semiLoop c.L c.U (semiLabeled c) (semiUnlabeled c) (semiLen c) 0 [] [] rest with
  | error e => exact ⟨[], by simp⟩
  | ok steps => exact ⟨semiStepReqs steps, by simp⟩

/-- **Length modes**: the epoch has a whole number of (L labeled + U unlabeled) groups; in mode `labeled`
    (`unlabeled`) the groups use up the labeled (unlabeled) pool once up to a remainder smaller than one
    chunk, in mode `all` as many groups as fit into the dataset; `len = effective // world_size`. -/
theorem semi_length_modes (c : SemiCfg) (hL : 0 < c.L) (hU : 0 < c.U) :
    semiEffective c = semiChunks c * (c.L + c.U) ∧ semiLen c = semiEffective c / wsOf c.wsArg ∧
    (c.mode = .labeled → semiChunks c * c.L ≤ (semiLabeled c).length ∧ (semiLabeled c).length < semiChunks c * c.L + c.L) ∧
    (c.mode = .unlabeled → semiChunks c * c.U ≤ (semiUnlabeled c).length ∧ (semiUnlabeled c).length < semiChunks c * c.U + c.U) ∧
    (c.mode = .all → semiEffective c ≤ (semiLabeled c).length + (semiUnlabeled c).length ∧
      (semiLabeled c).length + (semiUnlabeled c).length < semiEffective c + (c.L + c.U)) := by
  refine ⟨rfl, rfl, ?_, ?_, ?_⟩
  · intro hm
    simp only [semiChunks, hm]
    have h1 := Nat.div_add_mod (semiLabeled c).length c.L
    have h2 := Nat.mod_lt (semiLabeled c).length hL
    rw [Nat.mul_comm] at h1
    omega
  · intro hm
    simp only [semiChunks, hm]
    have h1 := Nat.div_add_mod (semiUnlabeled c).length c.U
    have h2 := Nat.mod_lt (semiUnlabeled c).length hU
    rw [Nat.mul_comm] at h1
    omega
  · intro hm
    simp only [semiEffective, semiChunks, hm]
    have h1 := Nat.div_add_mod ((semiLabeled c).length + (semiUnlabeled c).length) (c.L + c.U)
    have h2 := Nat.mod_lt ((semiLabeled c).length + (semiUnlabeled c).length) (show 0 < c.L + c.U by omega)
    rw [Nat.mul_comm] at h1
    omega

/-! ### WeightedSampler -/

/-- **No index is repeated within an epoch**: if the multinomial draw is duplicate free (torch's contract for
    `replacement=False`), every rank stream is duplicate free and the streams of different ranks are disjoint. -/
theorem weighted_no_repeat (c : WCfg) (epoch eff : Nat) (g : List Nat) (t tape : Tape)
    (he : wEffective c = .ok eff) (hp : popLen eff tape = some (g, t)) (hnd : g.Nodup) :
    let W := wsOf c.wsArg
    let stream := fun r => C12.okOr (wIter { c with rankArg := some r } epoch tape).out
    (∀ r, r < W → (stream r).Nodup) ∧
    (∀ r1 r2 x, r1 < W → r2 < W → r1 ≠ r2 → x ∈ stream r1 → ¬ x ∈ stream r2) := by
  intro W stream
  have hs : ∀ r, stream r = rankSlice g r W eff (eff / W) := by
    intro r
    show C12.okOr (wIter { c with rankArg := some r } epoch tape).out = _
    rw [(C12.weighted_rank_streams c epoch eff g t tape he hp r).1]
    rfl
  have hlen := popLen_length hp
  obtain ⟨h1, h2⟩ := rankSlice_nodup_disjoint g W eff (eff / W) (Nat.div_mul_le_self eff W) (by omega) hnd
  constructor
  · intro r hr; rw [hs r]; exact h1 r hr
  · intro r1 r2 x hr1 hr2 hne hx
    rw [hs r1] at hx
    rw [hs r2]
    exact h2 r1 r2 x hr1 hr2 hne hx

example : (wIter ⟨5, 5, some 4, 0, some 0, some 2⟩ 0 [[3, 1, 4, 0]]).out = .ok [3, 4] ∧
    (wIter ⟨5, 5, some 4, 0, some 1, some 2⟩ 0 [[3, 1, 4, 0]]).out = .ok [1, 0] := ⟨rfl, rfl⟩

/-- **All indices valid** (weighted): a draw inside the dataset gives streams inside the dataset. -/
theorem weighted_indices_valid (c : WCfg) (epoch eff : Nat) (g : List Nat) (t tape : Tape)
    (he : wEffective c = .ok eff) (hp : popLen eff tape = some (g, t)) (hv : ∀ x, x ∈ g → x < c.n) (r : Nat) :
    ∀ x, x ∈ C12.okOr (wIter { c with rankArg := some r } epoch tape).out → x < c.n := by
  intro x hx
  rw [(C12.weighted_rank_streams c epoch eff g t tape he hp r).1] at hx
  exact hv x (mem_of_mem_rankSlice hx)

/-- the weighted epoch length: `size // world_size`, `size` defaulting to the dataset size and asserted ≤ it -/
theorem weighted_length (c : WCfg) :
    (c.size = none → wLen c = .ok (c.n / wsOf c.wsArg)) ∧
    (∀ s, c.size = some s → s ≤ c.n → wLen c = .ok (s / wsOf c.wsArg)) ∧
    (∀ s, c.size = some s → c.n < s → wLen c = .error .assertion) := by
  refine ⟨?_, ?_, ?_⟩
  · intro h; simp [wLen, wEffective, h]
  · intro s h hs; simp [wLen, wEffective, h, hs]
  · intro s h hs
    have : ¬ s ≤ c.n := by omega
    simp [wLen, wEffective, h, this]

/-! ## Statements that do not assume success

The theorems above take `cbGlobal … = .ok G`, `(semiIter …).out = .ok out`, `popLen … = some …` and content
contracts on intermediate results (`hfinal`, `hused`, `hv`) as hypotheses.  The theorems below start from what
the constructors accept and from torch's contracts for the answers on the TAPE only (`CBTapeOk`, `TapePermsOk`,
`MultinomialOk`, `SemiTapeOk`, all in `Model/C12Spec.lean`) and prove that the iterators succeed. -/

/-- **C13, class-balanced epoch, unconditionally**: for a dataset whose labels are the class ids `0 … C-1`
    (`CBLabelsOk`), accepted by the constructor (`cbCtor`), every `samples_per_class`, and a tape that answers the
    `randperm` requests in torch's shapes (`CBTapeOk`) with permutations (`TapePermsOk`; both vacuous without
    shuffle): `__iter__` reaches the rank split without raising, the global draw has `C·spc` entries, holds
    exactly `samples_per_class` indices of every class, reuses the samples of a class as evenly as possible
    (multiplicities differ by at most one) and contains only valid dataset indices. -/
theorem balanced_epoch_total (c : CBCfg) (tape : Tape) (hctor : cbCtor c = .ok ()) (hlab : CBLabelsOk c)
    (ht : CBTapeOk c tape) (hperm : c.shuffle = true → TapePermsOk tape) :
    ∃ G, cbGlobal c tape = .ok G ∧ G.g.length = cbNumClasses c * cbSpc c ∧
      (∀ v, v < cbNumClasses c → classCount c.classes v G.g = cbSpc c) ∧
      (∀ v a b, c.classes[a]? = some (Int.ofNat v) → c.classes[b]? = some (Int.ofNat v) →
        G.g.count a ≤ G.g.count b + 1) ∧
      (∀ x, x ∈ G.g → x < c.classes.length) := by
  obtain ⟨G, hG, hc⟩ := c12x_cbGlobal_total c tape (c12x_cb_pools_pos c hctor hlab) ht
  obtain ⟨hfinal, hused⟩ := hc hperm
  obtain ⟨h1, h2⟩ := balanced_exact_counts c tape G hG hfinal
  exact ⟨G, hG, h1, h2, fun v a b ha hb => balanced_even_reuse c tape G hG hfinal hused v a b ha hb,
    (balanced_indices_valid c tape G hG).1⟩

/-- the hypotheses of `balanced_epoch_total` are satisfiable: the recorded tape of the example above -/
example : TapePermsOk [[1, 0], [0, 1], [2, 0, 1], [1, 2, 0], [7, 0, 3, 2, 6, 1, 5, 4]] := by
  intro p hp
  simp at hp
  rcases hp with rfl | rfl | rfl | rfl | rfl <;> unfold RandpermOk <;> decide

/-- **C13, "one epoch contains, over all ranks together, exactly samples_per_class indices of every class"** —
    on what the ranks actually yield (the round-robin merge of the rank streams of `cbIter`), not on the draw
    before the split.  Same domain as `balanced_epoch_total`.  The ranks together yield `len·W` valid indices;
    every class occurs at most `samples_per_class` times and fewer than `W` of its occurrences are lost to the
    tail cut `[:len(self)]`; exactly `samples_per_class` times when the world size divides `C·spc`. -/
theorem balanced_ranks_class_counts (c : CBCfg) (epoch : Nat) (tape : Tape) (hctor : cbCtor c = .ok ())
    (hlab : CBLabelsOk c) (ht : CBTapeOk c tape) (hperm : c.shuffle = true → TapePermsOk tape) :
    let W := wsOf c.wsArg
    (C12.cbRanksTogether c epoch tape).length = cbLen c * W ∧
    (∀ x, x ∈ C12.cbRanksTogether c epoch tape → x < c.classes.length) ∧
    ∀ v, v < cbNumClasses c →
      classCount c.classes v (C12.cbRanksTogether c epoch tape) ≤ cbSpc c ∧
      cbSpc c < classCount c.classes v (C12.cbRanksTogether c epoch tape) + W ∧
      ((cbNumClasses c * cbSpc c) % W = 0 →
        classCount c.classes v (C12.cbRanksTogether c epoch tape) = cbSpc c) := by
  intro W
  obtain ⟨G, hG, hlen, hcnt, _, hval⟩ := balanced_epoch_total c tape hctor hlab ht hperm
  obtain ⟨G', hG', _, _, htog, hle, hlt, hmod⟩ := C12.balanced_ranks_split c epoch tape hctor hlab ht
  have hGG : G' = G := by
    rw [hG] at hG'
    injection hG' with h
    exact h.symm
  subst hGG
  refine ⟨?_, ?_, ?_⟩
  · rw [htog, List.length_take, hlen]
    exact Nat.min_eq_left hle
  · intro x hx
    rw [htog] at hx
    exact hval x (List.mem_of_mem_take hx)
  · intro v hv
    have hsplit : classCount c.classes v G'.g =
        classCount c.classes v (G'.g.take (cbLen c * wsOf c.wsArg)) +
        classCount c.classes v (G'.g.drop (cbLen c * wsOf c.wsArg)) := by
      unfold classCount
      rw [← List.countP_append, List.take_append_drop]
    have hdrop : classCount c.classes v (G'.g.drop (cbLen c * wsOf c.wsArg)) ≤
        (G'.g.drop (cbLen c * wsOf c.wsArg)).length := List.countP_le_length
    rw [List.length_drop, hlen] at hdrop
    have hc := hcnt v hv
    rw [hsplit] at hc
    refine ⟨?_, ?_, ?_⟩
    · rw [htog]; omega
    · rw [htog]
      show cbSpc c < _ + wsOf c.wsArg
      have hlt' : cbNumClasses c * cbSpc c < cbLen c * wsOf c.wsArg + wsOf c.wsArg := hlt
      omega
    · intro h0
      rw [hmod h0]
      exact hcnt v hv

example : C12.cbRanksTogether ⟨[0, 1, 1, 1, 0], 1, true, some 3, 0, none, some 2⟩ 0
      [[1, 0], [0, 1], [2, 0, 1], [5, 0, 3, 2, 1, 4]] = [2, 4, 3, 0, 0, 1] ∧
    classCount [0, 1, 1, 1, 0] 0 [2, 4, 3, 0, 0, 1] = 3 ∧ classCount [0, 1, 1, 1, 0] 1 [2, 4, 3, 0, 0, 1] = 3 := by
  refine ⟨rfl, ?_, ?_⟩ <;> decide

/-- **C13, weighted sampler, from the contract of the draw on the tape**: the constructor accepted
    (`len(dataset) == len(weights)`), `size ≤ n`, and the tape starts with an answer `d` that keeps torch's
    contract for `multinomial(weights, size, replacement=False)` (`MultinomialOk`: `size` entries, each a position
    of the weight vector, no position twice).  Then every index of every rank stream is a valid dataset index, no
    rank repeats an index, different ranks share no index, and what the ranks yield together has no repetition. -/
theorem weighted_epoch_from_contract (c : WCfg) (epoch : Nat) (d : List Nat) (rest : Tape)
    (hctor : wCtor c = .ok ()) (hsz : ∀ s, c.size = some s → s ≤ c.n)
    (hm : MultinomialOk c.nWeights (wSize c) d) :
    let W := wsOf c.wsArg
    let stream := fun r => C12.okOr (wIter { c with rankArg := some r } epoch (d :: rest)).out
    (∀ r x, x ∈ stream r → x < c.n) ∧
    (∀ r, r < W → (stream r).Nodup) ∧
    (∀ r1 r2 x, r1 < W → r2 < W → r1 ≠ r2 → x ∈ stream r1 → ¬ x ∈ stream r2) ∧
    (C12.wRanksTogether c epoch (d :: rest)).Nodup ∧
    (∀ x, x ∈ C12.wRanksTogether c epoch (d :: rest) → x < c.n) := by
  intro W stream
  have hn : c.n = c.nWeights := by
    unfold wCtor at hctor
    by_cases h : c.n = c.nWeights
    · exact h
    · simp [h] at hctor
  have he := c12x_wEffective_ok c hsz
  have hp : popLen (wSize c) (d :: rest) = some (d, rest) := c12x_popLen_cons hm.shape
  have hv : ∀ x, x ∈ d → x < c.n := fun x hx => by rw [hn]; exact hm.range x hx
  obtain ⟨h1, h2⟩ := weighted_no_repeat c epoch (wSize c) d rest (d :: rest) he hp hm.distinct
  obtain ⟨_, _, htog, _, _, _⟩ := C12.weighted_ranks_total c epoch d rest hsz hm.shape
  refine ⟨?_, h1, h2, ?_, ?_⟩
  · intro r x hx
    exact weighted_indices_valid c epoch (wSize c) d rest (d :: rest) he hp hv r x hx
  · rw [htog]
    exact (List.take_sublist _ _).nodup hm.distinct
  · intro x hx
    rw [htog] at hx
    exact hv x (List.mem_of_mem_take hx)

example : MultinomialOk 6 5 [2, 0, 3, 1, 5] ∧ wCtor ⟨6, 6, some 5, 0, none, some 2⟩ = .ok () :=
  ⟨⟨rfl, by decide, by decide⟩, rfl⟩

/-- **C13, totality of the semi-supervised sampler**: the constructor accepted (`semiCtor`: chunk sizes ≥ 1, a
    valid length mode, both pools non-empty) and the tape holds the two seed scalars followed by `randperm` answers
    of the sizes the loop asks for, in the order it asks (`SemiTapeOk`, sizes given by `semiSchedule`; entries in
    range).  Then `__iter__` raises nothing (no `IndexError`, no endless generator) and yields exactly
    `len(sampler)` indices in strict alternation `num_labeled` labeled / `num_unlabeled` unlabeled. -/
theorem semi_iter_total (c : SemiCfg) (epoch : Nat) (tape : Tape) (hctor : semiCtor c = .ok ())
    (ht : SemiTapeOk c tape) :
    ∃ out, (semiIter c epoch tape).out = .ok out ∧ out.length = semiLen c ∧
      ∀ i x, out[i]? = some x →
        ∃ cl, c.classes[x]? = some cl ∧ (cl ≠ -1 ↔ i % (c.L + c.U) < c.L) := by
  obtain ⟨_, _, _, hl, hu⟩ := c12x_semiCtor_ok hctor
  obtain ⟨out, hout⟩ := c12x_semiIter_total c epoch tape hl hu ht
  obtain ⟨h1, h2⟩ := semi_alternation c epoch tape out hout
  exact ⟨out, hout, h1, h2⟩

/-- the hypotheses of `semi_iter_total` are satisfiable: the recorded run of the example above
    (pools of 4 labeled / 2 unlabeled samples, requests of sizes 4, 2, 2) -/
example : semiCtor ⟨[0, -1, 1, -1, 2, 3], 1, 1, none, none, 9243, .labeled⟩ = .ok () ∧
    SemiTapeOk ⟨[0, -1, 1, -1, 2, 3], 1, 1, none, none, 9243, .labeled⟩
      [[5], [7], [3, 0, 1, 2], [1, 0], [0, 1]] :=
  ⟨rfl, 5, 7, [[3, 0, 1, 2], [1, 0], [0, 1]], [], rfl, by decide, by decide⟩

end KDVerif.C13
