/-
C14 — Geometric transforms stay in bounds and their recorded parameters tell the truth; paired image/segmentation
geometry; patchify/unpatchify, patch shuffles and normalise/denormalise are mutual inverses.

Models: KDVerif/Model/Geometry.lean (integer cores over the recorded tape of draws; float front-end outputs are handed in
and universally quantified), KDVerif/Model/Rearrange.lean (einops patterns as flat-index maps, gather, normalisation over
`Rat`), KDVerif/Gen/Patterns.lean (the pattern strings of the code, regenerated every run, with the swap obligations).

A model run returns `.ok` only when every recorded draw has the kind and the range the routine asks for and satisfies the
generator's contract `lo ≤ v < hi`; so "`… = .ok r →`" reads "for every tape of draws satisfying the `integers(lo,hi)`
contract".
-/
import KDVerif.Lemmas.Geometry
import KDVerif.Lemmas.GeometryRearrange
import KDVerif.Lemmas.GeometryGrid
import KDVerif.Lemmas.C14Extra
import KDVerif.Gen.Patterns
import Mathlib.Tactic.Ring
import Mathlib.Tactic.FieldSimp

namespace KDVerif.C14
open KDVerif.Geometry KDVerif.Rearrange

/-! ### KDRandomCrop (and KDSimpleRandomCrop = Resize ∘ KDRandomCrop) -/

/-- **Crop box in bounds with exactly the requested size**: for every input size, padding configuration and tape, the
    recorded box `(i, j, h, w)` lies inside the padded image and has the size `(th, tw)`. -/
theorem crop_in_bounds (c : CropCfg) (h w : Int) (t t' : Tape) (o : CropOut)
    (hr : randomCrop c h w t = .ok (o, t')) :
    o.pads = padSeq c h w ∧ o.H = padH h o.pads ∧ o.W = padW w o.pads ∧
      o.box.inside o.H o.W ∧ o.box.h = c.th ∧ o.box.w = c.tw := by
  unfold randomCrop at hr
  simp only at hr
  cases hg : getParams (padH h (padSeq c h w)) (padW w (padSeq c h w)) c.th c.tw t with
  | error e => simp [hg] at hr
  | ok r =>
    obtain ⟨b, t1⟩ := r
    simp only [hg, Except.ok.injEq, Prod.mk.injEq] at hr
    obtain ⟨rfl, _⟩ := hr
    have := getParams_ok hg
    exact ⟨rfl, rfl, rfl, ⟨this.1, this.2.1, this.2.2.1, this.2.2.2.1⟩, this.2.2.2.2.1, this.2.2.2.2.2⟩

example : randomCrop ⟨8, 8, .all 2, false⟩ 10 12 [.ints 0 7 3, .ints 0 9 5]
    = .ok (⟨[⟨2, 2, 2, 2⟩], 14, 16, ⟨3, 5, 8, 8⟩⟩, []) := by rfl

/-- **The code rejects exactly the images that are more than one pixel too small** (its own `ValueError`). -/
theorem crop_rejects (h w th tw : Int) (t : Tape) :
    getParams h w th tw t = .error .valueError ↔ (h + 1 < th ∨ w + 1 < tw) :=
  getParams_valueError_iff

/-- the 1-pixel-too-small edge `h = th - 1` is not accepted either: the generator itself raises (`integers(0, 0)`) —
    never an out-of-bounds crop -/
theorem crop_edge_is_generator_error (w th tw : Int) (t : Tape) (hw : tw ≤ w + 1) :
    getParams (th - 1) w th tw t = .error .genValueError := by
  unfold getParams
  have h0 : ¬ (th - 1 + 1 < th ∨ w + 1 < tw) := by omega
  have h1 : ¬ (w = tw ∧ th - 1 = th) := by omega
  simp only [h0, h1, if_false]
  rw [drawInt_empty t (by omega)]

/-- no crop is ever returned for an image smaller than the target in either dimension -/
theorem crop_ok_needs_fit (h w th tw : Int) (t t' : Tape) (b : Box) (hh : getParams h w th tw t = .ok (b, t')) :
    th ≤ h ∧ tw ≤ w := by
  have := getParams_ok hh
  omega

/-- progress: an image that fits and two in-range draws give the crop at the drawn offsets -/
theorem crop_total (h w th tw vi vj : Int) (r : Tape) (h1 : th ≤ h) (h2 : tw ≤ w) (hne : ¬ (w = tw ∧ h = th))
    (hi : 0 ≤ vi ∧ vi ≤ h - th) (hj : 0 ≤ vj ∧ vj ≤ w - tw) :
    getParams h w th tw (.ints 0 (h - th + 1) vi :: .ints 0 (w - tw + 1) vj :: r) = .ok (⟨vi, vj, th, tw⟩, r) := by
  unfold getParams
  have h0 : ¬ (h + 1 < th ∨ w + 1 < tw) := by omega
  simp only [h0, hne, if_false]
  rw [drawInt_good _ hi.1 (by omega)]
  simp only
  rw [drawInt_good _ hj.1 (by omega)]

/-- **`pad_if_needed` reaches the target size** (whatever the configured padding) -/
theorem pad_reaches_size (c : CropCfg) (h w : Int) (hp : c.padIfNeeded = true) :
    c.th ≤ padH h (padSeq c h w) ∧ c.tw ≤ padW w (padSeq c h w) := by
  rw [padH_padSeq, padW_padSeq]
  constructor
  · by_cases h1 : padH h c.padding.toPads < c.th
    · simp [hp, h1]; omega
    · simp [h1]; omega
  · by_cases h1 : padW w c.padding.toPads < c.tw
    · simp [hp, h1]; omega
    · simp [h1]; omega

/-- … hence with `pad_if_needed` the crop never raises the size `ValueError` -/
theorem crop_pad_if_needed_never_rejects (c : CropCfg) (h w : Int) (t : Tape) (hp : c.padIfNeeded = true) :
    randomCrop c h w t ≠ .error .valueError := by
  intro hr
  unfold randomCrop at hr
  simp only at hr
  have hs := pad_reaches_size c h w hp
  cases hg : getParams (padH h (padSeq c h w)) (padW w (padSeq c h w)) c.th c.tw t with
  | error e =>
    simp only [hg, Except.error.injEq] at hr
    rw [hr] at hg
    have := (crop_rejects _ _ _ _ _).1 hg
    omega
  | ok r => simp [hg] at hr

/-- configured non-negative padding never shrinks the image -/
theorem padding_grows (p : Padding) (hp : p.nonneg) (h w : Int) : h ≤ padH h p.toPads ∧ w ≤ padW w p.toPads :=
  ⟨padH_toPads_ge p hp h, padW_toPads_ge p hp w⟩

/-! ### KDTwoRandomCrop -/

theorem twoLoop_ok (H W th tw : Int) (omin omax : Rat) (tries : Option Nat) (b0 : Box) :
    ∀ (fuel k : Nat) (t t' : Tape) (r : TwoOut), twoLoop H W th tw omin omax tries b0 fuel k t = .ok (r, t') →
      r.b1.inside H W ∧ r.b1.h = th ∧ r.b1.w = tw ∧
      r.overlap = ((interArea b0 r.b1 : Int) : Rat) / ((boxArea b0 + boxArea r.b1 - interArea b0 r.b1 : Int) : Rat) ∧
      (r.outOfTries = false → omin ≤ r.overlap ∧ r.overlap ≤ omax) ∧
      (r.outOfTries = true → ∃ n, tries = some n) := by
  intro fuel
  induction fuel with
  | zero => intro k t t' r h; simp [twoLoop] at h
  | succ f ih =>
    intro k t t' r h
    unfold twoLoop at h
    cases hg : getParams H W th tw t with
    | error e => simp [hg] at h
    | ok x =>
      obtain ⟨b1, t1⟩ := x
      simp only [hg] at h
      have hb := getParams_ok hg
      by_cases hu : boxArea b0 + boxArea b1 - interArea b0 b1 = 0
      · simp [hu] at h
      · simp only [hu, if_false] at h
        by_cases hov : omin ≤ ((interArea b0 b1 : Int) : Rat) / ((boxArea b0 + boxArea b1 - interArea b0 b1 : Int) : Rat) ∧
            ((interArea b0 b1 : Int) : Rat) / ((boxArea b0 + boxArea b1 - interArea b0 b1 : Int) : Rat) ≤ omax
        · simp only [hov, and_self, if_true, Except.ok.injEq, Prod.mk.injEq] at h
          obtain ⟨rfl, _⟩ := h
          exact ⟨⟨hb.1, hb.2.1, hb.2.2.1, hb.2.2.2.1⟩, hb.2.2.2.2.1, hb.2.2.2.2.2, rfl, fun _ => hov, fun hf => by simp at hf⟩
        · simp only [hov, if_false] at h
          cases tries with
          | none =>
            simp only [Bool.false_eq_true, if_false] at h
            exact ih _ _ _ _ h
          | some n =>
            simp only at h
            by_cases hn : n ≤ k + 1
            · simp only [hn, decide_true, if_true, Except.ok.injEq, Prod.mk.injEq] at h
              obtain ⟨rfl, _⟩ := h
              exact ⟨⟨hb.1, hb.2.1, hb.2.2.1, hb.2.2.2.1⟩, hb.2.2.2.2.1, hb.2.2.2.2.2, rfl, fun hf => by simp at hf, fun _ => ⟨n, rfl⟩⟩
            · simp only [hn, decide_false, Bool.false_eq_true, if_false] at h
              exact ih _ _ _ _ h

/-- **Both crops of the two-crop transform are in bounds with the requested size**, whatever the retry loop did; the
    recorded overlap is intersection/union of the two recorded boxes and respects `[overlap_min, overlap_max]` unless
    `out_of_tries` is recorded (which needs `tries` to be set). -/
theorem two_crop_in_bounds (c : CropCfg) (omin omax : Rat) (tries : Option Nat) (fuel : Nat) (h w : Int)
    (t t' : Tape) (o : TwoCropOut) (hr : twoCrop c omin omax tries fuel h w t = .ok (o, t')) :
    o.pads = padSeq c h w ∧ o.H = padH h o.pads ∧ o.W = padW w o.pads ∧
      o.b0.inside o.H o.W ∧ o.b0.h = c.th ∧ o.b0.w = c.tw ∧
      o.res.b1.inside o.H o.W ∧ o.res.b1.h = c.th ∧ o.res.b1.w = c.tw ∧
      o.res.overlap = ((interArea o.b0 o.res.b1 : Int) : Rat) /
        ((boxArea o.b0 + boxArea o.res.b1 - interArea o.b0 o.res.b1 : Int) : Rat) ∧
      (o.res.outOfTries = false → omin ≤ o.res.overlap ∧ o.res.overlap ≤ omax) ∧
      (o.res.outOfTries = true → ∃ n, tries = some n) := by
  unfold twoCrop at hr
  simp only at hr
  cases hg : getParams (padH h (padSeq c h w)) (padW w (padSeq c h w)) c.th c.tw t with
  | error e => simp [hg] at hr
  | ok x =>
    obtain ⟨b0, t1⟩ := x
    simp only [hg] at hr
    cases hl : twoLoop (padH h (padSeq c h w)) (padW w (padSeq c h w)) c.th c.tw omin omax tries b0 fuel 0 t1 with
    | error e => simp [hl] at hr
    | ok y =>
      obtain ⟨r, t2⟩ := y
      simp only [hl, Except.ok.injEq, Prod.mk.injEq] at hr
      obtain ⟨rfl, _⟩ := hr
      have hb := getParams_ok hg
      have hl' := twoLoop_ok _ _ _ _ _ _ _ _ _ _ _ _ _ hl
      exact ⟨rfl, rfl, rfl, ⟨hb.1, hb.2.1, hb.2.2.1, hb.2.2.2.1⟩, hb.2.2.2.2.1, hb.2.2.2.2.2,
        hl'.1, hl'.2.1, hl'.2.2.1, hl'.2.2.2.1, hl'.2.2.2.2.1, hl'.2.2.2.2.2⟩

/-- 6×6 image, 4×4 crops, overlap ≥ 1/2: the first candidate (2,2) overlaps 1/7 and is retried, the second (0,1) is taken -/
example : (match twoCrop ⟨4, 4, .none, false⟩ (1 / 2) 1 (some 3) 10 6 6
    [.ints 0 3 0, .ints 0 3 0, .ints 0 3 2, .ints 0 3 2, .ints 0 3 0, .ints 0 3 1] with
    | .ok (o, _) => decide (o.res.b1 = ⟨0, 1, 4, 4⟩) && !o.res.outOfTries && decide (o.res.overlap = 3 / 5)
    | .error _ => false) = true := by decide +kernel

/-- the intersection area is never negative … -/
theorem interArea_nonneg (a b : Box) : 0 ≤ interArea a b := by
  unfold interArea
  apply Int.mul_nonneg <;> (unfold imax; split_ifs <;> omega)

/-- … symmetric … -/
theorem interArea_comm (a b : Box) : interArea a b = interArea b a := by
  unfold interArea imax imin
  congr 1 <;> (split_ifs <;> omega)

/-- … and at most the area of either box (so the recorded overlap lies in `[0, 1]`) -/
theorem interArea_le_left (a b : Box) (hh : 0 ≤ a.h) (hw : 0 ≤ a.w) : interArea a b ≤ boxArea a := by
  unfold interArea boxArea
  apply Int.mul_le_mul
  · unfold imax imin; split_ifs <;> omega
  · unfold imax imin; split_ifs <;> omega
  · unfold imax; split_ifs <;> omega
  · exact hh

/-! ### KDRandomResizedCrop -/

theorem rrcLoop_ok (W H : Int) : ∀ (n : Nat) (ps ps' : List (Int × Int)) (t t' : Tape) (b : Box),
    rrcLoop W H n ps t = .ok (some b, ps', t') → b.inside H W ∧ 0 < b.h ∧ 0 < b.w := by
  intro n
  induction n with
  | zero => intro ps ps' t t' b h; simp [rrcLoop] at h
  | succ n ih =>
    intro ps ps' t t' b h
    cases ps with
    | nil => simp [rrcLoop] at h
    | cons p ps =>
      obtain ⟨w, hh⟩ := p
      unfold rrcLoop at h
      cases h1 : drawUnif t with
      | error e => simp [h1] at h
      | ok x1 =>
        obtain ⟨_, t1⟩ := x1
        simp only [h1] at h
        cases h2 : drawUnif t1 with
        | error e => simp [h2] at h
        | ok x2 =>
          obtain ⟨_, t2⟩ := x2
          simp only [h2] at h
          by_cases ha : rrcAccept W H w hh = true
          · simp only [ha, if_true] at h
            cases h3 : drawInt 0 (H - hh + 1) t2 with
            | error e => simp [h3] at h
            | ok x3 =>
              obtain ⟨i, t3⟩ := x3
              simp only [h3] at h
              cases h4 : drawInt 0 (W - w + 1) t3 with
              | error e => simp [h4] at h
              | ok x4 =>
                obtain ⟨j, t4⟩ := x4
                simp only [h4, Except.ok.injEq, Prod.mk.injEq, Option.some.injEq] at h
                obtain ⟨rfl, _⟩ := h
                have d3 := drawInt_ok h3
                have d4 := drawInt_ok h4
                simp only [rrcAccept, decide_eq_true_eq] at ha
                refine ⟨⟨?_, ?_, ?_, ?_⟩, ?_, ?_⟩ <;> dsimp only <;> omega
          · simp only [ha, Bool.false_eq_true, if_false] at h
            exact ih _ _ _ _ _ h

/-- **Accept branch of the resized crop**: whenever one of the 10 attempts is accepted, the recorded box has positive
    extent and lies inside the `H × W` image (for every front-end proposal and every tape). -/
theorem rrc_accept_in_bounds (W H : Int) (r0 r1 : Rat) (props ps : List (Int × Int)) (fe : RrcFront) (t t' : Tape)
    (o : RrcOut) (hr : rrc W H r0 r1 props fe t = .ok (o, ps, t')) (hf : o.fallback = false) :
    o.box.inside H W ∧ 0 < o.box.h ∧ 0 < o.box.w := by
  unfold rrc at hr
  cases hl : rrcLoop W H 10 props t with
  | error e => simp [hl] at hr
  | ok x =>
    obtain ⟨ob, ps1, t1⟩ := x
    cases ob with
    | none =>
      simp only [hl, Except.ok.injEq, Prod.mk.injEq] at hr
      obtain ⟨rfl, _⟩ := hr
      simp at hf
    | some b =>
      simp only [hl, Except.ok.injEq, Prod.mk.injEq] at hr
      obtain ⟨rfl, _⟩ := hr
      exact rrcLoop_ok W H _ _ _ _ _ _ hl

/-- 10×10 image: the first proposal (12 wide) is rejected, the second (4×5) accepted at the drawn offsets -/
example : (match rrc 10 10 (3 / 4) (4 / 3) [(12, 5), (4, 5)] ⟨1, 0, 0⟩
      [.unif 0, .unif 0, .unif 0, .unif 0, .ints 0 6 2, .ints 0 7 3] with
    | .ok (o, _, _) => decide (o.box = ⟨2, 3, 5, 4⟩) && !o.fallback
    | .error _ => false) = true := by decide +kernel

/-- the float front end of the fallback branch is *order-faithful*: a correctly rounded quotient / product never crosses an
    integer or a representable bound the exact value does not cross -/
structure FrontOk (W H : Int) (r0 r1 : Rat) (fe : RrcFront) : Prop where
  lt_min : fe.inRatio < rmin r0 r1 → (W : Rat) / (H : Rat) < rmin r0 r1
  gt_max : rmax r0 r1 < fe.inRatio → rmax r0 r1 < (W : Rat) / (H : Rat)
  qh_le : ∀ n : Int, (W : Rat) / rmin r0 r1 ≤ (n : Rat) → fe.qh ≤ (n : Rat)
  qh_ge : ∀ n : Int, (n : Rat) ≤ (W : Rat) / rmin r0 r1 → (n : Rat) ≤ fe.qh
  qw_le : ∀ n : Int, (H : Rat) * rmax r0 r1 ≤ (n : Rat) → fe.qw ≤ (n : Rat)
  qw_ge : ∀ n : Int, (n : Rat) ≤ (H : Rat) * rmax r0 r1 → (n : Rat) ≤ fe.qw

theorem rmin_pos {a b : Rat} (ha : 0 < a) (hb : 0 < b) : 0 < rmin a b := by unfold rmin; split_ifs <;> assumption
theorem rmax_pos {a b : Rat} (ha : 0 < a) (hb : 0 < b) : 0 < rmax a b := by unfold rmax; split_ifs <;> assumption

/-- **Fallback branch of the resized crop**: the central crop lies inside the image and is never larger than it, for every
    positive image size, every positive ratio pair and every order-faithful front end. -/
theorem rrc_fallback_in_bounds (W H : Int) (r0 r1 : Rat) (fe : RrcFront) (hW : 0 < W) (hH : 0 < H)
    (h0 : 0 < r0) (h1 : 0 < r1) (hfe : FrontOk W H r0 r1 fe) :
    (rrcFallback W H r0 r1 fe).inside H W ∧
      0 ≤ (rrcFallback W H r0 r1 fe).h ∧ (rrcFallback W H r0 r1 fe).h ≤ H ∧
      0 ≤ (rrcFallback W H r0 r1 fe).w ∧ (rrcFallback W H r0 r1 fe).w ≤ W := by
  have hmin := rmin_pos h0 h1
  have hmax := rmax_pos h0 h1
  have hWq : (0 : Rat) < (W : Rat) := by exact_mod_cast hW
  have hHq : (0 : Rat) < (H : Rat) := by exact_mod_cast hH
  have key : ∀ hh ww : Int, 0 ≤ hh → hh ≤ H → 0 ≤ ww → ww ≤ W →
      (⟨(H - hh) / 2, (W - ww) / 2, hh, ww⟩ : Box).inside H W ∧ 0 ≤ hh ∧ hh ≤ H ∧ 0 ≤ ww ∧ ww ≤ W := by
    intro hh ww a b c d
    refine ⟨⟨?_, ?_, ?_, ?_⟩, a, b, c, d⟩ <;> dsimp only <;> omega
  unfold rrcFallback
  simp only
  by_cases c1 : fe.inRatio < rmin r0 r1
  · simp only [c1, if_true]
    have hlt := hfe.lt_min c1
    have hq : (W : Rat) / rmin r0 r1 ≤ (H : Rat) := by
      rw [div_le_iff₀ hmin]
      rw [div_lt_iff₀ hHq] at hlt
      linarith
    have hq0 : ((0 : Int) : Rat) ≤ (W : Rat) / rmin r0 r1 := by
      simp only [Int.cast_zero]; exact le_of_lt (div_pos hWq hmin)
    exact key _ _ (le_roundHalfEven (hfe.qh_ge 0 hq0)) (roundHalfEven_le (hfe.qh_le H hq)) (le_of_lt hW) (le_refl _)
  · simp only [c1, if_false]
    by_cases c2 : rmax r0 r1 < fe.inRatio
    · simp only [c2, if_true]
      have hgt := hfe.gt_max c2
      have hq : (H : Rat) * rmax r0 r1 ≤ (W : Rat) := by
        rw [lt_div_iff₀ hHq] at hgt
        linarith
      have hq0 : ((0 : Int) : Rat) ≤ (H : Rat) * rmax r0 r1 := by
        simp only [Int.cast_zero]; exact le_of_lt (mul_pos hHq hmax)
      exact key _ _ (le_of_lt hH) (le_refl _) (le_roundHalfEven (hfe.qw_ge 0 hq0)) (roundHalfEven_le (hfe.qw_le W hq))
    · simp only [c2, if_false]
      exact key _ _ (le_of_lt hH) (le_refl _) (le_of_lt hW) (le_refl _)

/-- **Positive extent of the fallback — partial**: proved under `min(ratio) ≤ W` and `1 ≤ H · max(ratio)`. Excluded
    corner (also produced by the real code, out of the claim): an extreme ratio range such as `ratio = (3, 4)` on a
    `1 × 100` image gives `h = round(1/3) = 0`, a zero-height box (see the `example` below). -/
theorem rrc_fallback_positive_partial (W H : Int) (r0 r1 : Rat) (fe : RrcFront) (hW : 0 < W) (hH : 0 < H)
    (h0 : 0 < r0) (h1 : 0 < r1) (hfe : FrontOk W H r0 r1 fe)
    (hx1 : rmin r0 r1 ≤ (W : Rat)) (hx2 : 1 ≤ (H : Rat) * rmax r0 r1) :
    0 < (rrcFallback W H r0 r1 fe).h ∧ 0 < (rrcFallback W H r0 r1 fe).w := by
  have hmin := rmin_pos h0 h1
  unfold rrcFallback
  simp only
  by_cases c1 : fe.inRatio < rmin r0 r1
  · simp only [c1, if_true]
    have hq1 : ((1 : Int) : Rat) ≤ (W : Rat) / rmin r0 r1 := by
      simp only [Int.cast_one]
      rw [le_div_iff₀ hmin]; linarith
    have := le_roundHalfEven (hfe.qh_ge 1 hq1)
    omega
  · simp only [c1, if_false]
    by_cases c2 : rmax r0 r1 < fe.inRatio
    · simp only [c2, if_true]
      have hq1 : ((1 : Int) : Rat) ≤ (H : Rat) * rmax r0 r1 := by simpa using hx2
      have := le_roundHalfEven (hfe.qw_ge 1 hq1)
      omega
    · simp only [c2, if_false]
      omega

/-- the excluded corner of `rrc_fallback_positive_partial` is real: ratio `(3, 4)`, image `W = 1`, `H = 100` -/
example : (rrcFallback 1 100 3 4 ⟨1 / 100, 1 / 3, 400⟩).h = 0 := by decide +kernel

example : FrontOk 4 3 (3 / 4) (4 / 3) ⟨4 / 3, 16 / 3, 4⟩ := by
  have e1 : rmin (3 / 4 : Rat) (4 / 3) = 3 / 4 := by decide +kernel
  have e2 : rmax (3 / 4 : Rat) (4 / 3) = 4 / 3 := by decide +kernel
  constructor <;> simp only [e1, e2] <;> norm_num

/-! ### KDRandomErasing -/

theorem eraseRect_ok (H W : Int) (st : Bool) : ∀ (n : Nat) (ps ps' : List (Int × Int)) (t t' : Tape) (b : Box),
    eraseRect H W st n ps t = .ok (some b, ps', t') → b.inside H W ∧ b.h < H ∧ b.w < W := by
  intro n
  induction n with
  | zero => intro ps ps' t t' b h; simp [eraseRect] at h
  | succ n ih =>
    intro ps ps' t t' b h
    cases ps with
    | nil => simp [eraseRect] at h
    | cons p ps =>
      obtain ⟨hh, w⟩ := p
      unfold eraseRect at h
      cases h1 : drawUnif t with
      | error e => simp [h1] at h
      | ok x1 =>
        obtain ⟨_, t1⟩ := x1
        simp only [h1] at h
        cases h2 : drawUnif t1 with
        | error e => simp [h2] at h
        | ok x2 =>
          obtain ⟨_, t2⟩ := x2
          simp only [h2] at h
          by_cases ha : w < W ∧ hh < H
          · simp only [ha, and_self, if_true] at h
            cases h3 : drawInt 0 (H - hh + 1) t2 with
            | error e => simp [h3] at h
            | ok x3 =>
              obtain ⟨i, t3⟩ := x3
              simp only [h3] at h
              cases h4 : drawInt 0 (W - w + 1) t3 with
              | error e => simp [h4] at h
              | ok x4 =>
                obtain ⟨j, t4⟩ := x4
                simp only [h4] at h
                cases h5 : drawReplacement st t4 with
                | error e => simp [h5] at h
                | ok t5 =>
                  simp only [h5, Except.ok.injEq, Prod.mk.injEq, Option.some.injEq] at h
                  obtain ⟨rfl, _⟩ := h
                  have d3 := drawInt_ok h3
                  have d4 := drawInt_ok h4
                  refine ⟨⟨?_, ?_, ?_, ?_⟩, ?_, ?_⟩ <;> dsimp only <;> omega
          · simp only [ha, if_false] at h
            exact ih _ _ _ _ _ h

theorem eraseRects_ok (H W : Int) (st : Bool) : ∀ (n : Nat) (ps ps' : List (Int × Int)) (t t' : Tape) (bs : List Box),
    eraseRects H W st n ps t = .ok (bs, ps', t') →
      bs.length ≤ n ∧ ∀ b ∈ bs, b.inside H W ∧ b.h < H ∧ b.w < W := by
  intro n
  induction n with
  | zero =>
    intro ps ps' t t' bs h
    simp only [eraseRects, Except.ok.injEq, Prod.mk.injEq] at h
    obtain ⟨rfl, _⟩ := h
    simp
  | succ n ih =>
    intro ps ps' t t' bs h
    unfold eraseRects at h
    cases h1 : eraseRect H W st 10 ps t with
    | error e => simp [h1] at h
    | ok x =>
      obtain ⟨ob, ps1, t1⟩ := x
      simp only [h1] at h
      cases h2 : eraseRects H W st n ps1 t1 with
      | error e => simp [h2] at h
      | ok y =>
        obtain ⟨bs2, ps2, t2⟩ := y
        simp only [h2, Except.ok.injEq, Prod.mk.injEq] at h
        obtain ⟨rfl, _⟩ := h
        have i2 := ih _ _ _ _ _ h2
        cases ob with
        | none => simp only [Option.toList_none, List.nil_append]; exact ⟨by omega, i2.2⟩
        | some b =>
          have i1 := eraseRect_ok H W st _ _ _ _ _ _ h1
          simp only [Option.toList_some, List.cons_append, List.nil_append, List.length_cons, List.mem_cons]
          refine ⟨by omega, ?_⟩
          intro b' hb'
          rcases hb' with rfl | hb'
          · exact i1
          · exact i2.2 b' hb'

/-- **Erase boxes in bounds**: every rectangle erased by `KDRandomErasing` lies inside the image and is strictly smaller
    than it in both dimensions; at most `n_rects` rectangles are erased (for every front-end proposal list and every tape). -/
theorem erase_boxes_in_bounds (c : EraseCfg) (H W : Int) (props ps : List (Int × Int)) (t t' : Tape) (o : EraseOut)
    (hr : erasing c H W props t = .ok (o, ps, t')) :
    o.boxes.length ≤ o.nRects.toNat ∧ ∀ b ∈ o.boxes, b.inside H W ∧ b.h < H ∧ b.w < W := by
  unfold erasing at hr
  cases h1 : applyDraw c.p t with
  | error e => simp [h1] at hr
  | ok x =>
    obtain ⟨ap, t1⟩ := x
    cases ap with
    | false =>
      simp only [h1, Except.ok.injEq, Prod.mk.injEq] at hr
      obtain ⟨rfl, _⟩ := hr
      simp
    | true =>
      simp only [h1] at hr
      cases h2 : (if c.minCount = c.maxCount then (Except.ok (c.minCount, t1) : Except Err (Int × Tape))
          else drawInt c.minCount c.maxCount t1) with
      | error e => simp [h2] at hr
      | ok y =>
        obtain ⟨n, t2⟩ := y
        simp only [h2] at hr
        by_cases hn : n = 0
        · simp [hn] at hr
        · simp only [hn, if_false] at hr
          cases h3 : eraseRects H W c.stochastic n.toNat props t2 with
          | error e => simp [h3] at hr
          | ok z =>
            obtain ⟨bs, ps3, t3⟩ := z
            simp only [h3, Except.ok.injEq, Prod.mk.injEq] at hr
            obtain ⟨rfl, _⟩ := hr
            exact eraseRects_ok H W _ _ _ _ _ _ _ h3

example : (match erasing ⟨1, 1, 1, false⟩ 8 8 [(9, 2), (3, 4)] [.rand (1 / 2), .unif 0, .unif 0, .unif 0, .unif 0,
      .ints 0 6 5, .ints 0 5 1] with
    | .ok (o, _, _) => decide (o.boxes = [⟨5, 1, 3, 4⟩])
    | .error _ => false) = true := by decide +kernel

/-! ### KDSpecAugment -/

/-- **Spec-augment mask**: the masked positions of an axis all lie inside the axis, there are fewer than `mask_param` of
    them, they are exactly the positions `start ≤ k < stop` of the axis and `stop - start = value.long()` — for every pair
    of front-end integers (the code's `assert` is the only filter). -/
theorem spec_mask_len_lt_param (size : Nat) (P : Int) (fe : Int × Int) (t t' : Tape) (m : SpecMask)
    (h : specAxis size P fe t = .ok (some m, t')) :
    (m.idx.length : Int) < P ∧ (∀ k ∈ m.idx, k < size) ∧ m.idx = maskIdx size m.start m.stop ∧
      m.stop - m.start = fe.1 ∧ m.start = fe.2 ∧ (m.idx.length : Int) ≤ imax 0 fe.1 := by
  unfold specAxis at h
  by_cases hP : P < 1
  · simp [hP] at h
  · simp only [hP, if_false] at h
    cases h1 : drawRand t with
    | error e => simp [h1] at h
    | ok x1 =>
      obtain ⟨_, t1⟩ := x1
      simp only [h1] at h
      cases h2 : drawRand t1 with
      | error e => simp [h2] at h
      | ok x2 =>
        obtain ⟨_, t2⟩ := x2
        simp only [h2] at h
        have hrw : (fe.2 + fe.1 - fe.2 < P) ↔ fe.1 < P := by constructor <;> intro _ <;> omega
        simp only [hrw] at h
        by_cases ha : fe.1 < P
        · simp only [ha, not_true_eq_false, if_false, Except.ok.injEq, Prod.mk.injEq, Option.some.injEq] at h
          obtain ⟨rfl, _⟩ := h
          have hl := maskIdx_length size fe.2 (fe.2 + fe.1)
          refine ⟨?_, ?_, rfl, ?_, rfl, ?_⟩
          · dsimp only; rw [hl]; unfold imax imin; split_ifs <;> omega
          · intro k hk; exact (mem_maskIdx.1 hk).1
          · dsimp only; omega
          · dsimp only; rw [hl]; unfold imax imin; split_ifs <;> omega
        · simp [ha] at h

/-- under the front end's contract (`0 ≤ min_value.long()`, `min_value.long() + value.long() ≤ size`, `0 ≤ value.long()`)
    the mask is the full interval: exactly `value.long()` positions -/
theorem spec_mask_exact (size : Nat) (P : Int) (fe : Int × Int) (t t' : Tape) (m : SpecMask)
    (h : specAxis size P fe t = .ok (some m, t')) (h0 : 0 ≤ fe.2) (hv : 0 ≤ fe.1) (h1 : fe.2 + fe.1 ≤ size) :
    (m.idx.length : Int) = fe.1 := by
  have s := spec_mask_len_lt_param size P fe t t' m h
  rw [s.2.2.1, maskIdx_length]
  have a := s.2.2.2.1
  have b := s.2.2.2.2.1
  unfold imax imin; split_ifs <;> omega

example : (match specAxis 10 4 (3, 5) [.rand (1 / 2), .rand (1 / 2)] with
    | .ok (some m, _) => decide (m.idx = [5, 6, 7])
    | _ => false) = true := by decide +kernel

/-! ### semantic segmentation: crop / pad / multi-crop -/

theorem semsegCropParams_ok (H W th tw : Int) (t t' : Tape) (b : Box)
    (h : semsegCropParams H W th tw t = .ok (b, t')) :
    b.inside H W ∧ b.h = imin H th ∧ b.w = imin W tw := by
  unfold semsegCropParams at h
  cases h1 : drawInt 0 (imax 0 (H - th) + 1) t with
  | error e => simp [h1] at h
  | ok x1 =>
    obtain ⟨i, t1⟩ := x1
    simp only [h1] at h
    cases h2 : drawInt 0 (imax 0 (W - tw) + 1) t1 with
    | error e => simp [h2] at h
    | ok x2 =>
      obtain ⟨j, t2⟩ := x2
      simp only [h2, Except.ok.injEq, Prod.mk.injEq] at h
      obtain ⟨rfl, _⟩ := h
      have d1 := drawInt_ok h1
      have d2 := drawInt_ok h2
      unfold imax at d1 d2
      refine ⟨⟨?_, ?_, ?_, ?_⟩, rfl, rfl⟩ <;> dsimp only <;> (try unfold imin) <;> split_ifs at * <;> omega

theorem semsegRetry_ok (H W th tw : Int) : ∀ (n : Nat) (oks oks' : List Bool) (b0 b : Box) (t t' : Tape),
    (b0.inside H W ∧ b0.h = imin H th ∧ b0.w = imin W tw) →
    semsegRetry H W th tw n oks b0 t = .ok (b, oks', t') → b.inside H W ∧ b.h = imin H th ∧ b.w = imin W tw := by
  intro n
  induction n with
  | zero =>
    intro oks oks' b0 b t t' h0 h
    simp only [semsegRetry, Except.ok.injEq, Prod.mk.injEq] at h
    obtain ⟨rfl, _⟩ := h
    exact h0
  | succ n ih =>
    intro oks oks' b0 b t t' h0 h
    cases oks with
    | nil => simp [semsegRetry] at h
    | cons ok oks =>
      unfold semsegRetry at h
      cases ok with
      | true =>
        simp only [if_true, Except.ok.injEq, Prod.mk.injEq] at h
        obtain ⟨rfl, _⟩ := h
        exact h0
      | false =>
        simp only [Bool.false_eq_true, if_false] at h
        cases h1 : semsegCropParams H W th tw t with
        | error e => simp [h1] at h
        | ok x =>
          obtain ⟨b1, t1⟩ := x
          simp only [h1] at h
          exact ih _ _ _ _ _ _ (semsegCropParams_ok H W th tw _ _ _ h1) h

/-- **Segmentation crop in bounds**: the one box applied to image and mask lies inside the image and has size
    `(min(H, th), min(W, tw))`, also after any number of category-ratio retries. -/
theorem semseg_crop_in_bounds (H W th tw : Int) (retry : Bool) (oks oks' : List Bool) (t t' : Tape) (b : Box)
    (h : semsegCrop H W th tw retry oks t = .ok (b, oks', t')) :
    b.inside H W ∧ b.h = imin H th ∧ b.w = imin W tw := by
  unfold semsegCrop at h
  cases h1 : semsegCropParams H W th tw t with
  | error e => simp [h1] at h
  | ok x =>
    obtain ⟨b1, t1⟩ := x
    simp only [h1] at h
    have i1 := semsegCropParams_ok H W th tw _ _ _ h1
    cases retry with
    | true =>
      simp only [if_true] at h
      exact semsegRetry_ok H W th tw _ _ _ _ _ _ _ i1 h
    | false =>
      simp only [Bool.false_eq_true, if_false, Except.ok.injEq, Prod.mk.injEq] at h
      obtain ⟨rfl, _⟩ := h
      exact i1

example : semsegCrop 5 9 4 4 true [false, true] [.ints 0 2 1, .ints 0 6 5, .ints 0 2 0, .ints 0 6 2]
    = .ok (⟨0, 2, 4, 4⟩, [], []) := by rfl

/-- **Segmentation pad reaches the size**: the padded image is exactly `max(H, th) × max(W, tw)`, all amounts are
    non-negative and top/bottom (left/right) differ by at most one pixel (the extra pixel goes to the bottom / right). -/
theorem semseg_pad_reaches_size (H W th tw : Int) :
    let p := semsegPad H W th tw
    H + p.t + p.b = imax H th ∧ W + p.l + p.r = imax W tw ∧
      0 ≤ p.l ∧ 0 ≤ p.t ∧ p.l ≤ p.r ∧ p.r ≤ p.l + 1 ∧ p.t ≤ p.b ∧ p.b ≤ p.t + 1 := by
  simp only [semsegPad]
  unfold imax
  refine ⟨?_, ?_, ?_, ?_, ?_, ?_, ?_, ?_⟩ <;> split_ifs <;> omega

theorem length_grid {β : Type} (r c : Nat) (f : Nat → Nat → β) :
    ((List.range r).flatMap (fun i => (List.range c).map (f i))).length = r * c := by
  induction r with
  | zero => simp
  | succ n ih =>
    rw [List.range_succ, List.flatMap_append, List.length_append, ih]
    simp [Nat.succ_mul]

/-- **Overlapped multi-crop grid in bounds**: every crop box of the half-overlapping grid lies inside the image and has
    the crop size; there are `(2H/ch - 1)·(2W/cw - 1)` of them. -/
theorem multi_crop_in_bounds (H W ch cw : Int) (bs : List Box) (hH : 0 < H) (hW : 0 < W)
    (h : multiCropGrid H W ch cw = .ok bs) :
    (∀ b ∈ bs, b.inside H W ∧ b.h = ch ∧ b.w = cw) ∧
      (bs.length : Int) = (2 * H / ch - 1) * (2 * W / cw - 1) := by
  unfold multiCropGrid at h
  by_cases h0 : ch % 2 ≠ 0 ∨ cw % 2 ≠ 0 ∨ ch ≤ 0 ∨ cw ≤ 0
  · simp [h0] at h
  · simp only [h0, if_false] at h
    by_cases h1 : H % ch ≠ 0 ∨ W % cw ≠ 0
    · simp [h1] at h
    · simp only [h1, if_false, Except.ok.injEq] at h
      subst h
      have hch : ch = 2 * (ch / 2) := by omega
      have hcw : cw = 2 * (cw / 2) := by omega
      obtain ⟨qh, hqh⟩ : ∃ q, H = ch * q := ⟨H / ch, by
        have := Int.emod_add_mul_ediv H ch; have h1' : H % ch = 0 := by omega
        rw [h1'] at this; omega⟩
      obtain ⟨qw, hqw⟩ : ∃ q, W = cw * q := ⟨W / cw, by
        have := Int.emod_add_mul_ediv W cw; have h1' : W % cw = 0 := by omega
        rw [h1'] at this; omega⟩
      generalize hoh : ch / 2 = oh at *
      generalize how : cw / 2 = ow at *
      have hoh0 : 0 < oh := by omega
      have how0 : 0 < ow := by omega
      have hqh0 : 0 < qh := by
        rcases lt_or_ge 0 qh with h | h
        · exact h
        · have : ch * qh ≤ 0 := by nlinarith
          omega
      have hqw0 : 0 < qw := by
        rcases lt_or_ge 0 qw with h | h
        · exact h
        · have : cw * qw ≤ 0 := by nlinarith
          omega
      have e1 : (H - ch) / oh = 2 * qh - 2 := by
        have : H - ch = oh * (2 * qh - 2) := by rw [hqh, hch]; ring
        rw [this, Int.mul_ediv_cancel_left _ (by omega)]
      have e2 : (W - cw) / ow = 2 * qw - 2 := by
        have : W - cw = ow * (2 * qw - 2) := by rw [hqw, hcw]; ring
        rw [this, Int.mul_ediv_cancel_left _ (by omega)]
      have e3 : 2 * H / ch = 2 * qh := by
        have : 2 * H = ch * (2 * qh) := by rw [hqh]; ring
        rw [this, Int.mul_ediv_cancel_left _ (by omega)]
      have e4 : 2 * W / cw = 2 * qw := by
        have : 2 * W = cw * (2 * qw) := by rw [hqw]; ring
        rw [this, Int.mul_ediv_cancel_left _ (by omega)]
      rw [e1, e2]
      constructor
      · intro b hb
        simp only [List.mem_flatMap, List.mem_range, List.mem_map] at hb
        obtain ⟨i, hi, j, hj, rfl⟩ := hb
        have hi' : (i : Int) ≤ 2 * qh - 2 := by omega
        have hj' : (j : Int) ≤ 2 * qw - 2 := by omega
        have m1 : (i : Int) * oh ≤ (2 * qh - 2) * oh := Int.mul_le_mul_of_nonneg_right hi' (by omega)
        have m2 : (j : Int) * ow ≤ (2 * qw - 2) * ow := Int.mul_le_mul_of_nonneg_right hj' (by omega)
        have m3 : 0 ≤ (i : Int) * oh := Int.mul_nonneg (by omega) (by omega)
        have m4 : 0 ≤ (j : Int) * ow := Int.mul_nonneg (by omega) (by omega)
        have n1 : (2 * qh - 2) * oh + ch = H := by rw [hqh, hch]; ring
        have n2 : (2 * qw - 2) * ow + cw = W := by rw [hqw, hcw]; ring
        refine ⟨⟨?_, ?_, ?_, ?_⟩, rfl, rfl⟩ <;> dsimp only <;> omega
      · rw [e3, e4]
        rw [length_grid]
        push_cast
        rw [Int.toNat_of_nonneg (by omega : (0 : Int) ≤ 1 + (2 * qh - 2)),
          Int.toNat_of_nonneg (by omega : (0 : Int) ≤ 1 + (2 * qw - 2))]
        ring

example : multiCropGrid 4 6 2 2 = .ok ((List.range 3).flatMap (fun (i : Nat) =>
    (List.range 5).map (fun (j : Nat) => (⟨(i : Int) * 1, (j : Int) * 1, 2, 2⟩ : Box)))) := by rfl

/-! ### applying recorded parameters to a grid; pairs -/

/-- **Requested output size on grids**: cropping an `H × W` grid with a box inside it gives exactly `h × w`; constant
    padding gives `(H+t+b) × (W+l+r)`; a horizontal flip keeps the shape. -/
theorem grid_ops_shape {α : Type} (g : Grid α) (H W : Nat) (hg : g.Shaped H W) :
    (∀ i j h w, i + h ≤ H → j + w ≤ W → (g.crop i j h w).Shaped h w) ∧
    (∀ l t r b fill, 0 < H → (g.pad l t r b fill).Shaped (H + t + b) (W + l + r)) ∧
    g.hflip.Shaped H W :=
  ⟨fun i j h w hi hj => Grid.crop_shaped g H W i j h w hg hi hj,
   fun l t r b fill hH => Grid.pad_shaped g H W l t r b fill hg hH,
   Grid.hflip_shaped g H W hg⟩

/-- **One parameter tuple for both members (structural)**: running a list of geometric operations on a pair is running
    the same list, with the same parameters, on the image and on the mask. -/
theorem pair_same_parameters {α : Type} (fx fs : α) (ops : List PairOp) (p : Grid α × Grid α) :
    runPair fx fs ops p = (ops.foldl (fun g op => applyOp fx op g) p.1, ops.foldl (fun g op => applyOp fs op g) p.2) := by
  induction ops generalizing p with
  | nil => rfl
  | cons op ops ih =>
    simp only [runPair, List.foldl_cons] at ih ⊢
    rw [ih]
    rfl

/-- **Pair geometry identical**: if every mask cell is a function `f` of the image cell at the same position before the
    pipeline (and the fill values correspond), it is the same function of the image cell at the same position after it —
    image and mask stay aligned through any sequence of crops, pads and flips. -/
theorem pair_same_geometry {α : Type} (f : α → α) (fx : α) (ops : List PairOp) (g : Grid α) :
    (runPair fx (f fx) ops (g, Grid.relabel f g)).2 = Grid.relabel f (runPair fx (f fx) ops (g, Grid.relabel f g)).1 := by
  rw [pair_same_parameters]
  simp only
  induction ops generalizing g with
  | nil => rfl
  | cons op ops ih =>
    simp only [List.foldl_cons]
    rw [applyOp_relabel]
    exact ih _

example : runPair 0 (-1 : Int) [.pad 1 0 0 0, .crop 0 0 1 2, .hflip] ([[10, 20]], [[1, 2]])
    = ([[10, 0]], [[1, -1]]) := by decide

/-! ### patchify / unpatchify -/

/-- **`rearrange (swap p) ∘ rearrange p = id`** for every well-formed pattern, all axis sizes and every element position
    of the input tensor; the image of a position is a position of the output tensor. -/
theorem rearrange_swap_inverse (p : Pattern) (hp : p.WellFormed) (s : Sizes) (i : Nat)
    (hi : i < prodSizes s p.lhs.flatten) :
    rearrange p s i < prodSizes s p.rhs.flatten ∧ rearrange p.swap s (rearrange p s i) = i :=
  ⟨rearrange_lt p hp s i hi, rearrange_swap p hp s i hi⟩

/-- the number of elements of a tensor whose shape is one side of the pattern -/
theorem shape_total (s : Sizes) (side : List (List Axis)) :
    (shapeOf s side).foldr (· * ·) 1 = prodSizes s side.flatten := by
  induction side with
  | nil => rfl
  | cons g rest ih =>
    simp only [shapeOf, List.map_cons, List.foldr_cons, List.flatten_cons] at ih ⊢
    rw [ih]
    induction g with
    | nil => simp [prodSizes]
    | cons a g ihg => simp only [prodSizes, List.cons_append]; rw [← ihg]; ring

open KDVerif.Gen.Patterns in
/-- **unpatchify ∘ patchify = id** (`PatchifyImage` / `UnpatchifyImage`, pattern strings as they are in the code now):
    for all sizes of `c, lh, ph, lw, pw` — i.e. for every image whose height and width are multiples of the patch size —
    every element returns to its position. -/
theorem unpatchify_image_patchify_image_id (s : Sizes) (i : Nat) (hi : i < s "c" * ((s "lh" * s "ph") * (s "lw" * s "pw"))) :
    rearrange unpatchifyImage s (rearrange patchifyImage s i) = i := by
  rw [unpatchifyImage_is_swap]
  apply rearrange_swap _ patchifyImage_wf
  have := shape_total s patchifyImage.lhs
  rw [patchifyImage_lhs_shape] at this
  rw [← this]
  simp only [List.foldr_cons, List.foldr_nil]
  calc i < s "c" * ((s "lh" * s "ph") * (s "lw" * s "pw")) := hi
    _ = _ := by ring

open KDVerif.Gen.Patterns in
/-- the same for `Patchify` / `Unpatchify` and for the two rearrangements inside `PatchwiseTransform` -/
theorem unpatchify_patchify_id (s : Sizes) (i : Nat) (hi : i < prodSizes s patchify.lhs.flatten) :
    rearrange unpatchify s (rearrange patchify s i) = i ∧
      (∀ k, k < prodSizes s patchwiseFlatten.lhs.flatten →
        rearrange patchwiseUnflatten s (rearrange patchwiseFlatten s k) = k) := by
  constructor
  · rw [unpatchify_is_swap]; exact rearrange_swap _ patchify_wf s i hi
  · intro k hk; rw [patchwiseUnflatten_is_swap]; exact rearrange_swap _ patchwiseFlatten_wf s k hk

example : rearrange KDVerif.Gen.Patterns.patchifyImage
    (sizesOf [("c", 1), ("lh", 2), ("ph", 2), ("lw", 2), ("pw", 2)]) 2 = 4 := by decide

/-! ### patch shuffles -/

/-- **`gather (inverse π) ∘ gather π = id`** for every permutation `π` of the patch positions (`PatchwiseShuffle`
    records `π`; un-shuffling with `argsort π` restores the patch sequence — also between patchify and unpatchify). -/
theorem shuffle_then_unshuffle {α : Type} (xs : List α) (perm : List Nat) (hp : perm.Perm (List.range xs.length)) :
    ∃ ys, gather xs perm = some ys ∧ ys.length = xs.length ∧ gather ys (invPerm perm) = some xs := by
  have hlen : perm.length = xs.length := by simpa using hp.length_eq
  have hmem : ∀ k, k ∈ perm ↔ k < xs.length := fun k => by rw [hp.mem_iff]; simp
  obtain ⟨ys, hy, hyl, hyg⟩ := gather_spec xs perm (fun k hk => (hmem k).1 hk)
  refine ⟨ys, hy, by omega, ?_⟩
  have hinv : ∀ k ∈ invPerm perm, k < ys.length := by
    intro k hk
    simp only [invPerm, List.mem_map, List.mem_range] at hk
    obtain ⟨m, hm, rfl⟩ := hk
    rw [hyl]
    exact List.idxOf_lt_length_of_mem ((hmem m).2 (by omega))
  obtain ⟨zs, hz, hzl, hzg⟩ := gather_spec ys (invPerm perm) hinv
  rw [hz]
  congr 1
  apply List.ext_getElem?
  intro m
  have hil : (invPerm perm).length = xs.length := by simp [invPerm, hlen]
  by_cases hm : m < xs.length
  · have hm' : m < (invPerm perm).length := by omega
    rw [hzg m hm']
    have e1 : (invPerm perm)[m] = perm.idxOf m := by simp [invPerm]
    rw [e1]
    have hidx : perm.idxOf m < perm.length := List.idxOf_lt_length_of_mem ((hmem m).2 hm)
    rw [hyg _ hidx, List.getElem_idxOf hidx]
  · rw [List.getElem?_eq_none (by omega), List.getElem?_eq_none (by omega)]

example : gather ["a", "b", "c"] [2, 0, 1] = some ["c", "a", "b"] ∧ invPerm [2, 0, 1] = [1, 2, 0] ∧
    gather ["c", "a", "b"] [1, 2, 0] = some ["a", "b", "c"] := by decide

/-! ### normalise / denormalise -/

/-- **`denorm ∘ norm = id`** for every mean and every non-zero std (the code's two-step denormalisation) -/
theorem denorm_norm_id (m s x : Rat) (hs : s ≠ 0) : denormalize m s (normalize m s x) = x := by
  unfold denormalize normalize
  field_simp
  ring

/-- … and `norm ∘ denorm = id` -/
theorem norm_denorm_id (m s x : Rat) (hs : s ≠ 0) : normalize m s (denormalize m s x) = x := by
  unfold denormalize normalize
  field_simp
  ring

/-- per channel on whole images -/
theorem denorm_norm_channels_id (ms ss : List Rat) (img : List (List Rat)) (hs : ∀ s ∈ ss, s ≠ 0)
    (hl1 : ms.length = img.length) (hl2 : ss.length = img.length) :
    ∃ y, normChannels ms ss img = some y ∧ denormChannels ms ss y = some img := by
  induction img generalizing ms ss with
  | nil =>
    cases ms with
    | nil => cases ss with
      | nil => exact ⟨[], rfl, rfl⟩
      | cons _ _ => simp at hl2
    | cons _ _ => simp at hl1
  | cons ch chs ih =>
    cases ms with
    | nil => simp at hl1
    | cons m ms =>
      cases ss with
      | nil => simp at hl2
      | cons s ss =>
        obtain ⟨y, hy1, hy2⟩ := ih ms ss (fun x hx => hs x (by simp [hx])) (by simpa using hl1) (by simpa using hl2)
        refine ⟨ch.map (normalize m s) :: y, ?_, ?_⟩
        · simp only [normChannels, mapChannels] at hy1 ⊢
          rw [hy1]; rfl
        · simp only [denormChannels, mapChannels] at hy2 ⊢
          rw [hy2]
          simp only [Option.map_some, List.map_map]
          congr 2
          rw [List.map_congr_left (g := id)]
          · simp
          · intro x _
            exact denorm_norm_id m s x (hs s (by simp))

/-- `KDImageRangeNorm` -/
theorem range_denorm_norm_id (x : Rat) : rangeDenormalize (rangeNormalize x) = x := by
  unfold rangeDenormalize rangeNormalize normalize
  ring

/-! # additions: recorded parameters applied by hand, output sizes, inverses in both directions, both mask axes -/

/-! ## recorded parameters applied by hand (cell-wise), requested output size -/

/-- **KDRandomCrop — the recorded parameters reproduce the output, and the output has the requested size.**
    Clause: "return the requested output size … the parameters they record in the context reproduce their output exactly
    when applied to the input by hand". For every `h × w` input grid `g`, every configuration and every tape: applying the
    recorded pad calls (constant mode) and cropping the recorded box `ctx["random_crop"]` by hand gives a `th × tw` grid
    whose cell `(r, k)` is the padded input's cell `(i + r, j + k)`, which is (closed form `padCropCell`) the input's cell
    `(i + r - T, j + k - L)` or the fill value.
    Hypotheses from the domain: `0 < h` (an image has at least one row), `c.padding.nonneg` (the `padding` argument is a
    padding, not a negative crop). -/
theorem crop_recorded_params_reproduce_output {α : Type} (c : CropCfg) (h w : Nat) (t t' : Tape) (o : CropOut)
    (fill : α) (g : Grid α) (hr : randomCrop c (h : Int) (w : Int) t = .ok (o, t'))
    (hg : g.Shaped h w) (hh : 0 < h) (hp : c.padding.nonneg) :
    (applyPads fill o.pads g).Shaped o.H.toNat o.W.toNat ∧
    ((applyPads fill o.pads g).cropBox o.box).Shaped c.th.toNat c.tw.toNat ∧
    ∀ r k, r < c.th.toNat → k < c.tw.toNat →
      ((applyPads fill o.pads g).cropBox o.box).cell r k
          = (applyPads fill o.pads g).cell (o.box.i.toNat + r) (o.box.j.toNat + k) ∧
      ((applyPads fill o.pads g).cropBox o.box).cell r k = padCropCell fill g h w o.pads o.box r k ∧
      ∃ a, ((applyPads fill o.pads g).cropBox o.box).cell r k = some a := by
  obtain ⟨e1, e2, e3, hin, eh, ew⟩ := crop_in_bounds c h w t t' o hr
  have hn : padsNonneg o.pads := e1 ▸ c14x_padSeq_nonneg c h w hp
  rw [e2, e3] at hin
  have := c14x_pad_crop_spec fill g h w o.pads o.box hn hg hh hin
  rw [eh, ew, ← e2, ← e3] at this
  exact this

/-- 2×3 input, padding 1 on every side, 2×2 crop at the drawn offset (0, 3): the by-hand result, cell by cell -/
example : (match randomCrop ⟨2, 2, .all 1, false⟩ 2 3 [.ints 0 3 0, .ints 0 4 3] with
    | .ok (o, _) => decide (((applyPads (0 : Int) o.pads [[1, 2, 3], [4, 5, 6]]).cropBox o.box) = [[0, 0], [3, 0]] ∧
        padCropCell (0 : Int) [[1, 2, 3], [4, 5, 6]] 2 3 o.pads o.box 1 0 = some 3)
    | .error _ => false) = true := by decide +kernel

/-- without any pad call the output cell `(r, k)` is simply the input cell `(i + r, j + k)` -/
theorem crop_unpadded_cells {α : Type} (c : CropCfg) (h w : Nat) (t t' : Tape) (o : CropOut) (g : Grid α)
    (hr : randomCrop c (h : Int) (w : Int) t = .ok (o, t')) (hg : g.Shaped h w)
    (hp : c.padding = .none) (hpin : c.padIfNeeded = false) :
    o.pads = [] ∧ (g.cropBox o.box).Shaped c.th.toNat c.tw.toNat ∧
    ∀ r k, r < c.th.toNat → k < c.tw.toNat → (g.cropBox o.box).cell r k = g.cell (o.box.i.toNat + r) (o.box.j.toNat + k) := by
  obtain ⟨e1, e2, e3, hin, eh, ew⟩ := crop_in_bounds c h w t t' o hr
  have e0 : o.pads = [] := by rw [e1]; simp [padSeq, hp, hpin, Padding.toPads]
  rw [e2, e3, e0] at hin
  have hin' : o.box.inside (h : Int) (w : Int) := by simpa [padH, padW] using hin
  have hs := c14x_cropBox_shaped g h w o.box hg hin'
  rw [eh, ew] at hs
  refine ⟨e0, hs, fun r k hr' hk' => c14x_cell_cropBox g o.box r k (by rw [eh]; exact hr') (by rw [ew]; exact hk')⟩

example : (match randomCrop ⟨2, 2, .none, false⟩ 3 3 [.ints 0 2 1, .ints 0 2 0] with
    | .ok (o, _) => decide (Grid.cropBox ([[1, 2, 3], [4, 5, 6], [7, 8, 9]] : Grid Int) o.box = [[4, 5], [7, 8]])
    | .error _ => false) = true := by decide +kernel

/-- **`KDRandomCrop._pad_image` by hand — shape and every cell of the padded image.** Clause: "pad … stay inside the
    input's bounds and return the requested output size". For every `h × w` input and every configuration with a
    non-negative `padding`: the pad calls applied by hand (constant mode) give an image of the size the model reports,
    at least `th × tw` when `pad_if_needed` is set, and cell `(x, y)` of it is the input cell `(x - T, y - L)` when that
    falls on the input and the fill value otherwise (`paddedCell`; `T`, `L` = rows / columns added above / left).
    Hypotheses from the domain: `0 < h`, `c.padding.nonneg`. -/
theorem pad_image_shape_and_cells {α : Type} (c : CropCfg) (h w : Nat) (fill : α) (g : Grid α)
    (hg : g.Shaped h w) (hh : 0 < h) (hp : c.padding.nonneg) :
    (applyPads fill (padSeq c h w) g).Shaped (padH h (padSeq c h w)).toNat (padW w (padSeq c h w)).toNat ∧
    (c.padIfNeeded = true → c.th.toNat ≤ (padH h (padSeq c h w)).toNat ∧ c.tw.toNat ≤ (padW w (padSeq c h w)).toNat) ∧
    (h : Int) ≤ padH h (padSeq c h w) ∧ (w : Int) ≤ padW w (padSeq c h w) ∧
    ∀ x y, (applyPads fill (padSeq c h w) g).cell x y =
      paddedCell fill g h w (padTop (padSeq c h w)) (padLeft (padSeq c h w))
        (padH h (padSeq c h w)).toNat (padW w (padSeq c h w)).toNat x y := by
  obtain ⟨s1, _, s3⟩ := c14x_applyPads_spec fill (padSeq c h w) g h w (c14x_padSeq_nonneg c h w hp) hg hh
  have g1 := padding_grows c.padding hp h w
  refine ⟨s1, ?_, ?_, ?_, s3⟩
  · intro hpin
    have := pad_reaches_size c h w hpin
    omega
  · rw [padH_padSeq]; split_ifs <;> omega
  · rw [padW_padSeq]; split_ifs <;> omega

/-- 1×2 input, target 3×3 with `pad_if_needed`: one column left and right, two rows above and below -/
example : applyPads (0 : Int) (padSeq ⟨3, 3, .none, true⟩ 1 2) [[7, 8]]
    = [[0, 0, 0, 0], [0, 0, 0, 0], [0, 7, 8, 0], [0, 0, 0, 0], [0, 0, 0, 0]] := by decide +kernel

/-- **KDSimpleRandomCrop = `Resize` then `KDRandomCrop` — requested output size.** Whatever the interpolation kernel and
    whatever size `h' × w'` the `Resize` produces (handed in, `0 < h'`), the result of the crop of the resized image,
    reproduced by hand from the recorded parameters, is `th × tw`, and its cells are those of the padded resized image
    at the recorded offsets. (Shape and offsets do not depend on the padding mode; the closed form of the border values
    in `crop_recorded_params_reproduce_output` is for constant mode, this transform's default mode is `reflect`.) -/
theorem simple_random_crop_output_size {α β : Type} (c : CropCfg) (h' w' : Nat) (t t' : Tape) (o : CropOut)
    (kern : Grid α → Nat → Nat → β) (fill : β) (g : Grid α)
    (hr : randomCrop c (h' : Int) (w' : Int) t = .ok (o, t')) (hh : 0 < h') (hp : c.padding.nonneg) :
    ((applyPads fill o.pads (resizeWith kern h' w' g)).cropBox o.box).Shaped c.th.toNat c.tw.toNat ∧
    ∀ r k, r < c.th.toNat → k < c.tw.toNat →
      ((applyPads fill o.pads (resizeWith kern h' w' g)).cropBox o.box).cell r k
        = (applyPads fill o.pads (resizeWith kern h' w' g)).cell (o.box.i.toNat + r) (o.box.j.toNat + k) := by
  have := crop_recorded_params_reproduce_output c h' w' t t' o fill (resizeWith kern h' w' g) hr
    (c14x_resizeWith_shaped kern h' w' g) hh hp
  exact ⟨this.2.1, fun r k hr' hk' => (this.2.2 r k hr' hk').1⟩

/-- **KDTwoRandomCrop — both recorded boxes reproduce both outputs, each of the requested size.** Same clause as
    `crop_recorded_params_reproduce_output`, for the two views: both are crops of the *same* padded image at the two
    boxes recorded in `ctx["two_random_crop"]`. Hypotheses as there. -/
theorem two_crop_recorded_params_reproduce_outputs {α : Type} (c : CropCfg) (omin omax : Rat) (tries : Option Nat)
    (fuel : Nat) (h w : Nat) (t t' : Tape) (o : TwoCropOut) (fill : α) (g : Grid α)
    (hr : twoCrop c omin omax tries fuel (h : Int) (w : Int) t = .ok (o, t'))
    (hg : g.Shaped h w) (hh : 0 < h) (hp : c.padding.nonneg) :
    (applyPads fill o.pads g).Shaped o.H.toNat o.W.toNat ∧
    (∀ b, b = o.b0 ∨ b = o.res.b1 →
      ((applyPads fill o.pads g).cropBox b).Shaped c.th.toNat c.tw.toNat ∧
      ∀ r k, r < c.th.toNat → k < c.tw.toNat →
        ((applyPads fill o.pads g).cropBox b).cell r k = (applyPads fill o.pads g).cell (b.i.toNat + r) (b.j.toNat + k) ∧
        ((applyPads fill o.pads g).cropBox b).cell r k = padCropCell fill g h w o.pads b r k ∧
        ∃ a, ((applyPads fill o.pads g).cropBox b).cell r k = some a) := by
  obtain ⟨e1, e2, e3, hin0, eh0, ew0, hin1, eh1, ew1, -⟩ := two_crop_in_bounds c omin omax tries fuel h w t t' o hr
  have hn : padsNonneg o.pads := e1 ▸ c14x_padSeq_nonneg c h w hp
  rw [e2, e3] at hin0 hin1
  have k0 := c14x_pad_crop_spec fill g h w o.pads o.b0 hn hg hh hin0
  have k1 := c14x_pad_crop_spec fill g h w o.pads o.res.b1 hn hg hh hin1
  rw [eh0, ew0, ← e2, ← e3] at k0
  rw [eh1, ew1, ← e2, ← e3] at k1
  refine ⟨k0.1, ?_⟩
  rintro b (rfl | rfl)
  · exact k0.2
  · exact k1.2

example : (match twoCrop ⟨2, 2, .none, false⟩ 0 1 (some 3) 10 3 3
      [.ints 0 2 0, .ints 0 2 0, .ints 0 2 1, .ints 0 2 1] with
    | .ok (o, _) => decide (Grid.cropBox ([[1, 2, 3], [4, 5, 6], [7, 8, 9]] : Grid Int) o.b0 = [[1, 2], [4, 5]] ∧
        Grid.cropBox ([[1, 2, 3], [4, 5, 6], [7, 8, 9]] : Grid Int) o.res.b1 = [[5, 6], [8, 9]])
    | .error _ => false) = true := by decide +kernel

/-- **KDRandomResizedCrop — the recorded box reproduces the crop before the resize; after the resize the size is the
    requested one.** For every `H × W` input grid, all proposals and every tape, in the accept branch and in the
    fallback branch: cropping the box recorded in `ctx["random_resized_crop"]` by hand gives a `box.h × box.w` grid whose
    cell `(r, k)` is the input's cell `(i + r, j + k)`; whatever the interpolation kernel, the resized result is
    `th × tw`. Hypotheses (needed in the fallback branch only, and stated only for it): positive image size and ratio
    bounds, order-faithful float front end — exactly those of `rrc_fallback_in_bounds`. -/
theorem rrc_recorded_box_reproduces_crop {α β : Type} (W H : Nat) (r0 r1 : Rat) (props ps : List (Int × Int))
    (fe : RrcFront) (t t' : Tape) (o : RrcOut) (g : Grid α) (kern : Grid α → Nat → Nat → β) (th tw : Nat)
    (hr : rrc (W : Int) (H : Int) r0 r1 props fe t = .ok (o, ps, t')) (hg : g.Shaped H W)
    (hfb : o.fallback = true → 0 < W ∧ 0 < H ∧ 0 < r0 ∧ 0 < r1 ∧ FrontOk (W : Int) (H : Int) r0 r1 fe) :
    (g.cropBox o.box).Shaped o.box.h.toNat o.box.w.toNat ∧
    (∀ r k, r < o.box.h.toNat → k < o.box.w.toNat →
      (g.cropBox o.box).cell r k = g.cell (o.box.i.toNat + r) (o.box.j.toNat + k) ∧
      ∃ a, (g.cropBox o.box).cell r k = some a) ∧
    (resizeWith kern th tw (g.cropBox o.box)).Shaped th tw := by
  have hin : o.box.inside (H : Int) (W : Int) := by
    cases hf : o.fallback with
    | false => exact (rrc_accept_in_bounds W H r0 r1 props ps fe t t' o hr hf).1
    | true =>
      obtain ⟨a1, a2, a3, a4, a5⟩ := hfb hf
      have hbox : o.box = rrcFallback W H r0 r1 fe := by
        unfold rrc at hr
        cases hl : rrcLoop (W : Int) (H : Int) 10 props t with
        | error e => simp [hl] at hr
        | ok x =>
          obtain ⟨ob, ps1, t1⟩ := x
          cases ob with
          | none =>
            simp only [hl, Except.ok.injEq, Prod.mk.injEq] at hr
            obtain ⟨rfl, _⟩ := hr
            rfl
          | some b =>
            simp only [hl, Except.ok.injEq, Prod.mk.injEq] at hr
            obtain ⟨rfl, _⟩ := hr
            simp at hf
      rw [hbox]
      exact (rrc_fallback_in_bounds W H r0 r1 fe (by exact_mod_cast a1) (by exact_mod_cast a2) a3 a4 a5).1
  have hs := c14x_cropBox_shaped g H W o.box hg hin
  exact ⟨hs, fun r k hr' hk' => ⟨c14x_cell_cropBox g o.box r k hr' hk', c14x_cell_some_of_shaped _ _ _ r k hs hr' hk'⟩,
    c14x_resizeWith_shaped kern th tw _⟩

example : (match rrc 3 3 (3 / 4) (4 / 3) [(2, 2)] ⟨1, 0, 0⟩ [.unif 0, .unif 0, .ints 0 2 1, .ints 0 2 0] with
    | .ok (o, _, _) => decide (Grid.cropBox ([[1, 2, 3], [4, 5, 6], [7, 8, 9]] : Grid Int) o.box = [[4, 5], [7, 8]]) && !o.fallback
    | .error _ => false) = true := by decide +kernel

/-- **KDSemsegRandomCrop — one box, applied by hand to image and mask, gives both outputs; identical geometry; size
    `min(H, th) × min(W, tw)`.** Clauses: "return the requested output size", "recorded parameters reproduce the output",
    "paired image/segmentation transforms apply identical geometry to both members". For every `H × W` image `x` and
    mask `s` (cell types may differ), with or without category-ratio retries, every tape: both crops have the size
    `min(H, th) × min(W, tw)`, and cell `(r, k)` of the image crop / mask crop is cell `(i + r, j + k)` of the image /
    mask — the same source position for both members. No hypothesis beyond the shapes. -/
theorem semseg_crop_reproduces_both_members {α β : Type} (H W : Nat) (th tw : Int) (retry : Bool) (oks oks' : List Bool)
    (t t' : Tape) (b : Box) (x : Grid α) (s : Grid β)
    (hr : semsegCrop (H : Int) (W : Int) th tw retry oks t = .ok (b, oks', t'))
    (hx : x.Shaped H W) (hs : s.Shaped H W) :
    (x.cropBox b).Shaped (imin H th).toNat (imin W tw).toNat ∧
    (s.cropBox b).Shaped (imin H th).toNat (imin W tw).toNat ∧
    ∀ r k, r < (imin H th).toNat → k < (imin W tw).toNat →
      (x.cropBox b).cell r k = x.cell (b.i.toNat + r) (b.j.toNat + k) ∧
      (s.cropBox b).cell r k = s.cell (b.i.toNat + r) (b.j.toNat + k) ∧
      (∃ a, (x.cropBox b).cell r k = some a) ∧ (∃ a, (s.cropBox b).cell r k = some a) := by
  obtain ⟨hin, eh, ew⟩ := semseg_crop_in_bounds H W th tw retry oks oks' t t' b hr
  have sx := c14x_cropBox_shaped x H W b hx hin
  have ss := c14x_cropBox_shaped s H W b hs hin
  rw [eh, ew] at sx ss
  refine ⟨sx, ss, ?_⟩
  intro r k hr' hk'
  exact ⟨c14x_cell_cropBox x b r k (by rw [eh]; exact hr') (by rw [ew]; exact hk'),
    c14x_cell_cropBox s b r k (by rw [eh]; exact hr') (by rw [ew]; exact hk'),
    c14x_cell_some_of_shaped _ _ _ r k sx hr' hk', c14x_cell_some_of_shaped _ _ _ r k ss hr' hk'⟩

/-- 2×4 pair, 3×2 target (height is clipped to 2): the drawn box `(0, 1, 2, 2)` cuts the same window out of both -/
example : (match semsegCrop 2 4 3 2 false [] [.ints 0 1 0, .ints 0 3 1] with
    | .ok (b, _, _) => decide (Grid.cropBox ([[1, 2, 3, 4], [5, 6, 7, 8]] : Grid Int) b = [[2, 3], [6, 7]] ∧
        Grid.cropBox ([["a", "b", "c", "d"], ["e", "f", "g", "h"]] : Grid String) b = [["b", "c"], ["f", "g"]])
    | .error _ => false) = true := by decide +kernel

/-- **KDSemsegPad — size `max(H, th) × max(W, tw)` for both members, same geometry, cells in closed form.** Clauses:
    "pad … return the requested output size", "identical geometry to both members". The one padding tuple, applied by
    hand with fill `fx` to the image and fill `fs` to the mask (`0` and `-1` in the code): both results are
    `max(H, th) × max(W, tw)`; cell `(r, k)` of either is the member's own cell `(r - top, k - left)` when
    `top ≤ r < top + H` and `left ≤ k < left + W` and the fill value elsewhere (`paddedCell`, same `top`/`left` for both).
    Hypothesis from the domain: `0 < H`. -/
theorem semseg_pad_reproduces_both_members {α β : Type} (H W : Nat) (th tw : Int) (x : Grid α) (s : Grid β) (fx : α) (fs : β)
    (hx : x.Shaped H W) (hs : s.Shaped H W) (hH : 0 < H) :
    (x.padWith (semsegPad H W th tw) fx).Shaped (imax H th).toNat (imax W tw).toNat ∧
    (s.padWith (semsegPad H W th tw) fs).Shaped (imax H th).toNat (imax W tw).toNat ∧
    ∀ r k,
      (x.padWith (semsegPad H W th tw) fx).cell r k =
        paddedCell fx x H W (semsegPad H W th tw).t.toNat (semsegPad H W th tw).l.toNat
          (imax H th).toNat (imax W tw).toNat r k ∧
      (s.padWith (semsegPad H W th tw) fs).cell r k =
        paddedCell fs s H W (semsegPad H W th tw).t.toNat (semsegPad H W th tw).l.toNat
          (imax H th).toNat (imax W tw).toNat r k := by
  have hp := semseg_pad_reaches_size (H : Int) (W : Int) th tw
  simp only at hp
  obtain ⟨p1, p2, p3, p4, p5, p6, p7, p8⟩ := hp
  generalize semsegPad (H : Int) (W : Int) th tw = p at *
  have eH : H + p.t.toNat + p.b.toNat = (imax H th).toNat := by omega
  have eW : W + p.l.toNat + p.r.toNat = (imax W tw).toNat := by omega
  have sx := Grid.pad_shaped x H W p.l.toNat p.t.toNat p.r.toNat p.b.toNat fx hx hH
  have ss := Grid.pad_shaped s H W p.l.toNat p.t.toNat p.r.toNat p.b.toNat fs hs hH
  rw [eH, eW] at sx ss
  refine ⟨sx, ss, ?_⟩
  intro r k
  have cx := c14x_cell_pad x H W p.l.toNat p.t.toNat p.r.toNat p.b.toNat fx hx hH r k
  have cs := c14x_cell_pad s H W p.l.toNat p.t.toNat p.r.toNat p.b.toNat fs hs hH r k
  rw [eH, eW] at cx cs
  exact ⟨cx, cs⟩

example : Grid.padWith ([[1, 2]] : Grid Int) (semsegPad 1 2 2 5) 0 = [[0, 1, 2, 0, 0], [0, 0, 0, 0, 0]] ∧
    Grid.padWith ([[7, 8]] : Grid Int) (semsegPad 1 2 2 5) (-1) = [[-1, 7, 8, -1, -1], [-1, -1, -1, -1, -1]] := by
  decide +kernel

/-- **KDSemsegOverlappedMultiCrop — every crop of the grid, applied by hand, is `ch × cw` and a window of the input.**
    Clause: "crop … stay inside the input's bounds and return the requested output size". -/
theorem multi_crop_reproduces_windows {α : Type} (H W : Nat) (ch cw : Int) (bs : List Box) (g : Grid α)
    (hH : 0 < H) (hW : 0 < W) (hr : multiCropGrid (H : Int) (W : Int) ch cw = .ok bs) (hg : g.Shaped H W) :
    ∀ b ∈ bs, (g.cropBox b).Shaped ch.toNat cw.toNat ∧
      ∀ r k, r < ch.toNat → k < cw.toNat → (g.cropBox b).cell r k = g.cell (b.i.toNat + r) (b.j.toNat + k) := by
  intro b hb
  obtain ⟨hin, eh, ew⟩ := (multi_crop_in_bounds H W ch cw bs (by exact_mod_cast hH) (by exact_mod_cast hW) hr).1 b hb
  have sx := c14x_cropBox_shaped g H W b hg hin
  rw [eh, ew] at sx
  exact ⟨sx, fun r k hr' hk' => c14x_cell_cropBox g b r k (by rw [eh]; exact hr') (by rw [ew]; exact hk')⟩

/-- **KDRandomErasing — erasing the recorded boxes by hand changes exactly the cells inside the boxes.** Clause: "erase …
    stay inside the input's bounds … the parameters they record reproduce the output". For every `H × W` grid (one
    channel), every proposal list and tape, and any replacement value per box (`bvs` pairs the recorded boxes, in order,
    with the value written into them — `zeros`: all 0; `channelwise`: the channel's draw for that box): the result keeps
    the shape, and **every** cell `(r, k)` is given by `eraseSpecCell`: the value of the last box containing `(r, k)`, or
    the input's own cell if no box contains it. In particular (second part) a cell outside all recorded boxes is
    untouched, and (third part) every cell a recorded box claims exists in the image. -/
theorem erase_changes_exactly_the_recorded_boxes {α : Type} (c : EraseCfg) (H W : Nat) (props ps : List (Int × Int))
    (t t' : Tape) (o : EraseOut) (g : Grid α) (bvs : List (Box × α))
    (hr : erasing c (H : Int) (W : Int) props t = .ok (o, ps, t')) (hg : g.Shaped H W)
    (hb : bvs.map Prod.fst = o.boxes) :
    (erasePaste g bvs).Shaped H W ∧
    (∀ r k, (erasePaste g bvs).cell r k = eraseSpecCell g bvs r k) ∧
    (∀ r k, (∀ b ∈ o.boxes, ¬ b.contains r k) → (erasePaste g bvs).cell r k = g.cell r k) ∧
    (∀ b ∈ o.boxes, ∀ r k, b.contains r k → r < H ∧ k < W) := by
  have hin := (erase_boxes_in_bounds c H W props ps t t' o hr).2
  have hin' : ∀ bv ∈ bvs, bv.1.inside (H : Int) (W : Int) := by
    intro bv hbv
    exact (hin bv.1 (by rw [← hb]; exact List.mem_map_of_mem hbv)).1
  obtain ⟨s1, s2⟩ := c14x_erasePaste_spec H W bvs g hg hin'
  refine ⟨s1, s2, ?_, ?_⟩
  · intro r k hno
    rw [s2]
    unfold eraseSpecCell
    have : bvs.reverse.find? (fun bv => decide (bv.1.contains r k)) = none := by
      rw [List.find?_eq_none]
      intro bv hbv
      have hm : bv.1 ∈ o.boxes := by rw [← hb]; exact List.mem_map_of_mem (List.mem_reverse.1 hbv)
      simpa using hno bv.1 hm
    rw [this]
  · intro b hb' r k hc
    exact c14x_contains_in_range b H W r k (hin b hb').1 hc

/-- … and in `zeros` mode (one replacement value `v` for all boxes): a cell is `v` iff some recorded box contains it -/
theorem erase_zeros_cellwise {α : Type} (c : EraseCfg) (H W : Nat) (props ps : List (Int × Int))
    (t t' : Tape) (o : EraseOut) (g : Grid α) (v : α)
    (hr : erasing c (H : Int) (W : Int) props t = .ok (o, ps, t')) (hg : g.Shaped H W) :
    (o.boxes.foldl (fun g b => g.pasteBox b v) g).Shaped H W ∧
    ∀ r k, (o.boxes.foldl (fun g b => g.pasteBox b v) g).cell r k =
      if ∃ b ∈ o.boxes, b.contains r k then some v else g.cell r k := by
  have := erase_changes_exactly_the_recorded_boxes c H W props ps t t' o g (o.boxes.map (fun b => (b, v))) hr hg
    (by simp [Function.comp_def])
  rw [c14x_erasePaste_const]
  refine ⟨this.1, fun r k => ?_⟩
  rw [this.2.1, c14x_eraseSpecCell_const]

/-- 3×4 image, one 2×2 box drawn at (1, 1) -/
example : (match erasing ⟨1, 1, 1, false⟩ 3 4 [(2, 2)] [.rand (1 / 2), .unif 0, .unif 0, .ints 0 2 1, .ints 0 3 1] with
    | .ok (o, _, _) => decide (o.boxes.foldl (fun g b => Grid.pasteBox g b 0) ([[1, 2, 3, 4], [5, 6, 7, 8], [9, 10, 11, 12]] : Grid Int)
        = [[1, 2, 3, 4], [5, 0, 0, 8], [9, 0, 0, 12]])
    | .error _ => false) = true := by decide +kernel

/-! ## inverses in the other direction -/

/-- **`rearrange p ∘ rearrange (swap p) = id`** — the other direction of `rearrange_swap_inverse`: for every well-formed
    pattern, all axis sizes and every element position `j` of the *output* layout. Together the two say that `rearrange p`
    is a bijection between the positions of the two layouts (which have the same number of elements) with inverse
    `rearrange p.swap`. Clause: "patchify/unpatchify … are mutual inverses". -/
theorem rearrange_swap_inverse_right (p : Pattern) (hp : p.WellFormed) (s : Sizes) (j : Nat)
    (hj : j < prodSizes s p.rhs.flatten) :
    rearrange p.swap s j < prodSizes s p.lhs.flatten ∧ rearrange p s (rearrange p.swap s j) = j ∧
      prodSizes s p.lhs.flatten = prodSizes s p.rhs.flatten :=
  ⟨rearrange_lt p.swap hp.swap s j hj, rearrange_swap p.swap hp.swap s j hj, c14x_prodSizes_sides p hp s⟩

open KDVerif.Gen.Patterns in
/-- **patchify ∘ unpatchify = id** (`PatchifyImage` after `UnpatchifyImage`, pattern strings as in the code): for all sizes
    of `c, lh, lw, ph, pw` every element position of the patch layout `c (lh lw) ph pw` returns to itself. With
    `unpatchify_image_patchify_image_id` the two transforms are mutual inverses. -/
theorem patchify_image_unpatchify_image_id (s : Sizes) (j : Nat)
    (hj : j < s "c" * ((s "lh" * s "lw") * (s "ph" * s "pw"))) :
    rearrange patchifyImage s (rearrange unpatchifyImage s j) = j := by
  rw [unpatchifyImage_is_swap]
  apply (rearrange_swap_inverse_right _ patchifyImage_wf s j _).2.1
  have := shape_total s patchifyImage.rhs
  rw [patchifyImage_rhs_shape] at this
  rw [← this]
  simp only [List.foldr_cons, List.foldr_nil]
  calc j < s "c" * ((s "lh" * s "lw") * (s "ph" * s "pw")) := hj
    _ = _ := by ring

open KDVerif.Gen.Patterns in
/-- the same for `Patchify` after `Unpatchify` and for the two rearrangements inside `PatchwiseTransform` -/
theorem patchify_unpatchify_id (s : Sizes) (j : Nat) (hj : j < prodSizes s patchify.rhs.flatten) :
    rearrange patchify s (rearrange unpatchify s j) = j ∧
      (∀ k, k < prodSizes s patchwiseFlatten.rhs.flatten →
        rearrange patchwiseFlatten s (rearrange patchwiseUnflatten s k) = k) := by
  constructor
  · rw [unpatchify_is_swap]; exact (rearrange_swap_inverse_right _ patchify_wf s j hj).2.1
  · intro k hk; rw [patchwiseUnflatten_is_swap]; exact (rearrange_swap_inverse_right _ patchwiseFlatten_wf s k hk).2.1

example : rearrange KDVerif.Gen.Patterns.unpatchifyImage
    (sizesOf [("c", 1), ("lh", 2), ("ph", 2), ("lw", 2), ("pw", 2)]) 4 = 2 ∧
  rearrange KDVerif.Gen.Patterns.patchifyImage
    (sizesOf [("c", 1), ("lh", 2), ("ph", 2), ("lw", 2), ("pw", 2)]) 2 = 4 := by decide

/-- **`gather π ∘ gather (inverse π) = id`** — un-shuffling with `argsort π` and shuffling again with the recorded `π`
    restores the sequence (the other direction of `shuffle_then_unshuffle`), for every permutation `π` of the patch
    positions. -/
theorem unshuffle_then_shuffle {α : Type} (ys : List α) (perm : List Nat) (hp : perm.Perm (List.range ys.length)) :
    ∃ xs, gather ys (invPerm perm) = some xs ∧ xs.length = ys.length ∧ gather xs perm = some ys := by
  have hlen : perm.length = ys.length := by simpa using hp.length_eq
  have hnd : perm.Nodup := hp.nodup_iff.2 List.nodup_range
  have hmem : ∀ k, k ∈ perm ↔ k < ys.length := fun k => by rw [hp.mem_iff]; simp
  have hil : (invPerm perm).length = ys.length := by simp [invPerm, hlen]
  have hinv : ∀ k ∈ invPerm perm, k < ys.length := by
    intro k hk
    simp only [invPerm, List.mem_map, List.mem_range] at hk
    obtain ⟨m, hm, rfl⟩ := hk
    rw [← hlen]
    exact List.idxOf_lt_length_of_mem ((hmem m).2 (by omega))
  obtain ⟨xs, hx, hxl, hxg⟩ := gather_spec ys (invPerm perm) hinv
  refine ⟨xs, hx, by omega, ?_⟩
  obtain ⟨zs, hz, hzl, hzg⟩ := gather_spec xs perm (fun k hk => by rw [hxl, hil]; exact (hmem k).1 hk)
  rw [hz]
  congr 1
  apply List.ext_getElem?
  intro m
  by_cases hm : m < ys.length
  · have hm' : m < perm.length := by omega
    rw [hzg m hm']
    have hpm : perm[m] < (invPerm perm).length := by rw [hil]; exact (hmem _).1 (List.getElem_mem hm')
    rw [hxg _ hpm]
    have e1 : (invPerm perm)[perm[m]] = perm.idxOf perm[m] := by simp [invPerm]
    rw [e1, hnd.idxOf_getElem]
  · rw [List.getElem?_eq_none (by omega), List.getElem?_eq_none (by omega)]

example : gather ["c", "a", "b"] (invPerm [2, 0, 1]) = some ["a", "b", "c"] ∧
    gather ["a", "b", "c"] [2, 0, 1] = some ["c", "a", "b"] := by decide

/-- **what `x[:, π]` does to positions** (justifies `shufflePos`): after `gather xs π` the element that was at position
    `l` sits at position `π.idxOf l` -/
theorem gather_lands_at {α : Type} (xs ys : List α) (perm : List Nat) (hp : perm.Perm (List.range xs.length))
    (hg : gather xs perm = some ys) (l : Nat) (hl : l < xs.length) : ys[perm.idxOf l]? = xs[l]? := by
  have hmem : ∀ k, k ∈ perm ↔ k < xs.length := fun k => by rw [hp.mem_iff]; simp
  obtain ⟨zs, hz, _, hzg⟩ := gather_spec xs perm (fun k hk => (hmem k).1 hk)
  rw [hg] at hz
  obtain rfl := Option.some.inj hz
  have hidx : perm.idxOf l < perm.length := List.idxOf_lt_length_of_mem ((hmem l).2 hl)
  rw [hzg _ hidx, List.getElem_idxOf hidx]

open KDVerif.Gen.Patterns in
/-- **unpatchify ∘ un-shuffle ∘ shuffle ∘ patchify = id** — "patchify/unpatchify (also around patch shuffles, using the
    recorded permutation) … are mutual inverses", on element positions: for all sizes of `c, lh, ph, lw, pw`, every
    permutation `π` of the `lh·lw` patch positions (what `PatchwiseShuffle` records in `ctx["permutation"]`) and every
    element position `i` of the image: patchify, move the patches by `x[:, π]`, move them back by `x[:, argsort π]`,
    unpatchify — the element is back at `i`. -/
theorem unpatchify_unshuffle_shuffle_patchify_id (s : Sizes) (perm : List Nat)
    (hp : perm.Perm (List.range (s "lh" * s "lw"))) (i : Nat)
    (hi : i < s "c" * ((s "lh" * s "ph") * (s "lw" * s "pw"))) :
    rearrange unpatchifyImage s
      (shufflePos (invPerm perm) (s "lh" * s "lw") (s "ph" * s "pw")
        (shufflePos perm (s "lh" * s "lw") (s "ph" * s "pw") (rearrange patchifyImage s i))) = i := by
  have hi' : i < prodSizes s patchifyImage.lhs.flatten := by
    have : prodSizes s patchifyImage.lhs.flatten = s "c" * ((s "lh" * s "ph") * (s "lw" * s "pw")) := by
      show s "c" * (s "lh" * (s "ph" * (s "lw" * (s "pw" * 1)))) = _
      ring
    omega
  have hq := rearrange_lt patchifyImage patchifyImage_wf s i hi'
  have hq' : rearrange patchifyImage s i < s "c" * ((s "lh" * s "lw") * (s "ph" * s "pw")) := by
    have : prodSizes s patchifyImage.rhs.flatten = s "c" * ((s "lh" * s "lw") * (s "ph" * s "pw")) := by
      show s "c" * (s "lh" * (s "lw" * (s "ph" * (s "pw" * 1)))) = _
      ring
    omega
  rw [(c14x_shufflePos_roundtrip perm _ _ _ _ hp hq').2]
  exact unpatchify_image_patchify_image_id s i hi

/-- 1 channel, 2×2 patches of 1×2 pixels, `π = [2, 0, 3, 1]`: the pixel at position 5 (patch 2, offset 1) goes to
    patch position `π.idxOf 2 = 0`, offset 1, and comes back -/
example : shufflePos [2, 0, 3, 1] 4 2 5 = 1 ∧ shufflePos (invPerm [2, 0, 3, 1]) 4 2 1 = 5 := by decide

/-- **channel-wise `norm ∘ denorm = id`** on whole images (the other direction of `denorm_norm_channels_id`): for every
    mean list and every std list without zeros (torchvision raises on a zero std) of the image's channel count. -/
theorem norm_denorm_channels_id (ms ss : List Rat) (img : List (List Rat)) (hs : ∀ s ∈ ss, s ≠ 0)
    (hl1 : ms.length = img.length) (hl2 : ss.length = img.length) :
    ∃ y, denormChannels ms ss img = some y ∧ normChannels ms ss y = some img :=
  c14x_mapChannels_roundtrip denormalize normalize (· ≠ 0) (fun m s x h => norm_denorm_id m s x h) ms ss img hs hl1 hl2

example : denormChannels [1, 2] [2, 4] [[0, 1], [3]] = some [[1, 3], [14]] ∧
    normChannels [1, 2] [2, 4] [[1, 3], [14]] = some [[0, 1], [3]] := by decide +kernel

/-- `KDImageRangeNorm`: `norm ∘ denorm = id` -/
theorem range_norm_denorm_id (x : Rat) : rangeNormalize (rangeDenormalize x) = x := by
  unfold rangeDenormalize rangeNormalize normalize
  ring

/-! ## KDSpecAugment: both axes -/

/-- **KDSpecAugment, both axes — the mask stays inside the input and is shorter than the parameter.** Clause: "masking
    transforms stay inside the input's bounds … for every input size and seed". For the whole `__call__` (time masking on
    the axis of length `nT`, then frequency masking on the axis of length `nF`), every pair of parameters, every tape and
    every pair of front-end integers: each mask that is applied belongs to a configured parameter `P ≥ 1`, its interval
    `[start, stop)` has length `value.long() < P`, the masked positions are exactly the positions of the axis inside the
    interval (hence all inside the input, fewer than `P`), and whenever the front end's integers describe an interval of
    the axis (`0 ≤ min_value.long()`, `0 ≤ value.long()`, sum `≤ size`) the interval itself lies inside `[0, size]` and
    is masked completely (`SpecAxisOk`). -/
theorem spec_augment_both_axes_in_bounds (nT nF : Nat) (tm fm : Option Int) (feT feF : Int × Int) (t t' : Tape)
    (mT mF : Option SpecMask) (h : specAugment nT nF tm fm feT feF t = .ok (mT, mF, t')) :
    (∀ m, mT = some m → ∃ P, tm = some P ∧ 1 ≤ P ∧ SpecAxisOk nT P feT m) ∧
    (∀ m, mF = some m → ∃ P, fm = some P ∧ 1 ≤ P ∧ SpecAxisOk nF P feF m) := by
  have key : ∀ (size : Nat) (p : Option Int) (fe : Int × Int) (ta tb : Tape) (mo : Option SpecMask),
      (match p with
        | none => (Except.ok (none, ta) : Except Err (Option SpecMask × Tape))
        | some q => specAxis size q fe ta) = .ok (mo, tb) →
      ∀ m, mo = some m → ∃ P, p = some P ∧ 1 ≤ P ∧ SpecAxisOk size P fe m := by
    intro size p fe ta tb mo hrun m hm
    subst hm
    cases p with
    | none => simp at hrun
    | some P =>
      have := c14x_specAxis_ok size P fe ta tb m hrun
      exact ⟨P, rfl, this.2, this.1⟩
  unfold specAugment at h
  simp only at h
  split at h
  · simp at h
  · rename_i m1 t1 h1
    split at h
    · simp at h
    · rename_i m2 t2 h2
      simp only [Except.ok.injEq, Prod.mk.injEq] at h
      obtain ⟨rfl, rfl, _⟩ := h
      exact ⟨key nT tm feT t t1 m1 h1, key nF fm feF t1 t2 m2 h2⟩

/-- time mask `[5, 8)` on an axis of 10, frequency mask `[1, 2)` on an axis of 4 -/
example : (match specAugment 10 4 (some 4) (some 2) (3, 5) (1, 1)
      [.rand (1 / 2), .rand (1 / 2), .rand (1 / 2), .rand (1 / 2)] with
    | .ok (some a, some b, _) => decide (a.idx = [5, 6, 7] ∧ b.idx = [1])
    | _ => false) = true := by decide +kernel

/-- **KDSpecAugment with the front end in exact arithmetic — the interval lies inside the input, the `assert` never
    fires.** For every axis length, every `mask_param ≥ 1`, all two draws of `rng.random()` (contract `0 ≤ r < 1`) with
    `value = r1 · mask_param ≤ size` (always true when `mask_param ≤ size`): the run succeeds, `0 ≤ start ≤ stop ≤ size`,
    `stop - start < mask_param`, and exactly the `stop - start` positions of the interval are masked.
    PARTIAL with respect to the code: the code computes `value`, `min_value` in float32; `specFront` is the same formula
    over `Rat`. What is missing is a float32 model (a float32 product can round up to `mask_param`, then the code's
    `assert` fires — an error outcome, not an out-of-bounds mask; covered by `spec_augment_both_axes_in_bounds`). -/
theorem spec_axis_exact_front_interval_inside_partial (size : Nat) (P : Int) (r1 r2 : Rat) (rest : Tape) (hP : 1 ≤ P)
    (h1 : 0 ≤ r1 ∧ r1 < 1) (h2 : 0 ≤ r2 ∧ r2 < 1) (hfit : r1 * (P : Rat) ≤ (size : Rat)) :
    ∃ m, specAxis size P (specFront size P r1 r2) (.rand r1 :: .rand r2 :: rest) = .ok (some m, rest) ∧
      0 ≤ m.start ∧ m.start ≤ m.stop ∧ m.stop ≤ size ∧ m.stop - m.start < P ∧
      (m.idx.length : Int) = m.stop - m.start ∧ ∀ k, k ∈ m.idx ↔ m.start ≤ (k : Int) ∧ (k : Int) < m.stop := by
  obtain ⟨c1, c2, c3, c4⟩ := c14x_specFront_contract size P r1 r2 hP h1 h2 hfit
  generalize specFront size P r1 r2 = fe at *
  have hrun : specAxis size P fe (.rand r1 :: .rand r2 :: rest)
      = .ok (some ⟨fe.2, fe.2 + fe.1, maskIdx size fe.2 (fe.2 + fe.1)⟩, rest) := by
    have hP' : ¬ P < 1 := by omega
    simp [specAxis, hP', drawRand, h1.1, h1.2, h2.1, h2.2, c2]
  refine ⟨_, hrun, ?_⟩
  obtain ⟨ok, _⟩ := c14x_specAxis_ok size P fe _ _ _ hrun
  obtain ⟨i1, i2, i3, i4⟩ := ok.inside c3 c1 c4
  refine ⟨i1, i2, i3, ok.len_lt, i4, ?_⟩
  intro k
  rw [ok.mem_iff]
  constructor
  · intro hk; exact hk.2
  · intro hk; exact ⟨by omega, hk⟩

/-- `size = 10`, `mask_param = 4`, draws `0.9`, `0.5`: `value = 3.6 → 3`, `min_value = 0.5 · 6.4 = 3.2 → 3`: mask `[3, 6)` -/
example : specFront 10 4 (9 / 10) (1 / 2) = (3, 3) := by decide +kernel

/-- the excluded corner `value > size` is real (parameter 10 on an axis of 3, draws 0.95 and 0): the interval `[0, 9)`
    sticks out of the axis — the *masked positions* are still inside (`spec_augment_both_axes_in_bounds`) -/
example : specFront 3 10 (19 / 20) 0 = (9, 0) ∧ (match specAxis 3 10 (9, 0) [.rand (19 / 20), .rand 0] with
    | .ok (some m, _) => decide (m.stop = 9 ∧ m.idx = [0, 1, 2])
    | _ => false) = true := by decide +kernel

end KDVerif.C14
