/-
C14 — Geometric transforms stay in bounds and their recorded parameters tell the truth; paired image/segmentation
geometry; patchify/unpatchify, patch shuffles and normalise/denormalise are mutual inverses.

Models: KDVerif/Model/Geometry.lean (integer cores over the recorded tape of draws; float front-end outputs are handed in
and universally quantified), KDVerif/Model/Rearrange.lean (einops patterns as flat-index maps, gather, normalisation over
`Rat`), KDVerif/Gen/Patterns.lean (the pattern strings of the code, regenerated every run, with the swap obligations).

A model run returns `.ok` only when every recorded draw has the kind and the range the routine asks for and satisfies the
generator's contract `lo ≤ v < hi`; so "`… = .ok r →`" reads "for every tape of draws satisfying the `integers(lo,hi)`
contract".
-/
import KDVerif.Lemmas.Geometry
import KDVerif.Lemmas.GeometryRearrange
import KDVerif.Gen.Patterns
import Mathlib.Tactic.Ring
import Mathlib.Tactic.FieldSimp

namespace KDVerif.C14
open KDVerif.Geometry KDVerif.Rearrange

/-! ### KDRandomCrop (and KDSimpleRandomCrop = Resize ∘ KDRandomCrop) -/

/-- **Crop box in bounds with exactly the requested size**: for every input size, padding configuration and tape, the
    recorded box `(i, j, h, w)` lies inside the padded image and has the size `(th, tw)`. -/
theorem crop_in_bounds (c : CropCfg) (h w : Int) (t t' : Tape) (o : CropOut)
    (hr : randomCrop c h w t = .ok (o, t')) :
    o.pads = padSeq c h w ∧ o.H = padH h o.pads ∧ o.W = padW w o.pads ∧
      o.box.inside o.H o.W ∧ o.box.h = c.th ∧ o.box.w = c.tw := by
  unfold randomCrop at hr
  simp only at hr
  cases hg : getParams (padH h (padSeq c h w)) (padW w (padSeq c h w)) c.th c.tw t with
  | error e => simp [hg] at hr
  | ok r =>
    obtain ⟨b, t1⟩ := r
    simp only [hg, Except.ok.injEq, Prod.mk.injEq] at hr
    obtain ⟨rfl, _⟩ := hr
    have := getParams_ok hg
    exact ⟨rfl, rfl, rfl, ⟨this.1, this.2.1, this.2.2.1, this.2.2.2.1⟩, this.2.2.2.2.1, this.2.2.2.2.2⟩

example : randomCrop ⟨8, 8, .all 2, false⟩ 10 12 [.ints 0 7 3, .ints 0 9 5]
    = .ok (⟨[⟨2, 2, 2, 2⟩], 14, 16, ⟨3, 5, 8, 8⟩⟩, []) := by decide

/-- **The code rejects exactly the images that are more than one pixel too small** (its own `ValueError`). -/
theorem crop_rejects (h w th tw : Int) (t : Tape) :
    getParams h w th tw t = .error .valueError ↔ (h + 1 < th ∨ w + 1 < tw) :=
  getParams_valueError_iff

/-- the 1-pixel-too-small edge `h = th - 1` is not accepted either: the generator itself raises (`integers(0, 0)`) —
    never an out-of-bounds crop -/
theorem crop_edge_is_generator_error (w th tw : Int) (t : Tape) (hw : tw ≤ w + 1) :
    getParams (th - 1) w th tw t = .error .genValueError := by
  unfold getParams
  have h0 : ¬ (th - 1 + 1 < th ∨ w + 1 < tw) := by omega
  have h1 : ¬ (w = tw ∧ th - 1 = th) := by omega
  simp only [h0, h1, if_false]
  rw [drawInt_empty t (by omega)]

/-- no crop is ever returned for an image smaller than the target in either dimension -/
theorem crop_ok_needs_fit (h w th tw : Int) (t t' : Tape) (b : Box) (hh : getParams h w th tw t = .ok (b, t')) :
    th ≤ h ∧ tw ≤ w := by
  have := getParams_ok hh
  omega

/-- progress: an image that fits and two in-range draws give the crop at the drawn offsets -/
theorem crop_total (h w th tw vi vj : Int) (r : Tape) (h1 : th ≤ h) (h2 : tw ≤ w) (hne : ¬ (w = tw ∧ h = th))
    (hi : 0 ≤ vi ∧ vi ≤ h - th) (hj : 0 ≤ vj ∧ vj ≤ w - tw) :
    getParams h w th tw (.ints 0 (h - th + 1) vi :: .ints 0 (w - tw + 1) vj :: r) = .ok (⟨vi, vj, th, tw⟩, r) := by
  unfold getParams
  have h0 : ¬ (h + 1 < th ∨ w + 1 < tw) := by omega
  simp only [h0, hne, if_false]
  rw [drawInt_good _ hi.1 (by omega)]
  simp only
  rw [drawInt_good _ hj.1 (by omega)]

/-- **`pad_if_needed` reaches the target size** (whatever the configured padding) -/
theorem pad_reaches_size (c : CropCfg) (h w : Int) (hp : c.padIfNeeded = true) :
    c.th ≤ padH h (padSeq c h w) ∧ c.tw ≤ padW w (padSeq c h w) := by
  rw [padH_padSeq, padW_padSeq]
  constructor
  · by_cases h1 : padH h c.padding.toPads < c.th
    · simp [hp, h1]; omega
    · simp [h1]; omega
  · by_cases h1 : padW w c.padding.toPads < c.tw
    · simp [hp, h1]; omega
    · simp [h1]; omega

/-- … hence with `pad_if_needed` the crop never raises the size `ValueError` -/
theorem crop_pad_if_needed_never_rejects (c : CropCfg) (h w : Int) (t : Tape) (hp : c.padIfNeeded = true) :
    randomCrop c h w t ≠ .error .valueError := by
  intro hr
  unfold randomCrop at hr
  simp only at hr
  have hs := pad_reaches_size c h w hp
  cases hg : getParams (padH h (padSeq c h w)) (padW w (padSeq c h w)) c.th c.tw t with
  | error e =>
    simp only [hg, Except.error.injEq] at hr
    rw [hr] at hg
    have := (crop_rejects _ _ _ _ _).1 hg
    omega
  | ok r => simp [hg] at hr

/-- configured non-negative padding never shrinks the image -/
theorem padding_grows (p : Padding) (hp : p.nonneg) (h w : Int) : h ≤ padH h p.toPads ∧ w ≤ padW w p.toPads :=
  ⟨padH_toPads_ge p hp h, padW_toPads_ge p hp w⟩

/-! ### KDTwoRandomCrop -/

theorem twoLoop_ok (H W th tw : Int) (omin omax : Rat) (tries : Option Nat) (b0 : Box) :
    ∀ (fuel k : Nat) (t t' : Tape) (r : TwoOut), twoLoop H W th tw omin omax tries b0 fuel k t = .ok (r, t') →
      r.b1.inside H W ∧ r.b1.h = th ∧ r.b1.w = tw ∧
      r.overlap = ((interArea b0 r.b1 : Int) : Rat) / ((boxArea b0 + boxArea r.b1 - interArea b0 r.b1 : Int) : Rat) ∧
      (r.outOfTries = false → omin ≤ r.overlap ∧ r.overlap ≤ omax) ∧
      (r.outOfTries = true → ∃ n, tries = some n) := by
  intro fuel
  induction fuel with
  | zero => intro k t t' r h; simp [twoLoop] at h
  | succ f ih =>
    intro k t t' r h
    unfold twoLoop at h
    cases hg : getParams H W th tw t with
    | error e => simp [hg] at h
    | ok x =>
      obtain ⟨b1, t1⟩ := x
      simp only [hg] at h
      have hb := getParams_ok hg
      by_cases hu : boxArea b0 + boxArea b1 - interArea b0 b1 = 0
      · simp [hu] at h
      · simp only [hu, if_false] at h
        by_cases hov : omin ≤ ((interArea b0 b1 : Int) : Rat) / ((boxArea b0 + boxArea b1 - interArea b0 b1 : Int) : Rat) ∧
            ((interArea b0 b1 : Int) : Rat) / ((boxArea b0 + boxArea b1 - interArea b0 b1 : Int) : Rat) ≤ omax
        · simp only [hov, and_self, if_true, Except.ok.injEq, Prod.mk.injEq] at h
          obtain ⟨rfl, _⟩ := h
          exact ⟨⟨hb.1, hb.2.1, hb.2.2.1, hb.2.2.2.1⟩, hb.2.2.2.2.1, hb.2.2.2.2.2, rfl, fun _ => hov, fun hf => by simp at hf⟩
        · simp only [hov, if_false] at h
          cases tries with
          | none =>
            simp only [Bool.false_eq_true, if_false] at h
            exact ih _ _ _ _ h
          | some n =>
            simp only at h
            by_cases hn : n ≤ k + 1
            · simp only [hn, decide_true, if_true, Except.ok.injEq, Prod.mk.injEq] at h
              obtain ⟨rfl, _⟩ := h
              exact ⟨⟨hb.1, hb.2.1, hb.2.2.1, hb.2.2.2.1⟩, hb.2.2.2.2.1, hb.2.2.2.2.2, rfl, fun hf => by simp at hf, fun _ => ⟨n, rfl⟩⟩
            · simp only [hn, decide_false, Bool.false_eq_true, if_false] at h
              exact ih _ _ _ _ h

/-- **Both crops of the two-crop transform are in bounds with the requested size**, whatever the retry loop did; the
    recorded overlap is intersection/union of the two recorded boxes and respects `[overlap_min, overlap_max]` unless
    `out_of_tries` is recorded (which needs `tries` to be set). -/
theorem two_crop_in_bounds (c : CropCfg) (omin omax : Rat) (tries : Option Nat) (fuel : Nat) (h w : Int)
    (t t' : Tape) (o : TwoCropOut) (hr : twoCrop c omin omax tries fuel h w t = .ok (o, t')) :
    o.pads = padSeq c h w ∧ o.H = padH h o.pads ∧ o.W = padW w o.pads ∧
      o.b0.inside o.H o.W ∧ o.b0.h = c.th ∧ o.b0.w = c.tw ∧
      o.res.b1.inside o.H o.W ∧ o.res.b1.h = c.th ∧ o.res.b1.w = c.tw ∧
      o.res.overlap = ((interArea o.b0 o.res.b1 : Int) : Rat) /
        ((boxArea o.b0 + boxArea o.res.b1 - interArea o.b0 o.res.b1 : Int) : Rat) ∧
      (o.res.outOfTries = false → omin ≤ o.res.overlap ∧ o.res.overlap ≤ omax) ∧
      (o.res.outOfTries = true → ∃ n, tries = some n) := by
  unfold twoCrop at hr
  simp only at hr
  cases hg : getParams (padH h (padSeq c h w)) (padW w (padSeq c h w)) c.th c.tw t with
  | error e => simp [hg] at hr
  | ok x =>
    obtain ⟨b0, t1⟩ := x
    simp only [hg] at hr
    cases hl : twoLoop (padH h (padSeq c h w)) (padW w (padSeq c h w)) c.th c.tw omin omax tries b0 fuel 0 t1 with
    | error e => simp [hl] at hr
    | ok y =>
      obtain ⟨r, t2⟩ := y
      simp only [hl, Except.ok.injEq, Prod.mk.injEq] at hr
      obtain ⟨rfl, _⟩ := hr
      have hb := getParams_ok hg
      have hl' := twoLoop_ok _ _ _ _ _ _ _ _ _ _ _ _ _ hl
      exact ⟨rfl, rfl, rfl, ⟨hb.1, hb.2.1, hb.2.2.1, hb.2.2.2.1⟩, hb.2.2.2.2.1, hb.2.2.2.2.2,
        hl'.1, hl'.2.1, hl'.2.2.1, hl'.2.2.2.1, hl'.2.2.2.2.1, hl'.2.2.2.2.2⟩

example : ∃ o t', twoCrop ⟨4, 4, .none, false⟩ (1 / 2) 1 (some 3) 10 6 6
    [.ints 0 3 0, .ints 0 3 0, .ints 0 3 2, .ints 0 3 2, .ints 0 3 0, .ints 0 3 1] = .ok (o, t') ∧
    o.res.b1 = ⟨0, 1, 4, 4⟩ ∧ o.res.outOfTries = false := ⟨_, _, by decide, by decide, by decide⟩

/-- the intersection area is never negative … -/
theorem interArea_nonneg (a b : Box) : 0 ≤ interArea a b := by
  unfold interArea
  apply Int.mul_nonneg <;> (unfold imax; split_ifs <;> omega)

/-- … symmetric … -/
theorem interArea_comm (a b : Box) : interArea a b = interArea b a := by
  unfold interArea imax imin
  congr 1 <;> (split_ifs <;> omega)

/-- … and at most the area of either box (so the recorded overlap lies in `[0, 1]`) -/
theorem interArea_le_left (a b : Box) (hh : 0 ≤ a.h) (hw : 0 ≤ a.w) : interArea a b ≤ boxArea a := by
  unfold interArea boxArea
  apply Int.mul_le_mul
  · unfold imax imin; split_ifs <;> omega
  · unfold imax imin; split_ifs <;> omega
  · unfold imax; split_ifs <;> omega
  · exact hh

/-! ### KDRandomResizedCrop -/

theorem rrcLoop_ok (W H : Int) : ∀ (n : Nat) (ps ps' : List (Int × Int)) (t t' : Tape) (b : Box),
    rrcLoop W H n ps t = .ok (some b, ps', t') → b.inside H W ∧ 0 < b.h ∧ 0 < b.w := by
  intro n
  induction n with
  | zero => intro ps ps' t t' b h; simp [rrcLoop] at h
  | succ n ih =>
    intro ps ps' t t' b h
    cases ps with
    | nil => simp [rrcLoop] at h
    | cons p ps =>
      obtain ⟨w, hh⟩ := p
      unfold rrcLoop at h
      cases h1 : drawUnif t with
      | error e => simp [h1] at h
      | ok x1 =>
        obtain ⟨_, t1⟩ := x1
        simp only [h1] at h
        cases h2 : drawUnif t1 with
        | error e => simp [h2] at h
        | ok x2 =>
          obtain ⟨_, t2⟩ := x2
          simp only [h2] at h
          by_cases ha : rrcAccept W H w hh = true
          · simp only [ha, if_true] at h
            cases h3 : drawInt 0 (H - hh + 1) t2 with
            | error e => simp [h3] at h
            | ok x3 =>
              obtain ⟨i, t3⟩ := x3
              simp only [h3] at h
              cases h4 : drawInt 0 (W - w + 1) t3 with
              | error e => simp [h4] at h
              | ok x4 =>
                obtain ⟨j, t4⟩ := x4
                simp only [h4, Except.ok.injEq, Prod.mk.injEq, Option.some.injEq] at h
                obtain ⟨rfl, _⟩ := h
                have d3 := drawInt_ok h3
                have d4 := drawInt_ok h4
                simp only [rrcAccept, decide_eq_true_eq] at ha
                refine ⟨⟨?_, ?_, ?_, ?_⟩, ?_, ?_⟩ <;> dsimp only <;> omega
          · simp only [ha, Bool.false_eq_true, if_false] at h
            exact ih _ _ _ _ _ h

/-- **Accept branch of the resized crop**: whenever one of the 10 attempts is accepted, the recorded box has positive
    extent and lies inside the `H × W` image (for every front-end proposal and every tape). -/
theorem rrc_accept_in_bounds (W H : Int) (r0 r1 : Rat) (props ps : List (Int × Int)) (fe : RrcFront) (t t' : Tape)
    (o : RrcOut) (hr : rrc W H r0 r1 props fe t = .ok (o, ps, t')) (hf : o.fallback = false) :
    o.box.inside H W ∧ 0 < o.box.h ∧ 0 < o.box.w := by
  unfold rrc at hr
  cases hl : rrcLoop W H 10 props t with
  | error e => simp [hl] at hr
  | ok x =>
    obtain ⟨ob, ps1, t1⟩ := x
    cases ob with
    | none =>
      simp only [hl, Except.ok.injEq, Prod.mk.injEq] at hr
      obtain ⟨rfl, _⟩ := hr
      simp at hf
    | some b =>
      simp only [hl, Except.ok.injEq, Prod.mk.injEq] at hr
      obtain ⟨rfl, _⟩ := hr
      exact rrcLoop_ok W H _ _ _ _ _ _ hl

/-- the float front end of the fallback branch is *order-faithful*: a correctly rounded quotient / product never crosses an
    integer or a representable bound the exact value does not cross -/
structure FrontOk (W H : Int) (r0 r1 : Rat) (fe : RrcFront) : Prop where
  lt_min : fe.inRatio < rmin r0 r1 → (W : Rat) / (H : Rat) < rmin r0 r1
  gt_max : rmax r0 r1 < fe.inRatio → rmax r0 r1 < (W : Rat) / (H : Rat)
  qh_le : ∀ n : Int, (W : Rat) / rmin r0 r1 ≤ (n : Rat) → fe.qh ≤ (n : Rat)
  qh_ge : ∀ n : Int, (n : Rat) ≤ (W : Rat) / rmin r0 r1 → (n : Rat) ≤ fe.qh
  qw_le : ∀ n : Int, (H : Rat) * rmax r0 r1 ≤ (n : Rat) → fe.qw ≤ (n : Rat)
  qw_ge : ∀ n : Int, (n : Rat) ≤ (H : Rat) * rmax r0 r1 → (n : Rat) ≤ fe.qw

theorem rmin_pos {a b : Rat} (ha : 0 < a) (hb : 0 < b) : 0 < rmin a b := by unfold rmin; split_ifs <;> assumption
theorem rmax_pos {a b : Rat} (ha : 0 < a) (hb : 0 < b) : 0 < rmax a b := by unfold rmax; split_ifs <;> assumption

/-- **Fallback branch of the resized crop**: the central crop lies inside the image and is never larger than it, for every
    positive image size, every positive ratio pair and every order-faithful front end. -/
theorem rrc_fallback_in_bounds (W H : Int) (r0 r1 : Rat) (fe : RrcFront) (hW : 0 < W) (hH : 0 < H)
    (h0 : 0 < r0) (h1 : 0 < r1) (hfe : FrontOk W H r0 r1 fe) :
    (rrcFallback W H r0 r1 fe).inside H W ∧
      0 ≤ (rrcFallback W H r0 r1 fe).h ∧ (rrcFallback W H r0 r1 fe).h ≤ H ∧
      0 ≤ (rrcFallback W H r0 r1 fe).w ∧ (rrcFallback W H r0 r1 fe).w ≤ W := by
  have hmin := rmin_pos h0 h1
  have hmax := rmax_pos h0 h1
  have hWq : (0 : Rat) < (W : Rat) := by exact_mod_cast hW
  have hHq : (0 : Rat) < (H : Rat) := by exact_mod_cast hH
  have key : ∀ hh ww : Int, 0 ≤ hh → hh ≤ H → 0 ≤ ww → ww ≤ W →
      (⟨(H - hh) / 2, (W - ww) / 2, hh, ww⟩ : Box).inside H W ∧ 0 ≤ hh ∧ hh ≤ H ∧ 0 ≤ ww ∧ ww ≤ W := by
    intro hh ww a b c d
    refine ⟨⟨?_, ?_, ?_, ?_⟩, a, b, c, d⟩ <;> dsimp only <;> omega
  unfold rrcFallback
  simp only
  by_cases c1 : fe.inRatio < rmin r0 r1
  · simp only [c1, if_true]
    have hlt := hfe.lt_min c1
    have hq : (W : Rat) / rmin r0 r1 ≤ (H : Rat) := by
      rw [div_le_iff₀ hmin]
      rw [div_lt_iff₀ hHq] at hlt
      linarith
    have hq0 : ((0 : Int) : Rat) ≤ (W : Rat) / rmin r0 r1 := by
      simp only [Int.cast_zero]; exact le_of_lt (div_pos hWq hmin)
    exact key _ _ (le_roundHalfEven (hfe.qh_ge 0 hq0)) (roundHalfEven_le (hfe.qh_le H hq)) (le_of_lt hW) (le_refl _)
  · simp only [c1, if_false]
    by_cases c2 : rmax r0 r1 < fe.inRatio
    · simp only [c2, if_true]
      have hgt := hfe.gt_max c2
      have hq : (H : Rat) * rmax r0 r1 ≤ (W : Rat) := by
        rw [lt_div_iff₀ hHq] at hgt
        linarith
      have hq0 : ((0 : Int) : Rat) ≤ (H : Rat) * rmax r0 r1 := by
        simp only [Int.cast_zero]; exact le_of_lt (mul_pos hHq hmax)
      exact key _ _ (le_of_lt hH) (le_refl _) (le_roundHalfEven (hfe.qw_ge 0 hq0)) (roundHalfEven_le (hfe.qw_le W hq))
    · simp only [c2, if_false]
      exact key _ _ (le_of_lt hH) (le_refl _) (le_of_lt hW) (le_refl _)

/-- **Positive extent of the fallback — partial**: proved under `min(ratio) ≤ W` and `1 ≤ H · max(ratio)`. Excluded
    corner (also produced by the real code, out of the claim): an extreme ratio range such as `ratio = (3, 4)` on a
    `1 × 100` image gives `h = round(1/3) = 0`, a zero-height box (see the `example` below). -/
theorem rrc_fallback_positive_partial (W H : Int) (r0 r1 : Rat) (fe : RrcFront) (hW : 0 < W) (hH : 0 < H)
    (h0 : 0 < r0) (h1 : 0 < r1) (hfe : FrontOk W H r0 r1 fe)
    (hx1 : rmin r0 r1 ≤ (W : Rat)) (hx2 : 1 ≤ (H : Rat) * rmax r0 r1) :
    0 < (rrcFallback W H r0 r1 fe).h ∧ 0 < (rrcFallback W H r0 r1 fe).w := by
  have hmin := rmin_pos h0 h1
  unfold rrcFallback
  simp only
  by_cases c1 : fe.inRatio < rmin r0 r1
  · simp only [c1, if_true]
    have hq1 : ((1 : Int) : Rat) ≤ (W : Rat) / rmin r0 r1 := by
      simp only [Int.cast_one]
      rw [le_div_iff₀ hmin]; linarith
    have := le_roundHalfEven (hfe.qh_ge 1 hq1)
    omega
  · simp only [c1, if_false]
    by_cases c2 : rmax r0 r1 < fe.inRatio
    · simp only [c2, if_true]
      have hq1 : ((1 : Int) : Rat) ≤ (H : Rat) * rmax r0 r1 := by simpa using hx2
      have := le_roundHalfEven (hfe.qw_ge 1 hq1)
      omega
    · simp only [c2, if_false]
      omega

/-- the excluded corner of `rrc_fallback_positive_partial` is real: ratio `(3, 4)`, image `W = 1`, `H = 100` -/
example : (rrcFallback 1 100 3 4 ⟨1 / 100, 1 / 3, 400⟩).h = 0 := by decide

example : FrontOk 4 3 (3 / 4) (4 / 3) ⟨4 / 3, 16 / 3, 4⟩ := by
  have e1 : rmin (3 / 4 : Rat) (4 / 3) = 3 / 4 := by decide
  have e2 : rmax (3 / 4 : Rat) (4 / 3) = 4 / 3 := by decide
  constructor <;> rw [e1] <;> try rw [e2]
  all_goals norm_num
  all_goals intro n hn
  all_goals linarith

end KDVerif.C14
