/-
C06 — Resuming the interleaved scheduler yields the suffix of the uninterrupted run.
-/
import KDVerif.Props.C04
import KDVerif.Lemmas.InterleavedResume

namespace KDVerif.C06
open KDVerif.Interleaved

/-- the checkpoint the constructor derives from `start_epoch = e` carries the counters an
    uninterrupted run has at that epoch boundary: `e` epochs, `e · updates_per_epoch` updates,
    `e · samples_per_epoch` samples — with the *loop's* samples/updates per epoch
    (also for `drop_last=False` and `drop_last_batch_size`) -/
theorem ctor_epoch_checkpoint (a : Args) (e : Nat) (st : Start) (h : ctor a (.epoch e) = .ok st) :
    st = ⟨e, upe a * e, spe a * e⟩ := by
  have := (C04.ctor_ok a _ st h).2.2
  simp only [startOf, Except.ok.injEq] at this
  exact this.symm

theorem upe_mul_B_of_dvd (a : Args) (hB : 0 < a.B) (hd : spe a % a.B = 0) : upe a * a.B = spe a := by
  unfold upe
  have hq : spe a = a.B * (spe a / a.B) := by
    have := Nat.div_add_mod (spe a) a.B
    omega
  have h1 : (spe a + a.B - 1) / a.B = spe a / a.B := by
    have h2 : spe a + a.B - 1 = (a.B - 1) + a.B * (spe a / a.B) := by omega
    rw [h2, Nat.add_mul_div_left _ _ hB, Nat.div_eq_of_lt (by omega)]
    omega
  rw [h1, Nat.mul_comm]
  exact hq.symm

theorem spe_mod_B_of_dropLast (a : Args) (sa : StartArg) (st : Start) (h : ctor a sa = .ok st)
    (hdl : a.dropLast = true) : spe a % a.B = 0 := by
  have hg := (C04.ctor_ok a sa st h).1
  unfold spe
  rw [hdl]
  simp only [if_true]
  cases hds : a.dropLastBS with
  | none => exact Nat.mul_mod_left _ _
  | some d =>
    simp only
    unfold geomOk at hg
    rw [hds] at hg
    simp only [Bool.and_eq_true, bne_iff_ne, ne_eq, decide_eq_true_eq, beq_iff_eq] at hg
    rw [Nat.mul_mod, hg.2.1.1.2]; simp

/-- a checkpoint given as `start_update` is either rejected (`NotImplementedError`) or is the
    epoch-boundary checkpoint of some epoch -/
theorem ctor_update_is_epoch (a : Args) (u : Nat) (st : Start) (h : ctor a (.update u) = .ok st) :
    ctor a (.epoch (u / upe a)) = .ok st := by
  obtain ⟨hg, hc, hs⟩ := C04.ctor_ok a _ st h
  unfold ctor
  simp only [hg, hc, Bool.and_self, if_true]
  unfold startOf at hs ⊢
  simp only at hs ⊢
  by_cases hcnd : (u % upe a != 0 || !a.dropLast) = true
  · simp [hcnd] at hs
  · simp only [hcnd] at hs
    simp only [Bool.or_eq_true, bne_iff_ne, ne_eq, Bool.not_eq_true', not_or, Decidable.not_not,
      Bool.not_eq_false] at hcnd
    have hu : u = upe a * (u / upe a) := by
      have := Nat.div_add_mod u (upe a)
      omega
    simp only [Bool.false_eq_true, if_false, Except.ok.injEq] at hs ⊢
    rw [← hs]
    congr 1
    · exact hu.symm
    · exact Nat.mul_comm _ _

/-- likewise for `start_sample` -/
theorem ctor_sample_is_epoch (a : Args) (s : Nat) (st : Start) (h : ctor a (.sample s) = .ok st) :
    ctor a (.epoch ((s / a.B) / upe a)) = .ok st := by
  obtain ⟨hg, hc, hs⟩ := C04.ctor_ok a _ st h
  obtain ⟨hBpos, _, _, _⟩ := C04.ctor_ok_geometry a _ st h
  unfold ctor
  simp only [hg, hc, Bool.and_self, if_true]
  unfold startOf at hs ⊢
  simp only at hs ⊢
  by_cases hm : (s % a.B != 0) = true
  · simp [hm] at hs
  · simp only [hm] at hs
    by_cases hcnd : ((s / a.B) % upe a != 0 || !a.dropLast) = true
    · simp [hcnd] at hs
    · simp only [hcnd] at hs
      simp only [Bool.or_eq_true, bne_iff_ne, ne_eq, Bool.not_eq_true', not_or, Decidable.not_not,
        Bool.not_eq_false] at hcnd hm
      have hdvd := spe_mod_B_of_dropLast a _ st h hcnd.2
      have hub := upe_mul_B_of_dvd a hBpos hdvd
      have hu : s / a.B = upe a * ((s / a.B) / upe a) := by
        have := Nat.div_add_mod (s / a.B) (upe a)
        omega
      have hs' : s = a.B * (s / a.B) := by
        have := Nat.div_add_mod s a.B
        omega
      simp only [Bool.false_eq_true, if_false, Except.ok.injEq] at hs ⊢
      rw [← hs]
      congr 1
      · exact hu.symm
      · calc spe a * (s / a.B / upe a) = (upe a * a.B) * (s / a.B / upe a) := by rw [hub]
          _ = a.B * (upe a * (s / a.B / upe a)) := by
              rw [Nat.mul_comm (upe a) a.B, Nat.mul_assoc]
          _ = a.B * (s / a.B) := by rw [← hu]
          _ = s := hs'.symm

/-- **Resume = suffix.**  For every geometry, budget and config set, every main/side oracle and every
    checkpoint `start_epoch = e' ≥ 1` the constructor accepts and that lies strictly before the budget:
    both the uninterrupted and the resumed loop end, and the resumed stream (including its first
    `set_epoch e'`, all later epoch numbers, side passes and the stopping point) is a suffix of the
    uninterrupted stream. (`start_update` / `start_sample` reduce to this by the two lemmas above.) -/
theorem resume_is_suffix (a : Args) (e' : Nat) (s0 st' : Start)
    (hctor0 : ctor a .none = .ok s0) (hctor : ctor a (.epoch e') = .ok st')
    (main : Nat → List Nat) (hmain : ∀ e, (main e).length = a.N) (side : Nat → Nat → List Nat)
    (hpos : 0 < e') (hbefore : beforeC a.budget st'.epoch st'.update st'.sample) :
    ∃ evs evs' pre n0,
      (∀ fuel, n0 < fuel → trainLoop a main side fuel (initSt s0) = some evs) ∧
      (∀ fuel, n0 < fuel → trainLoop a main side fuel (initSt st') = some evs') ∧
      evs = pre ++ evs' := by
  have hst := ctor_epoch_checkpoint a e' st' hctor
  obtain ⟨hB, _, hS, hSN⟩ := C04.ctor_ok_geometry a _ _ hctor
  have hs0 : s0 = ⟨0, 0, 0⟩ := by
    have := (C04.ctor_ok a _ s0 hctor0).2.2
    simp only [startOf, Except.ok.injEq] at this
    exact this.symm
  subst hs0
  rw [hst] at hbefore
  simp only at hbefore
  -- both runs end
  have hb0 : before a.budget (l1Start main ⟨0, 0, 0⟩) := by
    have := beforeC_mono a 0 e' (by omega) hbefore
    simp only [Nat.mul_zero] at this
    unfold before l1Start
    unfold beforeC at this
    cases hbud : a.budget <;> rw [hbud] at this <;> simpa using this
  have hb' : before a.budget (l1Start main st') := by
    rw [hst]
    unfold before l1Start
    unfold beforeC at hbefore
    cases hbud : a.budget <;> rw [hbud] at hbefore <;> simpa using hbefore
  obtain ⟨evs, hl0, ht0⟩ := C04.train_terminates_and_refines a .none ⟨0, 0, 0⟩ hctor0 main hmain side hb0
  obtain ⟨evs', hl', ht'⟩ := C04.train_terminates_and_refines a (.epoch e') st' hctor main hmain side hb'
  -- the uninterrupted run passes through the checkpoint's boundary state
  have hpass := passes_boundary a main hB hS (e' - 1) 0 (by
    have e : 0 + (e' - 1) + 1 = e' := by omega
    rw [e]; exact hbefore)
  have e : 0 + (e' - 1) + 1 = e' := by omega
  rw [e] at hpass
  have hb0eq : boundary a main 0 = l1Start main ⟨0, 0, 0⟩ := by simp [boundary, l1Start]
  have hbeq : boundary a main e' = l1Start main st' := by rw [hst]; simp [boundary, l1Start]
  rw [hb0eq, hbeq] at hpass
  simp only [l1] at hl0 hl'
  rcases hrec0 : l1Loop a main side (meas a (l1Start main ⟨0, 0, 0⟩)) (l1Start main ⟨0, 0, 0⟩) with _ | body0
  · rw [hrec0] at hl0; simp at hl0
  rcases hrec' : l1Loop a main side (meas a (l1Start main st')) (l1Start main st') with _ | body'
  · rw [hrec'] at hl'; simp at hl'
  rw [hrec0] at hl0
  rw [hrec'] at hl'
  simp only [Option.map_some, Option.some.injEq] at hl0 hl'
  obtain ⟨pre, evs'', k, hsplit, hk⟩ := suffix_of_passes a main side hpass _ body0 hrec0
  -- determinism in the fuel: the resumed run's stream is the same for every sufficient fuel
  have hsame : evs'' = body' := by
    have h1 := l1Loop_mono a main side k _ _ hk (meas a (l1Start main st'))
    have h2 := l1Loop_mono a main side _ _ _ hrec' k
    rw [Nat.add_comm] at h2
    rw [h1] at h2
    simpa using h2
  refine ⟨evs, evs', Ev.setEpoch 0 :: pre, max (meas a (l1Start main ⟨0, 0, 0⟩)) (meas a (l1Start main st')), ?_, ?_, ?_⟩
  · intro fuel hf; exact ht0 fuel (by omega)
  · intro fuel hf; exact ht' fuel (by omega)
  · rw [← hl0, ← hl', hsplit, hsame]
    have : (l1Start main st').epoch = st'.epoch := rfl
    simp [this]

/-- non-vacuity: N=5, B=2, drop_last, epochs=3 accepts `start_epoch=1`, which lies before the budget -/
example : ctor ⟨5, 5, 2, true, none, .epochs 3, []⟩ (.epoch 1) = .ok ⟨1, 2, 4⟩ ∧
    beforeC (Budget.epochs 3) 1 2 4 := by
  constructor
  · rfl
  · simp [beforeC]

end KDVerif.C06
