/-
C06 — Resuming the interleaved scheduler yields the suffix of the uninterrupted run.
-/
import KDVerif.Props.C04
import KDVerif.Lemmas.InterleavedResume
import KDVerif.Lemmas.C06Extra

namespace KDVerif.C06
open KDVerif.Interleaved

/-- the checkpoint the constructor derives from `start_epoch = e` carries the counters an
    uninterrupted run has at that epoch boundary: `e` epochs, `e · updates_per_epoch` updates,
    `e · samples_per_epoch` samples — with the *loop's* samples/updates per epoch
    (also for `drop_last=False` and `drop_last_batch_size`) -/
theorem ctor_epoch_checkpoint (a : Args) (e : Nat) (st : Start) (h : ctor a (.epoch e) = .ok st) :
    st = ⟨e, upe a * e, spe a * e⟩ := by
  have := (C04.ctor_ok a _ st h).2.2
  simp only [startOf, Except.ok.injEq] at this
  exact this.symm

theorem upe_mul_B_of_dvd (a : Args) (hB : 0 < a.B) (hd : spe a % a.B = 0) : upe a * a.B = spe a := by
  unfold upe
  have hq : spe a = a.B * (spe a / a.B) := by
    have := Nat.div_add_mod (spe a) a.B
    omega
  have h1 : (spe a + a.B - 1) / a.B = spe a / a.B := by
    have h2 : spe a + a.B - 1 = (a.B - 1) + a.B * (spe a / a.B) := by omega
    rw [h2, Nat.add_mul_div_left _ _ hB, Nat.div_eq_of_lt (by omega)]
    omega
  rw [h1, Nat.mul_comm]
  exact hq.symm

theorem spe_mod_B_of_dropLast (a : Args) (sa : StartArg) (st : Start) (h : ctor a sa = .ok st)
    (hdl : a.dropLast = true) : spe a % a.B = 0 := by
  have hg := (C04.ctor_ok a sa st h).1
  unfold spe
  rw [hdl]
  simp only [if_true]
  cases hds : a.dropLastBS with
  | none => exact Nat.mul_mod_left _ _
  | some d =>
    simp only
    unfold geomOk at hg
    rw [hds] at hg
    simp only [Bool.and_eq_true, bne_iff_ne, ne_eq, decide_eq_true_eq, beq_iff_eq] at hg
    rw [Nat.mul_mod, hg.2.1.1.2]; simp

/-- a checkpoint given as `start_update` is either rejected (`NotImplementedError`) or is the
    epoch-boundary checkpoint of some epoch -/
theorem ctor_update_is_epoch (a : Args) (u : Nat) (st : Start) (h : ctor a (.update u) = .ok st) :
    ctor a (.epoch (u / upe a)) = .ok st := by
  obtain ⟨hg, hc, hs⟩ := C04.ctor_ok a _ st h
  unfold ctor
  simp only [hg, hc, Bool.and_self, if_true]
  unfold startOf at hs ⊢
  simp only at hs ⊢
  by_cases hcnd : (u % upe a != 0 || !a.dropLast) = true
  · simp [hcnd] at hs
  · simp only [hcnd] at hs
    simp only [Bool.or_eq_true, bne_iff_ne, ne_eq, Bool.not_eq_true', not_or, Decidable.not_not,
      Bool.not_eq_false] at hcnd
    have hu : u = upe a * (u / upe a) := by
      have := Nat.div_add_mod u (upe a)
      omega
    simp only [Bool.false_eq_true, if_false, Except.ok.injEq] at hs ⊢
    rw [← hs]
    congr 1
    · exact hu.symm
    · exact Nat.mul_comm _ _

/-- likewise for `start_sample` -/
theorem ctor_sample_is_epoch (a : Args) (s : Nat) (st : Start) (h : ctor a (.sample s) = .ok st) :
    ctor a (.epoch ((s / a.B) / upe a)) = .ok st := by
  obtain ⟨hg, hc, hs⟩ := C04.ctor_ok a _ st h
  obtain ⟨hBpos, _, _, _⟩ := C04.ctor_ok_geometry a _ st h
  unfold ctor
  simp only [hg, hc, Bool.and_self, if_true]
  unfold startOf at hs ⊢
  simp only at hs ⊢
  by_cases hm : (s % a.B != 0) = true
  · simp [hm] at hs
  · simp only [hm] at hs
    by_cases hcnd : ((s / a.B) % upe a != 0 || !a.dropLast) = true
    · simp [hcnd] at hs
    · simp only [hcnd] at hs
      simp only [Bool.or_eq_true, bne_iff_ne, ne_eq, Bool.not_eq_true', not_or, Decidable.not_not,
        Bool.not_eq_false] at hcnd hm
      have hdvd := spe_mod_B_of_dropLast a _ st h hcnd.2
      have hub := upe_mul_B_of_dvd a hBpos hdvd
      have hu : s / a.B = upe a * ((s / a.B) / upe a) := by
        have := Nat.div_add_mod (s / a.B) (upe a)
        omega
      have hs' : s = a.B * (s / a.B) := by
        have := Nat.div_add_mod s a.B
        omega
      simp only [Bool.false_eq_true, if_false, Except.ok.injEq] at hs ⊢
      rw [← hs]
      congr 1
      · exact hu.symm
      · calc spe a * (s / a.B / upe a) = (upe a * a.B) * (s / a.B / upe a) := by rw [hub]
          _ = a.B * (upe a * (s / a.B / upe a)) := by
              rw [Nat.mul_comm (upe a) a.B, Nat.mul_assoc]
          _ = a.B * (s / a.B) := by rw [← hu]
          _ = s := hs'.symm

/-- **Resume = suffix.**  For every geometry, budget and config set, every main/side oracle and every
    checkpoint `start_epoch = e' ≥ 1` the constructor accepts and that lies strictly before the budget:
    both the uninterrupted and the resumed loop end, and the resumed stream (including its first
    `set_epoch e'`, all later epoch numbers, side passes and the stopping point) is a suffix of the
    uninterrupted stream. (`start_update` / `start_sample` reduce to this by the two lemmas above.) -/
theorem resume_is_suffix (a : Args) (e' : Nat) (s0 st' : Start)
    (hctor0 : ctor a .none = .ok s0) (hctor : ctor a (.epoch e') = .ok st')
    (main : Nat → List Nat) (hmain : ∀ e, (main e).length = a.N) (side : Nat → Nat → List Nat)
    (hpos : 0 < e') (hbefore : beforeC a.budget st'.epoch st'.update st'.sample) :
    ∃ evs evs' pre n0,
      (∀ fuel, n0 < fuel → trainLoop a main side fuel (initSt s0) = some evs) ∧
      (∀ fuel, n0 < fuel → trainLoop a main side fuel (initSt st') = some evs') ∧
      evs = pre ++ evs' := by
  have hst := ctor_epoch_checkpoint a e' st' hctor
  obtain ⟨hB, _, hS, hSN⟩ := C04.ctor_ok_geometry a _ _ hctor
  have hs0 : s0 = ⟨0, 0, 0⟩ := by
    have := (C04.ctor_ok a _ s0 hctor0).2.2
    simp only [startOf, Except.ok.injEq] at this
    exact this.symm
  subst hs0
  rw [hst] at hbefore
  simp only at hbefore
  -- both runs end
  have hb0 : before a.budget (l1Start main ⟨0, 0, 0⟩) := by
    have := beforeC_mono a 0 e' (by omega) hbefore
    simp only [Nat.mul_zero] at this
    unfold before l1Start
    unfold beforeC at this
    cases hbud : a.budget <;> rw [hbud] at this <;> simpa using this
  have hb' : before a.budget (l1Start main st') := by
    rw [hst]
    unfold before l1Start
    unfold beforeC at hbefore
    cases hbud : a.budget <;> rw [hbud] at hbefore <;> simpa using hbefore
  obtain ⟨evs, hl0, ht0⟩ := C04.train_terminates_and_refines a .none ⟨0, 0, 0⟩ hctor0 main hmain side hb0
  obtain ⟨evs', hl', ht'⟩ := C04.train_terminates_and_refines a (.epoch e') st' hctor main hmain side hb'
  -- the uninterrupted run passes through the checkpoint's boundary state
  have hpass := passes_boundary a main hB hS (e' - 1) 0 (by
    have e : 0 + (e' - 1) + 1 = e' := by omega
    rw [e]; exact hbefore)
  have e : 0 + (e' - 1) + 1 = e' := by omega
  rw [e] at hpass
  have hb0eq : boundary a main 0 = l1Start main ⟨0, 0, 0⟩ := by simp [boundary, l1Start]
  have hbeq : boundary a main e' = l1Start main st' := by rw [hst]; simp [boundary, l1Start]
  rw [hb0eq, hbeq] at hpass
  simp only [l1] at hl0 hl'
  rcases hrec0 : l1Loop a main side (meas a (l1Start main ⟨0, 0, 0⟩)) (l1Start main ⟨0, 0, 0⟩) with _ | body0
  · rw [hrec0] at hl0; simp at hl0
  rcases hrec' : l1Loop a main side (meas a (l1Start main st')) (l1Start main st') with _ | body'
  · rw [hrec'] at hl'; simp at hl'
  rw [hrec0] at hl0
  rw [hrec'] at hl'
  simp only [Option.map_some, Option.some.injEq] at hl0 hl'
  obtain ⟨pre, evs'', k, hsplit, hk⟩ := suffix_of_passes a main side hpass _ body0 hrec0
  -- determinism in the fuel: the resumed run's stream is the same for every sufficient fuel
  have hsame : evs'' = body' := by
    have h1 := l1Loop_mono a main side k _ _ hk (meas a (l1Start main st'))
    have h2 := l1Loop_mono a main side _ _ _ hrec' k
    rw [Nat.add_comm] at h2
    rw [h1] at h2
    simpa using h2
  refine ⟨evs, evs', Ev.setEpoch 0 :: pre, max (meas a (l1Start main ⟨0, 0, 0⟩)) (meas a (l1Start main st')), ?_, ?_, ?_⟩
  · intro fuel hf; exact ht0 fuel (by omega)
  · intro fuel hf; exact ht' fuel (by omega)
  · rw [← hl0, ← hl', hsplit, hsame]
    have : (l1Start main st').epoch = st'.epoch := rfl
    simp [this]

/-- non-vacuity: N=5, B=2, drop_last, epochs=3 accepts `start_epoch=1`, which lies before the budget -/
example : ctor ⟨5, 5, 2, true, none, .epochs 3, []⟩ (.epoch 1) = .ok ⟨1, 2, 4⟩ ∧
    beforeC (Budget.epochs 3) 1 2 4 := by
  constructor
  · rfl
  · simp [beforeC]

/-! ## Which checkpoints the constructor accepts (the `NotImplementedError` clause) -/

/-- **accepted ⇒ on an epoch boundary** (all four ways of giving a checkpoint: none / `start_epoch` /
    `start_update` / `start_sample`): whatever the constructor accepts is the epoch-boundary checkpoint of the
    epoch `st.epoch` it stores — `st.update = updates_per_epoch · st.epoch`, `st.sample = samples_per_epoch · st.epoch`
    — and it is the very checkpoint that `start_epoch = st.epoch` gives. -/
theorem ctor_accepted_is_epoch_boundary (a : Args) (sa : StartArg) (st : Start) (h : ctor a sa = .ok st) :
    st = ⟨st.epoch, upe a * st.epoch, spe a * st.epoch⟩ ∧ ctor a (.epoch st.epoch) = .ok st := by
  have key : ∀ e, ctor a (.epoch e) = .ok st → st = ⟨st.epoch, upe a * st.epoch, spe a * st.epoch⟩ ∧
      ctor a (.epoch st.epoch) = .ok st := by
    intro e he
    have hst := ctor_epoch_checkpoint a e st he
    have hep : st.epoch = e := by rw [hst]
    rw [hep]
    exact ⟨hst, he⟩
  cases sa with
  | none =>
    obtain ⟨hg, hc, hs⟩ := C04.ctor_ok a _ st h
    simp only [startOf, Except.ok.injEq] at hs
    apply key 0
    unfold ctor
    simp only [hg, hc, Bool.and_self, if_true, startOf, Nat.mul_zero]
    rw [← hs]
  | epoch e => exact key e h
  | update u => exact key _ (ctor_update_is_epoch a u st h)
  | sample s => exact key _ (ctor_sample_is_epoch a s st h)

/-- `start_epoch` is never rejected: a configuration the constructor accepts without a checkpoint is accepted
    with every `start_epoch = e`, with the counters of that epoch boundary -/
theorem ctor_epoch_always_accepted (a : Args) (s0 : Start) (h0 : ctor a .none = .ok s0) (e : Nat) :
    ctor a (.epoch e) = .ok ⟨e, upe a * e, spe a * e⟩ := by
  obtain ⟨hg, hc, _⟩ := C04.ctor_ok a _ s0 h0
  unfold ctor
  simp only [hg, hc, Bool.and_self, if_true, startOf]

/-- **`start_update = u`: accepted iff `drop_last` and `u` is a multiple of `updates_per_epoch`; every other `u`
    gets the explicit `NotImplementedError`** (never an assertion, never a silently different checkpoint).
    The accepted checkpoint is `(u / upe, u, u · batch_size)`, as the python code computes it. -/
theorem ctor_update_outcome (a : Args) (s0 : Start) (h0 : ctor a .none = .ok s0) (u : Nat) :
    ((∃ st, ctor a (.update u) = .ok st) ↔ (a.dropLast = true ∧ u % upe a = 0)) ∧
    (ctor a (.update u) = .error .notImplemented ↔ ¬ (a.dropLast = true ∧ u % upe a = 0)) ∧
    (∀ st, ctor a (.update u) = .ok st →
      st = ⟨u / upe a, u, u * a.B⟩ ∧ st.update = upe a * st.epoch ∧ st.sample = spe a * st.epoch) := by
  obtain ⟨hg, hc, _⟩ := C04.ctor_ok a _ s0 h0
  have hctor : ctor a (.update u) =
      if (u % upe a != 0 || !a.dropLast) = true then .error .notImplemented
      else .ok ⟨u / upe a, u, u / upe a * spe a⟩ := by
    unfold ctor
    simp only [hg, hc, Bool.and_self, if_true, startOf]
  refine ⟨?_, ?_, ?_⟩
  · rw [hctor]
    by_cases hd : a.dropLast = true <;> by_cases hm : u % upe a = 0 <;> simp [hd, hm]
  · rw [hctor]
    by_cases hd : a.dropLast = true <;> by_cases hm : u % upe a = 0 <;> simp [hd, hm]
  · intro st hst
    have hb := (ctor_accepted_is_epoch_boundary a _ st hst).1
    obtain ⟨hBpos, _, _, _⟩ := C04.ctor_ok_geometry a _ st hst
    rw [hctor] at hst
    by_cases hcnd : (u % upe a != 0 || !a.dropLast) = true
    · simp [hcnd] at hst
    · simp only [hcnd, Bool.false_eq_true, if_false, Except.ok.injEq] at hst
      simp only [Bool.or_eq_true, bne_iff_ne, ne_eq, Bool.not_eq_true', not_or, Decidable.not_not,
        Bool.not_eq_false] at hcnd
      have hdvd := spe_mod_B_of_dropLast a _ s0 h0 hcnd.2
      have hub := upe_mul_B_of_dvd a hBpos hdvd
      have hu : u = upe a * (u / upe a) := by
        have := Nat.div_add_mod u (upe a)
        omega
      have hsmp : u / upe a * spe a = u * a.B := by
        calc u / upe a * spe a = u / upe a * (upe a * a.B) := by rw [hub]
          _ = (upe a * (u / upe a)) * a.B := by rw [← Nat.mul_assoc, Nat.mul_comm (u / upe a)]
          _ = u * a.B := by rw [← hu]
      refine ⟨?_, ?_, ?_⟩
      · rw [← hst, hsmp]
      · rw [hb]
      · rw [hb]

/-- **`start_sample = s`: accepted iff `drop_last` and `s` is a multiple of `samples_per_epoch`**; an `s` that is
    not a multiple of `batch_size` fails the constructor's assertion; every other `s` (on a batch boundary but not
    on an epoch boundary, or `drop_last = False`) gets the explicit `NotImplementedError`. -/
theorem ctor_sample_outcome (a : Args) (s0 : Start) (h0 : ctor a .none = .ok s0) (s : Nat) :
    ((∃ st, ctor a (.sample s) = .ok st) ↔ (a.dropLast = true ∧ s % spe a = 0)) ∧
    (ctor a (.sample s) = .error .notImplemented ↔ (s % a.B = 0 ∧ ¬ (a.dropLast = true ∧ s % spe a = 0))) ∧
    (ctor a (.sample s) = .error .assertion ↔ s % a.B ≠ 0) ∧
    (∀ st, ctor a (.sample s) = .ok st →
      st = ⟨s / spe a, s / a.B, s⟩ ∧ st.update = upe a * st.epoch ∧ st.sample = spe a * st.epoch) := by
  obtain ⟨hg, hc, _⟩ := C04.ctor_ok a _ s0 h0
  obtain ⟨hBpos, _, hS, _⟩ := C04.ctor_ok_geometry a _ s0 h0
  have hctor : ctor a (.sample s) =
      if (s % a.B != 0) = true then .error .assertion
      else if ((s / a.B) % upe a != 0 || !a.dropLast) = true then .error .notImplemented
      else .ok ⟨(s / a.B) / upe a, s / a.B, s⟩ := by
    unfold ctor
    simp only [hg, hc, Bool.and_self, if_true, startOf]
  -- with `drop_last`, an epoch is a whole number of batches
  have harith : a.dropLast = true → s % a.B = 0 → ((s / a.B) % upe a = 0 ↔ s % spe a = 0) := by
    intro hd hsB
    have hdvd := spe_mod_B_of_dropLast a _ s0 h0 hd
    exact c06x_boundary_arith a.B (upe a) (spe a) s hBpos (upe_mul_B_of_dvd a hBpos hdvd) hsB
  have hBdvd : a.dropLast = true → s % spe a = 0 → s % a.B = 0 := by
    intro hd hsS
    have hdvd := spe_mod_B_of_dropLast a _ s0 h0 hd
    have h1 : a.B ∣ spe a := Nat.dvd_of_mod_eq_zero hdvd
    have h2 : spe a ∣ s := Nat.dvd_of_mod_eq_zero hsS
    exact Nat.mod_eq_zero_of_dvd (Nat.dvd_trans h1 h2)
  refine ⟨?_, ?_, ?_, ?_⟩
  · rw [hctor]
    by_cases hd : a.dropLast = true
    · by_cases hsB : s % a.B = 0
      · have := harith hd hsB
        by_cases hm : (s / a.B) % upe a = 0
        · have hsS := this.mp hm
          simp [hd, hsB, hm, hsS]
        · have hsS : ¬ s % spe a = 0 := fun h => hm (this.mpr h)
          simp [hd, hsB, hm, hsS]
      · have hsS : ¬ s % spe a = 0 := fun h => hsB (hBdvd hd h)
        simp [hd, hsB, hsS]
    · by_cases hsB : s % a.B = 0 <;> simp [hd, hsB]
  · rw [hctor]
    by_cases hd : a.dropLast = true
    · by_cases hsB : s % a.B = 0
      · have := harith hd hsB
        by_cases hm : (s / a.B) % upe a = 0
        · have hsS := this.mp hm
          simp [hd, hsB, hm, hsS]
        · have hsS : ¬ s % spe a = 0 := fun h => hm (this.mpr h)
          simp [hd, hsB, hm, hsS]
      · simp [hd, hsB]
    · by_cases hsB : s % a.B = 0 <;> simp [hd, hsB]
  · rw [hctor]
    by_cases hsB : s % a.B = 0
    · by_cases hcnd : ((s / a.B) % upe a != 0 || !a.dropLast) = true <;> simp [hsB, hcnd]
    · simp [hsB]
  · intro st hst
    have hb := (ctor_accepted_is_epoch_boundary a _ st hst).1
    refine ⟨?_, by rw [hb], by rw [hb]⟩
    have hsmp : st.sample = s := by
      rw [hctor] at hst
      by_cases hsB : (s % a.B != 0) = true
      · simp [hsB] at hst
      · by_cases hcnd : ((s / a.B) % upe a != 0 || !a.dropLast) = true
        · simp [hsB, hcnd] at hst
        · simp only [hsB, hcnd, Bool.false_eq_true, if_false, Except.ok.injEq] at hst
          rw [← hst]
    have hupd : st.update = s / a.B := by
      rw [hctor] at hst
      by_cases hsB : (s % a.B != 0) = true
      · simp [hsB] at hst
      · by_cases hcnd : ((s / a.B) % upe a != 0 || !a.dropLast) = true
        · simp [hsB, hcnd] at hst
        · simp only [hsB, hcnd, Bool.false_eq_true, if_false, Except.ok.injEq] at hst
          rw [← hst]
    have hsE : s = spe a * st.epoch := by rw [← hsmp, hb]
    have hep : st.epoch = s / spe a := by
      rw [hsE, Nat.mul_div_cancel_left _ hS]
    rw [hb]
    congr 1
    · rw [hb] at hupd; exact hupd
    · rw [hb] at hsmp; exact hsmp

/-- the three outcomes of `start_sample` all occur: N=8, B=2, drop_last ⇒ `samples_per_epoch = 8`:
    `s = 16` is accepted as epoch 2 / update 8, `s = 6` (a batch boundary inside an epoch) is a
    `NotImplementedError`, `s = 5` fails the assertion; `start_update = 8` is accepted, `start_update = 3` and
    any `start_update` without `drop_last` are `NotImplementedError`s -/
example :
    ctor ⟨8, 8, 2, true, none, .epochs 5, []⟩ (.sample 16) = .ok ⟨2, 8, 16⟩ ∧
    ctor ⟨8, 8, 2, true, none, .epochs 5, []⟩ (.sample 6) = .error .notImplemented ∧
    ctor ⟨8, 8, 2, true, none, .epochs 5, []⟩ (.sample 5) = .error .assertion ∧
    ctor ⟨8, 8, 2, true, none, .epochs 5, []⟩ (.update 8) = .ok ⟨2, 8, 16⟩ ∧
    ctor ⟨8, 8, 2, true, none, .epochs 5, []⟩ (.update 3) = .error .notImplemented ∧
    ctor ⟨8, 8, 2, false, none, .epochs 5, []⟩ (.update 0) = .error .notImplemented :=
  ⟨rfl, rfl, rfl, rfl, rfl, rfl⟩

/-! ## Resume = THE suffix after the checkpoint, for every way of giving the checkpoint -/

/-- **C06, the stream clause with no assumption on the main sampler's indices** (strengthens `resume_is_suffix`:
    every way of giving the checkpoint, the trivial checkpoint 0 included, and the prefix pinned).
    For every argument set the constructor accepts, every checkpoint argument `sa` (none / `start_epoch` /
    `start_update` / `start_sample`) it accepts and that lies strictly before the budget, every main sampler that
    yields `len(main_sampler)` indices per epoch and every side samplers: both loops end, and the resumed stream is
    the uninterrupted stream cut at its FIRST `set_epoch(st'.epoch)`:
    `resumed = uninterrupted.dropWhile (· ≠ set_epoch(st'.epoch))` — the same main indices with the same epoch
    numbers, the same side passes at the same positions, the same end. What is cut off (`pre`) announces exactly the
    epochs `0, …, st'.epoch - 1` and, for `st'.epoch > 0`, is the complete stream of the same configuration run with
    the budget `epochs = st'.epoch`. -/
theorem resume_stream_is_the_suffix (a : Args) (sa : StartArg) (s0 st' : Start)
    (hctor0 : ctor a .none = .ok s0) (hctor : ctor a sa = .ok st')
    (main : Nat → List Nat) (hmain : ∀ e, (main e).length = a.N) (side : Nat → Nat → List Nat)
    (hbefore : beforeC a.budget st'.epoch st'.update st'.sample) :
    ∃ (evs evs' pre : List Ev) (n0 : Nat),
      (∀ fuel, n0 < fuel → trainLoop a main side fuel (initSt s0) = some evs) ∧
      (∀ fuel, n0 < fuel → trainLoop a main side fuel (initSt st') = some evs') ∧
      evs = pre ++ evs' ∧
      evs'.head? = some (Ev.setEpoch st'.epoch) ∧
      evs' = evs.dropWhile (fun ev => ev != Ev.setEpoch st'.epoch) ∧
      epochsOf pre = List.range st'.epoch ∧
      (0 < st'.epoch → ∀ fuel, n0 < fuel →
        trainLoop (c06x_withEpochs a st'.epoch) main side fuel (initSt s0) = some pre) := by
  obtain ⟨hst, _⟩ := ctor_accepted_is_epoch_boundary a sa st' hctor
  obtain ⟨hB, _, hS, hSN⟩ := C04.ctor_ok_geometry a _ _ hctor
  have hs0 : s0 = ⟨0, 0, 0⟩ := by
    have := (C04.ctor_ok a _ s0 hctor0).2.2
    simp only [startOf, Except.ok.injEq] at this
    exact this.symm
  subst hs0
  have hmain' : ∀ e, spe a ≤ (main e).length := fun e => by rw [hmain e]; exact hSN
  generalize hE : st'.epoch = e' at hst hbefore ⊢
  subst hst
  simp only at hbefore ⊢
  obtain ⟨evs, evs', pre, hl0, hl', hsplit, h1, h5⟩ := c06x_resume_l1_stream a main side hB hS e' hbefore
  have ht0 := trainLoop_of_l1 a main side hB hS hmain' _ _ _ hl0
  have ht' := trainLoop_of_l1 a main side hB hS hmain' _ _ _ hl'
  obtain ⟨body, hbody⟩ := c06x_trainLoop_head a main side _ _ _ (ht' _ (Nat.lt_succ_self _))
  have hE : (initSt ⟨e', upe a * e', spe a * e'⟩).epoch = e' := rfl
  rw [hE] at hbody
  refine ⟨evs, evs', pre,
    max (meas a (l1Start main ⟨0, 0, 0⟩)) (meas a (l1Start main ⟨e', upe a * e', spe a * e'⟩)),
    fun fuel hf => ht0 fuel (by omega), fun fuel hf => ht' fuel (by omega), hsplit, by rw [hbody]; rfl, ?_, h1, ?_⟩
  · rw [hsplit, hbody, c06x_dropWhile_of_split pre body _ h1]
  · intro hpos fuel hf
    exact trainLoop_of_l1 (c06x_withEpochs a e') main side hB hS hmain' _ _ _ (h5 hpos) fuel (by omega)

/-- non-vacuity of `resume_stream_is_the_suffix` at the trivial checkpoint: `start_update = 0` (with drop_last) is
    accepted as `(0, 0, 0)`, lies before the budget, and "resuming" from it is the run itself (`pre = []`);
    the non-trivial checkpoint `(1, 2, 4)` of the same configuration is evaluated in the example after
    `resume_is_the_suffix_after_checkpoint` -/
example :
    let a : Args := ⟨5, 5, 2, true, none, .updates 5, [⟨none, some 3, none, none, 2, 3⟩]⟩
    let main : Nat → List Nat := fun e => if e % 2 = 0 then [0, 1, 2, 3, 4] else [4, 3, 2, 1, 0]
    let side : Nat → Nat → List Nat := fun _ u => [u % 3, 1]
    ctor a (.update 0) = .ok ⟨0, 0, 0⟩ ∧ beforeC a.budget 0 0 0 ∧
    (trainLoop a main side 10 (initSt ⟨0, 0, 0⟩)).map (fun evs => evs.dropWhile (fun ev => ev != Ev.setEpoch 0))
      = trainLoop a main side 10 (initSt ⟨0, 0, 0⟩) ∧
    (trainLoop a main side 10 (initSt ⟨0, 0, 0⟩)).map List.length = some 15 := by
  refine ⟨rfl, by simp [beforeC], by decide, by decide⟩

/-- **All facts about a resume, in one statement** (the theorems below are its readable parts).
    Domain: any argument set the constructor accepts (`hctor0`), any checkpoint argument `sa` — none, `start_epoch`,
    `start_update` or `start_sample` — that the constructor accepts (`hctor`; by `ctor_accepted_is_epoch_boundary` it
    is then on an epoch boundary, `st'.epoch = 0` included) and that lies strictly before the budget (`hbefore`), any
    main sampler that yields `len(main_sampler)` indices of its data source per epoch (`hmain`, `hmainlt`: as in
    C04), any side samplers. -/
theorem resume_checkpoint_facts (a : Args) (sa : StartArg) (s0 st' : Start)
    (hctor0 : ctor a .none = .ok s0) (hctor : ctor a sa = .ok st')
    (main : Nat → List Nat) (hmain : ∀ e, (main e).length = a.N)
    (hmainlt : ∀ e x, x ∈ main e → x < a.mainDsLen) (side : Nat → Nat → List Nat)
    (hbefore : beforeC a.budget st'.epoch st'.update st'.sample) :
    ∃ (evs evs' pre : List Ev) (fin : St) (n0 : Nat),
      -- both loops end, with one stream each
      (∀ fuel, n0 < fuel → trainLoop a main side fuel (initSt s0) = some evs) ∧
      (∀ fuel, n0 < fuel → trainLoop a main side fuel (initSt st') = some evs') ∧
      -- the uninterrupted stream is `pre` followed by the resumed stream
      evs = pre ++ evs' ∧
      -- `pre` is the part before the checkpoint:
      epochsOf pre = List.range st'.epoch ∧
      countMain a.mainDsLen pre = st'.sample ∧ st'.sample = spe a * st'.epoch ∧
      countFull a.mainDsLen pre = st'.update ∧ st'.update = upe a * st'.epoch ∧
      mainProj a.mainDsLen pre = epochConcat a main 0 st'.epoch ∧
      (0 < st'.epoch → ∀ fuel, n0 < fuel →
        trainLoop (c06x_withEpochs a st'.epoch) main side fuel (initSt s0) = some pre) ∧
      -- both loops `return` with the same loop variables, at the budget
      (∀ fuel, n0 < fuel → c06x_trainLoopSt a main side fuel (initSt s0) = some fin) ∧
      (∀ fuel, n0 < fuel → c06x_trainLoopSt a main side fuel (initSt st') = some fin) ∧
      budgetReached a.budget fin.epoch fin.update fin.sample = true ∧
      fin.update = countFull a.mainDsLen evs ∧ fin.sample = countMain a.mainDsLen evs := by
  obtain ⟨hst, _⟩ := ctor_accepted_is_epoch_boundary a sa st' hctor
  obtain ⟨hB, _, hS, hSN⟩ := C04.ctor_ok_geometry a _ _ hctor
  have hs0 : s0 = ⟨0, 0, 0⟩ := by
    have := (C04.ctor_ok a _ s0 hctor0).2.2
    simp only [startOf, Except.ok.injEq] at this
    exact this.symm
  subst hs0
  have hmain' : ∀ e, spe a ≤ (main e).length := fun e => by rw [hmain e]; exact hSN
  generalize hE : st'.epoch = e' at hst hbefore ⊢
  subst hst
  simp only at hbefore ⊢
  obtain ⟨evs, evs', pre, f, hl0, hl', hsplit, h1, h2, h3, h4, h5, hf0, hf', hfb, hfu, hfs⟩ :=
    c06x_resume_l1 a main side hB hS hmain' hmainlt e' hbefore
  have ht0 := trainLoop_of_l1 a main side hB hS hmain' _ _ _ hl0
  have ht' := trainLoop_of_l1 a main side hB hS hmain' _ _ _ hl'
  have hs0 := c06x_trainLoopSt_of_l1 a main side hB hS hmain' _ _ _ hf0
  have hs' := c06x_trainLoopSt_of_l1 a main side hB hS hmain' _ _ _ hf'
  refine ⟨evs, evs', pre, stOf f,
    max (meas a (l1Start main ⟨0, 0, 0⟩)) (meas a (l1Start main ⟨e', upe a * e', spe a * e'⟩)),
    fun fuel hf => ht0 fuel (by omega), fun fuel hf => ht' fuel (by omega), hsplit, h1, h2, trivial, h3, trivial, h4,
    ?_, fun fuel hf => hs0 fuel (by omega), fun fuel hf => hs' fuel (by omega), hfb, hfu, hfs⟩
  intro hpos fuel hf
  exact trainLoop_of_l1 (c06x_withEpochs a e') main side hB hS hmain' _ _ _ (h5 hpos) fuel (by omega)

/-- **C06, the stream clause, one theorem for `start_epoch`, `start_update`, `start_sample` (and no checkpoint).**
    For every accepted configuration and every accepted checkpoint strictly before the budget, both the
    uninterrupted and the resumed loop end, and the uninterrupted stream is `pre ++ resumed stream` where `pre` is
    pinned down as the part of the uninterrupted run before the checkpoint:
    * the resumed stream starts with `set_epoch(st'.epoch)` and `pre` announces exactly the epochs `0, …, st'.epoch-1`;
      hence the cut is at the FIRST `set_epoch(st'.epoch)` of the uninterrupted stream:
      `resumed = uninterrupted.dropWhile (· ≠ set_epoch(st'.epoch))`, i.e. the same main indices with the same
      epoch numbers, the same side passes at the same positions and the same end;
    * `pre` contains exactly `st'.sample = samples_per_epoch · st'.epoch` main samples and
      `st'.update = updates_per_epoch · st'.epoch` main batches (the checkpoint's counters);
    * the main-sampler part of `pre` is `set_epoch(0), batches of epoch 0, …, set_epoch(e'-1), batches of epoch e'-1`;
    * for `st'.epoch > 0`, `pre` is the complete stream of the same configuration run with `epochs = st'.epoch`.
    The checkpoint `st'.epoch = 0` is included (`pre = []`). -/
theorem resume_is_the_suffix_after_checkpoint (a : Args) (sa : StartArg) (s0 st' : Start)
    (hctor0 : ctor a .none = .ok s0) (hctor : ctor a sa = .ok st')
    (main : Nat → List Nat) (hmain : ∀ e, (main e).length = a.N)
    (hmainlt : ∀ e x, x ∈ main e → x < a.mainDsLen) (side : Nat → Nat → List Nat)
    (hbefore : beforeC a.budget st'.epoch st'.update st'.sample) :
    ∃ (evs evs' pre : List Ev) (n0 : Nat),
      (∀ fuel, n0 < fuel → trainLoop a main side fuel (initSt s0) = some evs) ∧
      (∀ fuel, n0 < fuel → trainLoop a main side fuel (initSt st') = some evs') ∧
      evs = pre ++ evs' ∧
      evs'.head? = some (Ev.setEpoch st'.epoch) ∧
      evs' = evs.dropWhile (fun ev => ev != Ev.setEpoch st'.epoch) ∧
      epochsOf pre = List.range st'.epoch ∧
      countMain a.mainDsLen pre = st'.sample ∧ st'.sample = spe a * st'.epoch ∧
      countFull a.mainDsLen pre = st'.update ∧ st'.update = upe a * st'.epoch ∧
      mainProj a.mainDsLen pre = epochConcat a main 0 st'.epoch ∧
      (0 < st'.epoch → ∀ fuel, n0 < fuel →
        trainLoop (c06x_withEpochs a st'.epoch) main side fuel (initSt s0) = some pre) := by
  obtain ⟨evs, evs', pre, fin, n0, ht0, ht', hsplit, h1, h2, h2', h3, h3', h4, h5, _⟩ :=
    resume_checkpoint_facts a sa s0 st' hctor0 hctor main hmain hmainlt side hbefore
  obtain ⟨body, hbody⟩ := c06x_trainLoop_head a main side _ _ _ (ht' (n0 + 1) (by omega))
  have hE : (initSt st').epoch = st'.epoch := rfl
  rw [hE] at hbody
  refine ⟨evs, evs', pre, n0, ht0, ht', hsplit, by rw [hbody]; rfl, ?_, h1, h2, h2', h3, h3', h4, h5⟩
  rw [hsplit, hbody, c06x_dropWhile_of_split pre body _ h1]

/-- non-vacuity of `resume_is_the_suffix_after_checkpoint` / `resume_checkpoint_facts`: N=5, B=2, drop_last
    (`samples_per_epoch = 4`, `updates_per_epoch = 2`), updates budget 5 (the run ends in the middle of epoch 2), a
    side config due every 3 updates whose sampler depends on the update number, an epoch-dependent main sampler.
    `start_sample = 4`, `start_update = 2` and `start_epoch = 1` are all accepted as the checkpoint `(1, 2, 4)`,
    which lies before the budget; the resumed stream is the uninterrupted one from `set_epoch(1)` on (side pass
    `5, 6` after update 3 included), and the part before it is the run with `epochs = 1` = `epochConcat a main 0 1`. -/
example :
    let a : Args := ⟨5, 5, 2, true, none, .updates 5, [⟨none, some 3, none, none, 2, 3⟩]⟩
    let main : Nat → List Nat := fun e => if e % 2 = 0 then [0, 1, 2, 3, 4] else [4, 3, 2, 1, 0]
    let side : Nat → Nat → List Nat := fun _ u => [u % 3, 1]
    let evs : List Ev :=
      [.setEpoch 0, .idx false 0, .idx true 1, .idx false 2, .idx true 3,
       .setEpoch 1, .idx false 4, .idx true 3, .idx false 5, .idx true 6, .idx false 2, .idx true 1,
       .setEpoch 2, .idx false 0, .idx true 1]
    let evs' : List Ev :=
      [.setEpoch 1, .idx false 4, .idx true 3, .idx false 5, .idx true 6, .idx false 2, .idx true 1,
       .setEpoch 2, .idx false 0, .idx true 1]
    let pre : List Ev := [.setEpoch 0, .idx false 0, .idx true 1, .idx false 2, .idx true 3]
    ctor a .none = .ok ⟨0, 0, 0⟩ ∧ ctor a (.sample 4) = .ok ⟨1, 2, 4⟩ ∧ ctor a (.update 2) = .ok ⟨1, 2, 4⟩ ∧
    ctor a (.epoch 1) = .ok ⟨1, 2, 4⟩ ∧
    (∀ e, (main e).length = a.N) ∧ (∀ e x, x ∈ main e → x < a.mainDsLen) ∧
    beforeC a.budget 1 2 4 ∧
    trainLoop a main side 10 (initSt ⟨0, 0, 0⟩) = some evs ∧
    trainLoop a main side 10 (initSt ⟨1, 2, 4⟩) = some evs' ∧
    evs = pre ++ evs' ∧ evs' = evs.dropWhile (fun ev => ev != Ev.setEpoch 1) ∧
    epochsOf pre = List.range 1 ∧ countMain a.mainDsLen pre = 4 ∧ countFull a.mainDsLen pre = 2 ∧
    mainProj a.mainDsLen pre = epochConcat a main 0 1 ∧
    trainLoop (c06x_withEpochs a 1) main side 10 (initSt ⟨0, 0, 0⟩) = some pre := by
  refine ⟨rfl, rfl, rfl, rfl, ?_, ?_, by simp [beforeC], by decide, by decide, by decide, by decide, by decide,
    by decide, by decide, by decide, by decide⟩
  · intro e; by_cases h : e % 2 = 0 <;> simp [h]
  · intro e x hx
    by_cases h : e % 2 = 0 <;> simp [h] at hx ⊢ <;> omega

/-- **C06, "the same stopping point".** Under the same hypotheses: the resumed stream is a (non-empty) suffix of
    the uninterrupted one, so both end with the same last event; and both `_training_loop`s `return` with the SAME
    loop variables `fin` (epoch, update, sample, sample_in_epoch, sample_in_update, sample_at_last_update), which
    have reached the budget; `fin.update` / `fin.sample` are the numbers of main batches / main samples of the
    uninterrupted stream = the checkpoint's counters plus what the resumed stream contains. -/
theorem resume_same_stopping_point (a : Args) (sa : StartArg) (s0 st' : Start)
    (hctor0 : ctor a .none = .ok s0) (hctor : ctor a sa = .ok st')
    (main : Nat → List Nat) (hmain : ∀ e, (main e).length = a.N)
    (hmainlt : ∀ e x, x ∈ main e → x < a.mainDsLen) (side : Nat → Nat → List Nat)
    (hbefore : beforeC a.budget st'.epoch st'.update st'.sample) :
    ∃ (evs evs' : List Ev) (fin : St) (n0 : Nat),
      (∀ fuel, n0 < fuel → trainLoop a main side fuel (initSt s0) = some evs) ∧
      (∀ fuel, n0 < fuel → trainLoop a main side fuel (initSt st') = some evs') ∧
      evs' <:+ evs ∧ evs' ≠ [] ∧ evs.getLast? = evs'.getLast? ∧
      (∀ fuel, n0 < fuel → c06x_trainLoopSt a main side fuel (initSt s0) = some fin) ∧
      (∀ fuel, n0 < fuel → c06x_trainLoopSt a main side fuel (initSt st') = some fin) ∧
      budgetReached a.budget fin.epoch fin.update fin.sample = true ∧
      fin.update = countFull a.mainDsLen evs ∧ fin.update = st'.update + countFull a.mainDsLen evs' ∧
      fin.sample = countMain a.mainDsLen evs ∧ fin.sample = st'.sample + countMain a.mainDsLen evs' := by
  obtain ⟨evs, evs', pre, fin, n0, ht0, ht', hsplit, _, h2, _, h3, _, _, _, hs0, hs', hfb, hfu, hfs⟩ :=
    resume_checkpoint_facts a sa s0 st' hctor0 hctor main hmain hmainlt side hbefore
  have hne : evs' ≠ [] := by
    intro h
    have := ht' (n0 + 1) (by omega)
    rw [h] at this
    simp only [trainLoop] at this
    split at this
    · simp at this
    · rcases hr : trainLoop a main side n0 _ with _ | rest
      · rw [hr] at this; simp at this
      · rw [hr] at this; simp at this
  refine ⟨evs, evs', fin, n0, ht0, ht', ⟨pre, hsplit.symm⟩, hne, ?_, hs0, hs', hfb, hfu, ?_, hfs, ?_⟩
  · rw [hsplit, List.getLast?_append, List.getLast?_eq_some_getLast hne]
    rfl
  · rw [hfu, hsplit, countFull_append, h3]
  · rw [hfs, hsplit, countMain_append, h2]

/-- non-vacuity of `resume_same_stopping_point` (same instance as above): both loops return with
    `epoch = 2, update = 5` (the updates budget), `sample = 10`, two samples into epoch 2, and the same last event;
    `5 = 2 + 3` main batches, `10 = 4 + 6` main samples -/
example :
    let a : Args := ⟨5, 5, 2, true, none, .updates 5, [⟨none, some 3, none, none, 2, 3⟩]⟩
    let main : Nat → List Nat := fun e => if e % 2 = 0 then [0, 1, 2, 3, 4] else [4, 3, 2, 1, 0]
    let side : Nat → Nat → List Nat := fun _ u => [u % 3, 1]
    c06x_trainLoopSt a main side 10 (initSt ⟨0, 0, 0⟩) = some ⟨2, 5, 10, 2, 0, 10⟩ ∧
    c06x_trainLoopSt a main side 10 (initSt ⟨1, 2, 4⟩) = some ⟨2, 5, 10, 2, 0, 10⟩ ∧
    budgetReached a.budget 2 5 10 = true ∧
    (trainLoop a main side 10 (initSt ⟨0, 0, 0⟩)).map (fun evs => (evs.getLast?, countFull 5 evs, countMain 5 evs))
      = some (some (.idx true 1), 5, 10) ∧
    (trainLoop a main side 10 (initSt ⟨1, 2, 4⟩)).map (fun evs => (evs.getLast?, countFull 5 evs, countMain 5 evs))
      = some (some (.idx true 1), 3, 6) := by
  refine ⟨by decide, by decide, by decide, by decide, by decide⟩

/-- **C06 for `__iter__` itself**: iterating the sampler constructed with an accepted checkpoint strictly before the
    budget yields exactly the uninterrupted iteration from its first `set_epoch(st'.epoch)` on -/
theorem iter_resume_is_the_suffix (a : Args) (sa : StartArg) (s0 st' : Start)
    (hctor0 : ctor a .none = .ok s0) (hctor : ctor a sa = .ok st')
    (main : Nat → List Nat) (hmain : ∀ e, (main e).length = a.N) (side : Nat → Nat → List Nat)
    (hbefore : beforeC a.budget st'.epoch st'.update st'.sample) :
    ∃ (evs evs' : List Ev) (n0 : Nat),
      (∀ fuel, n0 < fuel → iter a s0 main side fuel = .ok evs) ∧
      (∀ fuel, n0 < fuel → iter a st' main side fuel = .ok evs') ∧
      evs' = evs.dropWhile (fun ev => ev != Ev.setEpoch st'.epoch) := by
  obtain ⟨evs, evs', pre, n0, ht0, ht', _, _, hdw, _⟩ :=
    resume_stream_is_the_suffix a sa s0 st' hctor0 hctor main hmain side hbefore
  have hnz : zeroBudget a.budget = false := by
    unfold beforeC at hbefore
    unfold zeroBudget
    cases hbud : a.budget <;> rw [hbud] at hbefore <;> simp only at hbefore ⊢ <;>
      simp only [beq_eq_false_iff_ne, ne_eq] <;> omega
  refine ⟨evs, evs', n0, ?_, ?_, hdw⟩
  · intro fuel hf
    simp only [iter, hnz, Bool.false_eq_true, if_false, ht0 fuel hf]
  · intro fuel hf
    simp only [iter, hnz, Bool.false_eq_true, if_false, ht' fuel hf]

/-- non-vacuity of `iter_resume_is_the_suffix` (same instance; `start_update = 2`) -/
example :
    let a : Args := ⟨5, 5, 2, true, none, .updates 5, [⟨none, some 3, none, none, 2, 3⟩]⟩
    let main : Nat → List Nat := fun e => if e % 2 = 0 then [0, 1, 2, 3, 4] else [4, 3, 2, 1, 0]
    let side : Nat → Nat → List Nat := fun _ u => [u % 3, 1]
    ctor a (.update 2) = .ok ⟨1, 2, 4⟩ ∧
    iter a ⟨0, 0, 0⟩ main side 10 = .ok
      [.setEpoch 0, .idx false 0, .idx true 1, .idx false 2, .idx true 3,
       .setEpoch 1, .idx false 4, .idx true 3, .idx false 5, .idx true 6, .idx false 2, .idx true 1,
       .setEpoch 2, .idx false 0, .idx true 1] ∧
    iter a ⟨1, 2, 4⟩ main side 10 = .ok
      [.setEpoch 1, .idx false 4, .idx true 3, .idx false 5, .idx true 6, .idx false 2, .idx true 1,
       .setEpoch 2, .idx false 0, .idx true 1] := by
  refine ⟨rfl, rfl, rfl⟩

end KDVerif.C06
