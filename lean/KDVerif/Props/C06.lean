import KDVerif.Model.Interleaved
namespace KDVerif.C06
open KDVerif.Interleaved

theorem placeholder : True := trivial

end KDVerif.C06
