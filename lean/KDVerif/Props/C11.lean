/-
C11 — Sample-level mix returns a convex combination with matching label weights.

`getitemXClass` (Model/MixWrapper.lean) mirrors `KDMixWrapper.getitem_xclass`; `unifyLoop` is the code's
`pad_or_cut_end` loop, `unifyClosed` its closed form; `modeGet` is what ModeWrapper calls for the request
layouts "x class", "class x", "x", "class". All statements hold for every dataset (size, class count, sample
shapes of any rank), configuration, index and tape; the generator's contract enters as `TapeOk`.
-/
import KDVerif.Lemmas.MixWrapper

namespace KDVerif.C11
open KDVerif.MixWrapper

/-! ### non-vacuity witness shared by the theorems below
A seeded call on samples of different shape (partner is padded in dim 0 and cut in dim 1). -/

def exCfg : Cfg := ⟨1, 0, 1, some (4/5), none, some .padOrCutEnd⟩
def exTen (s a b : Nat) : Ten := ⟨2, fun d => if d = 0 then a else b, fun ι => ((s * 100 + ι 0 * 10 + ι 1 : Nat) : Rat)⟩
def exDS : DS := ⟨2, fun k => if k = 0 then exTen 1 3 2 else exTen 2 2 4, fun k => k, 2⟩
def exTape : Tape := [.unif (1/4), .int 2 1, .beta (4/5) (1/4)]

/-- label `[1/4, 3/4]`, shape `(3, 2)`; inside the partner `1/4·111 + 3/4·211 = 186`, in the padded row
    `1/4·121 + 3/4·0` -/
theorem ex_values : (match getitemXClass exCfg exTape exDS 0 with
    | .ok (x, l) => l == [1/4, 3/4] && x.shape 0 == 3 && x.shape 1 == 2 &&
        x.el (fun d => if d = 0 then 1 else 1) == 186 && x.el (fun d => if d = 0 then 2 else 1) == 121/4
    | .error _ => false) = true := by decide +kernel

theorem ex_ok : ∃ x' l', getitemXClass exCfg exTape exDS 0 = .ok (x', l') := by
  have h := ex_values
  cases hc : getitemXClass exCfg exTape exDS 0 with
  | ok r => exact ⟨r.1, r.2, rfl⟩
  | error e => rw [hc] at h; cases h

theorem ex_tapeOk : TapeOk exTape := by
  intro d hd
  simp only [exTape, List.mem_cons, List.not_mem_nil, or_false] at hd
  rcases hd with h | h | h <;> subst h <;> simp only [Draw.Ok]
  · constructor <;> grind
  · omega
  · constructor <;> grind

/-- **The per-dimension loop is the closed form and yields exactly `x`'s shape.** For tensors of equal rank
    the sequential pad/cut loop of the code returns a tensor with `x`'s rank and extents whose element at any
    index inside `x`'s extents is `x2`'s element there if the index also lies inside `x2`, and `0` otherwise
    (padding and cutting happen at the END of every dimension, dimensions do not interfere). -/
theorem unify_shape (x x2 : Ten) (h : x.rank = x2.rank) :
    (unifyLoop x x2).rank = x.rank ∧
    (∀ d, d < x.rank → (unifyLoop x x2).shape d = x.shape d) ∧
    (∀ ι, InRange x.rank x.shape ι →
      (unifyLoop x x2).el ι = if InRange x2.rank x2.shape ι then x2.el ι else 0) := by
  have inv := loop_inv x x2 h x2.rank (Nat.le_refl _)
  have hl := deltas_length x x2 h
  unfold unifyLoop
  simp only [hl]
  refine ⟨by rw [inv.rank, h], ?_, ?_⟩
  · intro d hd
    rw [h] at hd
    rw [inv.shape d hd]
    simp [hd]
  · intro ι hι
    apply inv.el
    intro d hd
    rw [inv.shape d hd]
    simp only [hd, if_true]
    exact hι d (h ▸ hd)

example : ∃ x x2 : Ten, x.rank = x2.rank ∧ x.shape 0 ≠ x2.shape 0 :=
  ⟨⟨2, fun _ => 3, fun _ => 1⟩, ⟨2, fun _ => 5, fun _ => 2⟩, rfl, by decide⟩

/-- **Loop = closed form** (same rank, same extents, same elements on every valid index). -/
theorem unify_loop_eq_closed_form (x x2 : Ten) (h : x.rank = x2.rank) :
    (unifyLoop x x2).rank = (unifyClosed x x2).rank ∧
    (∀ d, d < x.rank → (unifyLoop x x2).shape d = (unifyClosed x x2).shape d) ∧
    (∀ ι, InRange x.rank x.shape ι → (unifyLoop x x2).el ι = (unifyClosed x x2).el ι) := by
  obtain ⟨h1, h2, h3⟩ := unify_shape x x2 h
  refine ⟨by rw [h1, h]; rfl, ?_, ?_⟩
  · intro d hd
    rw [h2 d hd]
    have : d < x2.rank := h ▸ hd
    simp [unifyClosed, this]
  · intro ι hι
    rw [h3 ι hι]
    rfl

example : ∃ x x2 : Ten, x.rank = x2.rank := ⟨⟨1, fun _ => 3, fun _ => 1⟩, ⟨1, fun _ => 5, fun _ => 2⟩, rfl⟩

/-- the two ways a `getitem_xclass` call can succeed -/
inductive Outcome (cfg : Cfg) (tape : Tape) (ds : DS) (i : Nat) (x' : Ten) (l' : List Rat) : Prop where
  /-- nothing applied: the sample itself and its one-hot label (one draw consumed) -/
  | untouched (a : Rat) (htape : tape = [.unif a]) (hgt : a > cfg.totalP) (hx : x' = ds.x i)
      (hl : oneHot ds.nClasses (ds.cls i) = .ok l')
  /-- mixup with partner `j` and weight `lam` — the SAME `j` and `lam` for data and label -/
  | mixed (a : Rat) (j : Nat) (alpha lam : Rat) (x2' : Ten) (c1 c2 : List Rat)
      (htape : tape = [.unif a, .int ds.len j, .beta alpha lam]) (hle : ¬ a > cfg.totalP)
      (hnocut : ¬ a < cfg.cutmixP)
      (hunify : unifyWith cfg (ds.x i) (ds.x j) = .ok x2')
      (hx : x' = mixTen lam (ds.x i) x2')
      (hc1 : oneHot ds.nClasses (ds.cls i) = .ok c1) (hc2 : oneHot ds.nClasses (ds.cls j) = .ok c2)
      (hl : l' = mixRow lam c1 c2)

/-- **Untouched or convex combination, one draw for data and label.** Every successful call either returns
    the sample untouched with a one-hot label, or `x' = λ·x_i + (1-λ)·unify(x_j)` and
    `label' = λ·e_{c_i} + (1-λ)·e_{c_j}` with the same partner `j` and the same weight `λ`, which are the
    second and third draw of the call's generator. -/
theorem mix_is_convex {cfg tape ds i x' l'} (h : getitemXClass cfg tape ds i = .ok (x', l')) :
    Outcome cfg tape ds i x' l' := by
  unfold getitemXClass at h
  split at h
  · rename_i apply t1
    by_cases hgt : apply > cfg.totalP
    · simp only [hgt, if_true] at h
      split at h
      · rename_i _ oh hoh
        simp only [Except.ok.injEq, Prod.mk.injEq] at h
        obtain ⟨hx, hl⟩ := h
        subst hl
        exact .untouched apply rfl hgt hx.symm hoh
      · cases h
      · cases h
    · simp only [hgt, if_false] at h
      split at h
      · rename_i hi idx2 t2
        by_cases hhi : hi ≠ ds.len
        · simp [hhi] at h
        · simp only [hhi, if_false] at h
          have hhi' : hi = ds.len := by simpa using hhi
          subst hhi'
          split at h
          · rename_i cls cls2 hc1 hc2
            split at h
            · cases h
            · rename_i alpha halpha
              split at h
              · rename_i a lam
                by_cases ha : a ≠ alpha
                · simp [ha] at h
                · simp only [ha, if_false] at h
                  have ha' : a = alpha := by simpa using ha
                  subst ha'
                  by_cases hcut : apply < cfg.cutmixP
                  · simp [hcut] at h
                  · simp only [hcut, decide_false, Bool.false_eq_true, if_false] at h
                    split at h
                    · cases h
                    · rename_i x2' hun
                      simp only [Except.ok.injEq, Prod.mk.injEq] at h
                      obtain ⟨hx, hl⟩ := h
                      exact .mixed apply idx2 a lam x2' cls cls2 rfl hgt hcut hun hx.symm hc1 hc2 hl.symm
              · cases h
          · cases h
          · cases h
      · cases h
  · cases h


example : ∃ x' l', Outcome exCfg exTape exDS 0 x' l' := by
  obtain ⟨x', l', h⟩ := ex_ok
  exact ⟨x', l', mix_is_convex h⟩

/-- pointwise reading of the mixed case: every element is the convex combination, and where shapes were
    unified (`pad_or_cut_end`, equal ranks) the partner contributes its own element inside its extents and `0`
    outside -/
theorem mixed_elements {cfg : Cfg} {ds : DS} {i j : Nat} {lam : Rat} {x2' : Ten}
    (hmode : cfg.unify = some .padOrCutEnd) (hrank : (ds.x i).rank = (ds.x j).rank)
    (hunify : unifyWith cfg (ds.x i) (ds.x j) = .ok x2') :
    let x' := mixTen lam (ds.x i) x2'
    x'.rank = (ds.x i).rank ∧ x'.shape = (ds.x i).shape ∧
    ∀ ι, InRange (ds.x i).rank (ds.x i).shape ι →
      x'.el ι = lam * (ds.x i).el ι +
        (1 - lam) * (if InRange (ds.x j).rank (ds.x j).shape ι then (ds.x j).el ι else 0) := by
  unfold unifyWith at hunify
  simp only [hmode, Except.ok.injEq] at hunify
  subst hunify
  refine ⟨rfl, rfl, ?_⟩
  intro ι hι
  simp only [mixTen]
  rw [(unify_shape (ds.x i) (ds.x j) hrank).2.2 ι hι]

example : ∃ (cfg : Cfg), cfg.unify = some .padOrCutEnd := ⟨⟨1, 0, 1, some 1, none, some .padOrCutEnd⟩, rfl⟩

/-- **Label vectors stay on the simplex**: entries non-negative, sum one, length `n_classes` — for the
    untouched and for the mixed outcome, for every Beta draw in `[0,1]`. -/
theorem label_simplex {cfg tape ds i x' l'} (h : getitemXClass cfg tape ds i = .ok (x', l'))
    (hok : TapeOk tape) : l'.length = ds.nClasses ∧ (∀ v ∈ l', 0 ≤ v) ∧ l'.sum = 1 := by
  cases mix_is_convex h with
  | untouched a htape hgt hx hl =>
    obtain ⟨_, hlen, hnn, hsum, _⟩ := oneHot_ok hl
    exact ⟨hlen, hnn, hsum⟩
  | mixed a j alpha lam x2' c1 c2 htape hle hnocut hunify hx hc1 hc2 hl =>
    obtain ⟨_, hlen1, hnn1, hsum1, _⟩ := oneHot_ok hc1
    obtain ⟨_, hlen2, hnn2, hsum2, _⟩ := oneHot_ok hc2
    have hlam : 0 ≤ lam ∧ lam ≤ 1 := by
      have := hok (.beta alpha lam) (by rw [htape]; simp)
      exact this
    subst hl
    refine ⟨?_, ?_, ?_⟩
    · simp [mixRow, hlen1, hlen2]
    · exact mixRow_nonneg lam hlam.1 hlam.2 c1 c2 hnn1 hnn2
    · rw [mixRow_sum lam c1 c2 (by rw [hlen1, hlen2]), hsum1, hsum2]
      grind


example : ∃ x' l', getitemXClass exCfg exTape exDS 0 = .ok (x', l') ∧ l'.length = 2 ∧ l'.sum = 1 := by
  obtain ⟨x', l', h⟩ := ex_ok
  have := label_simplex h ex_tapeOk
  exact ⟨x', l', h, this.1, this.2.2⟩

/-- **A probability-one configuration mixes every sample**: with `total_p = 1` the first draw (in `[0,1)`)
    never exceeds `total_p`, so every successful call is of the mixed form. -/
theorem p_one_always_mixes {cfg tape ds i x' l'} (h : getitemXClass cfg tape ds i = .ok (x', l'))
    (hok : TapeOk tape) (hp : cfg.totalP = 1) :
    ∃ a j alpha lam x2', tape = [.unif a, .int ds.len j, .beta alpha lam] ∧ j < ds.len ∧
      unifyWith cfg (ds.x i) (ds.x j) = .ok x2' ∧ x' = mixTen lam (ds.x i) x2' := by
  cases mix_is_convex h with
  | untouched a htape hgt hx hl =>
    have : 0 ≤ a ∧ a < 1 := hok (.unif a) (by rw [htape]; simp)
    rw [hp] at hgt
    have : a < 1 := this.2
    exact absurd hgt (by grind)
  | mixed a j alpha lam x2' c1 c2 htape hle hnocut hunify hx hc1 hc2 hl =>
    have hj : j < ds.len := hok (.int ds.len j) (by rw [htape]; simp)
    exact ⟨a, j, alpha, lam, x2', htape, hj, hunify, hx⟩


example : ∃ x' l', getitemXClass exCfg exTape exDS 0 = .ok (x', l') ∧
    ∃ a j alpha lam, exTape = [.unif a, .int exDS.len j, .beta alpha lam] ∧ j < exDS.len := by
  obtain ⟨x', l', h⟩ := ex_ok
  obtain ⟨a, j, alpha, lam, _, h1, h2, _⟩ := p_one_always_mixes h ex_tapeOk rfl
  exact ⟨x', l', h, a, j, alpha, lam, h1, h2⟩

/-- **With a seed the image-only, label-only and joint requests describe the same draw.** When every
    `getitem_xclass` call of a request sees the same tape (generator seeded with `seed + idx`), the four
    request layouts return exactly the components of that one call. -/
theorem seeded_requests_agree {cfg : Cfg} {tapes : Nat → Tape} {t : Tape} {ds : DS} {i : Nat} {x' : Ten}
    {l' : List Rat} (hseed : ∀ k, tapes k = t) (h : getitemXClass cfg t ds i = .ok (x', l')) :
    modeGet cfg tapes ds i .xclass = .ok (some x', some l') ∧
    modeGet cfg tapes ds i .classx = .ok (some x', some l') ∧
    modeGet cfg tapes ds i .x = .ok (some x', none) ∧
    modeGet cfg tapes ds i .cls = .ok (none, some l') := by
  simp [modeGet, hseed, h]


example : ∃ x' l', modeGet exCfg (fun _ => exTape) exDS 0 .classx = .ok (some x', some l') := by
  obtain ⟨x', l', h⟩ := ex_ok
  exact ⟨x', l', (seeded_requests_agree (fun _ => rfl) h).2.1⟩

/-- and a failing call fails for every layout in the same way -/
theorem seeded_requests_agree_error {cfg : Cfg} {tapes : Nat → Tape} {t : Tape} {ds : DS} {i : Nat} {e : Err}
    (hseed : ∀ k, tapes k = t) (h : getitemXClass cfg t ds i = .error e) (r : Req) :
    modeGet cfg tapes ds i r = .error e := by
  cases r <;> simp [modeGet, hseed, h]


/-- a cutmix draw (`apply < cutmix_p`) is a `NotImplementedError` for every layout -/
example : modeGet ⟨1/2, 1/2, 1, some 1, some 1, none⟩ (fun _ => [.unif (1/4), .int 2 1, .beta 1 (1/2)]) exDS 0 .cls =
    .error .notImplemented := by
  apply seeded_requests_agree_error (fun _ => rfl)
  have h : (match getitemXClass ⟨1/2, 1/2, 1, some 1, some 1, none⟩ [.unif (1/4), .int 2 1, .beta 1 (1/2)] exDS 0 with
      | .error e => e == .notImplemented | .ok _ => false) = true := by decide +kernel
  cases hc : getitemXClass ⟨1/2, 1/2, 1, some 1, some 1, none⟩ [.unif (1/4), .int 2 1, .beta 1 (1/2)] exDS 0 with
  | ok r => rw [hc] at h; cases h
  | error e =>
    rw [hc] at h
    simp only [beq_iff_eq] at h
    rw [h]

end KDVerif.C11
