/-
C11 — Sample-level mix returns a convex combination with matching label weights.

`getitemXClass` (Model/MixWrapper.lean) mirrors `KDMixWrapper.getitem_xclass`; `unifyLoop` is the code's
`pad_or_cut_end` loop, `unifyClosed` its closed form; `modeGet` is what ModeWrapper calls for the request
layouts "x class", "class x", "x", "class". All statements hold for every dataset (size, class count, sample
shapes of any rank), configuration, index and tape; the generator's contract enters as `TapeOk`.
-/
import KDVerif.Lemmas.MixWrapper
import KDVerif.Lemmas.C11Extra

namespace KDVerif.C11
open KDVerif.MixWrapper

/-! ### non-vacuity witness shared by the theorems below
A seeded call on samples of different shape (partner is padded in dim 0 and cut in dim 1). -/

def exCfg : Cfg := ⟨1, 0, 1, some (4/5), none, some .padOrCutEnd⟩
def exTen (s a b : Nat) : Ten := ⟨2, fun d => if d = 0 then a else b, fun ι => ((s * 100 + ι 0 * 10 + ι 1 : Nat) : Rat)⟩
def exDS : DS := ⟨2, fun k => if k = 0 then exTen 1 3 2 else exTen 2 2 4, fun k => k, 2⟩
def exTape : Tape := [.unif (1/4), .int 2 1, .beta (4/5) (1/4)]

/-- label `[1/4, 3/4]`, shape `(3, 2)`; inside the partner `1/4·111 + 3/4·211 = 186`, in the padded row
    `1/4·121 + 3/4·0` -/
theorem ex_values : (match getitemXClass exCfg exTape exDS 0 with
    | .ok (x, l) => l == [1/4, 3/4] && x.shape 0 == 3 && x.shape 1 == 2 &&
        x.el (fun d => if d = 0 then 1 else 1) == 186 && x.el (fun d => if d = 0 then 2 else 1) == 121/4
    | .error _ => false) = true := by decide +kernel

theorem ex_ok : ∃ x' l', getitemXClass exCfg exTape exDS 0 = .ok (x', l') := by
  have h := ex_values
  cases hc : getitemXClass exCfg exTape exDS 0 with
  | ok r => exact ⟨r.1, r.2, rfl⟩
  | error e => rw [hc] at h; cases h

theorem ex_tapeOk : TapeOk exTape := by
  intro d hd
  simp only [exTape, List.mem_cons, List.not_mem_nil, or_false] at hd
  rcases hd with h | h | h <;> subst h <;> simp only [Draw.Ok]
  · constructor <;> grind
  · omega
  · constructor <;> grind

/-- **The per-dimension loop is the closed form and yields exactly `x`'s shape.** For tensors of equal rank
    the sequential pad/cut loop of the code returns a tensor with `x`'s rank and extents whose element at any
    index inside `x`'s extents is `x2`'s element there if the index also lies inside `x2`, and `0` otherwise
    (padding and cutting happen at the END of every dimension, dimensions do not interfere). -/
theorem unify_shape (x x2 : Ten) (h : x.rank = x2.rank) :
    (unifyLoop x x2).rank = x.rank ∧
    (∀ d, d < x.rank → (unifyLoop x x2).shape d = x.shape d) ∧
    (∀ ι, InRange x.rank x.shape ι →
      (unifyLoop x x2).el ι = if InRange x2.rank x2.shape ι then x2.el ι else 0) := by
  have inv := loop_inv x x2 h x2.rank (Nat.le_refl _)
  have hl := deltas_length x x2 h
  unfold unifyLoop
  simp only [hl]
  refine ⟨by rw [inv.rank, h], ?_, ?_⟩
  · intro d hd
    rw [h] at hd
    rw [inv.shape d hd]
    simp [hd]
  · intro ι hι
    apply inv.el
    intro d hd
    rw [inv.shape d hd]
    simp only [hd, if_true]
    exact hι d (h ▸ hd)

example : ∃ x x2 : Ten, x.rank = x2.rank ∧ x.shape 0 ≠ x2.shape 0 :=
  ⟨⟨2, fun _ => 3, fun _ => 1⟩, ⟨2, fun _ => 5, fun _ => 2⟩, rfl, by decide⟩

/-- **Loop = closed form** (same rank, same extents, same elements on every valid index). -/
theorem unify_loop_eq_closed_form (x x2 : Ten) (h : x.rank = x2.rank) :
    (unifyLoop x x2).rank = (unifyClosed x x2).rank ∧
    (∀ d, d < x.rank → (unifyLoop x x2).shape d = (unifyClosed x x2).shape d) ∧
    (∀ ι, InRange x.rank x.shape ι → (unifyLoop x x2).el ι = (unifyClosed x x2).el ι) := by
  obtain ⟨h1, h2, h3⟩ := unify_shape x x2 h
  refine ⟨by rw [h1, h]; rfl, ?_, ?_⟩
  · intro d hd
    rw [h2 d hd]
    have : d < x2.rank := h ▸ hd
    simp [unifyClosed, this]
  · intro ι hι
    rw [h3 ι hι]
    rfl

example : ∃ x x2 : Ten, x.rank = x2.rank := ⟨⟨1, fun _ => 3, fun _ => 1⟩, ⟨1, fun _ => 5, fun _ => 2⟩, rfl⟩

/-- the two ways a `getitem_xclass` call can succeed -/
inductive Outcome (cfg : Cfg) (tape : Tape) (ds : DS) (i : Nat) (x' : Ten) (l' : List Rat) : Prop where
  /-- nothing applied: the sample itself and its one-hot label (one draw consumed) -/
  | untouched (a : Rat) (htape : tape = [.unif a]) (hgt : a > cfg.totalP) (hx : x' = ds.x i)
      (hl : oneHot ds.nClasses (ds.cls i) = .ok l')
  /-- mixup with partner `j` and weight `lam` — the SAME `j` and `lam` for data and label -/
  | mixed (a : Rat) (j : Nat) (alpha lam : Rat) (x2' : Ten) (c1 c2 : List Rat)
      (htape : tape = [.unif a, .int ds.len j, .beta alpha lam]) (hle : ¬ a > cfg.totalP)
      (hnocut : ¬ a < cfg.cutmixP)
      (hunify : unifyWith cfg (ds.x i) (ds.x j) = .ok x2')
      (hx : x' = mixTen lam (ds.x i) x2')
      (hc1 : oneHot ds.nClasses (ds.cls i) = .ok c1) (hc2 : oneHot ds.nClasses (ds.cls j) = .ok c2)
      (hl : l' = mixRow lam c1 c2)

/-- **Untouched or convex combination, one draw for data and label.** Every successful call either returns
    the sample untouched with a one-hot label, or `x' = λ·x_i + (1-λ)·unify(x_j)` and
    `label' = λ·e_{c_i} + (1-λ)·e_{c_j}` with the same partner `j` and the same weight `λ`, which are the
    second and third draw of the call's generator. -/
theorem mix_is_convex {cfg tape ds i x' l'} (h : getitemXClass cfg tape ds i = .ok (x', l')) :
    Outcome cfg tape ds i x' l' := by
  unfold getitemXClass at h
  split at h
  · rename_i apply t1
    by_cases hgt : apply > cfg.totalP
    · simp only [hgt, if_true] at h
      split at h
      · rename_i _ oh hoh
        simp only [Except.ok.injEq, Prod.mk.injEq] at h
        obtain ⟨hx, hl⟩ := h
        subst hl
        exact .untouched apply rfl hgt hx.symm hoh
      · cases h
      · cases h
    · simp only [hgt, if_false] at h
      split at h
      · rename_i hi idx2 t2
        by_cases hhi : hi ≠ ds.len
        · simp [hhi] at h
        · simp only [hhi, if_false] at h
          have hhi' : hi = ds.len := by simpa using hhi
          subst hhi'
          split at h
          · rename_i cls cls2 hc1 hc2
            split at h
            · cases h
            · rename_i alpha halpha
              split at h
              · rename_i a lam
                by_cases ha : a ≠ alpha
                · simp [ha] at h
                · simp only [ha, if_false] at h
                  have ha' : a = alpha := by simpa using ha
                  subst ha'
                  by_cases hcut : apply < cfg.cutmixP
                  · simp [hcut] at h
                  · simp only [hcut, decide_false, Bool.false_eq_true, if_false] at h
                    split at h
                    · cases h
                    · rename_i x2' hun
                      simp only [Except.ok.injEq, Prod.mk.injEq] at h
                      obtain ⟨hx, hl⟩ := h
                      exact .mixed apply idx2 a lam x2' cls cls2 rfl hgt hcut hun hx.symm hc1 hc2 hl.symm
              · cases h
          · cases h
          · cases h
      · cases h
  · cases h


example : ∃ x' l', Outcome exCfg exTape exDS 0 x' l' := by
  obtain ⟨x', l', h⟩ := ex_ok
  exact ⟨x', l', mix_is_convex h⟩

/-- pointwise reading of the mixed case: every element is the convex combination, and where shapes were
    unified (`pad_or_cut_end`, equal ranks) the partner contributes its own element inside its extents and `0`
    outside -/
theorem mixed_elements {cfg : Cfg} {ds : DS} {i j : Nat} {lam : Rat} {x2' : Ten}
    (hmode : cfg.unify = some .padOrCutEnd) (hrank : (ds.x i).rank = (ds.x j).rank)
    (hunify : unifyWith cfg (ds.x i) (ds.x j) = .ok x2') :
    let x' := mixTen lam (ds.x i) x2'
    x'.rank = (ds.x i).rank ∧ x'.shape = (ds.x i).shape ∧
    ∀ ι, InRange (ds.x i).rank (ds.x i).shape ι →
      x'.el ι = lam * (ds.x i).el ι +
        (1 - lam) * (if InRange (ds.x j).rank (ds.x j).shape ι then (ds.x j).el ι else 0) := by
  unfold unifyWith at hunify
  simp only [hmode, Except.ok.injEq] at hunify
  subst hunify
  refine ⟨rfl, rfl, ?_⟩
  intro ι hι
  simp only [mixTen]
  rw [(unify_shape (ds.x i) (ds.x j) hrank).2.2 ι hι]

example : ∃ (cfg : Cfg), cfg.unify = some .padOrCutEnd := ⟨⟨1, 0, 1, some 1, none, some .padOrCutEnd⟩, rfl⟩

/-- **Label vectors stay on the simplex**: entries non-negative, sum one, length `n_classes` — for the
    untouched and for the mixed outcome, for every Beta draw in `[0,1]`. -/
theorem label_simplex {cfg tape ds i x' l'} (h : getitemXClass cfg tape ds i = .ok (x', l'))
    (hok : TapeOk tape) : l'.length = ds.nClasses ∧ (∀ v ∈ l', 0 ≤ v) ∧ l'.sum = 1 := by
  cases mix_is_convex h with
  | untouched a htape hgt hx hl =>
    obtain ⟨_, hlen, hnn, hsum, _⟩ := oneHot_ok hl
    exact ⟨hlen, hnn, hsum⟩
  | mixed a j alpha lam x2' c1 c2 htape hle hnocut hunify hx hc1 hc2 hl =>
    obtain ⟨_, hlen1, hnn1, hsum1, _⟩ := oneHot_ok hc1
    obtain ⟨_, hlen2, hnn2, hsum2, _⟩ := oneHot_ok hc2
    have hlam : 0 ≤ lam ∧ lam ≤ 1 := by
      have := hok (.beta alpha lam) (by rw [htape]; simp)
      exact this
    subst hl
    refine ⟨?_, ?_, ?_⟩
    · simp [mixRow, hlen1, hlen2]
    · exact mixRow_nonneg lam hlam.1 hlam.2 c1 c2 hnn1 hnn2
    · rw [mixRow_sum lam c1 c2 (by rw [hlen1, hlen2]), hsum1, hsum2]
      grind


example : ∃ x' l', getitemXClass exCfg exTape exDS 0 = .ok (x', l') ∧ l'.length = 2 ∧ l'.sum = 1 := by
  obtain ⟨x', l', h⟩ := ex_ok
  have := label_simplex h ex_tapeOk
  exact ⟨x', l', h, this.1, this.2.2⟩

/-- **A probability-one configuration mixes every sample**: with `total_p = 1` the first draw (in `[0,1)`)
    never exceeds `total_p`, so every successful call is of the mixed form. -/
theorem p_one_always_mixes {cfg tape ds i x' l'} (h : getitemXClass cfg tape ds i = .ok (x', l'))
    (hok : TapeOk tape) (hp : cfg.totalP = 1) :
    ∃ a j alpha lam x2', tape = [.unif a, .int ds.len j, .beta alpha lam] ∧ j < ds.len ∧
      unifyWith cfg (ds.x i) (ds.x j) = .ok x2' ∧ x' = mixTen lam (ds.x i) x2' := by
  cases mix_is_convex h with
  | untouched a htape hgt hx hl =>
    have : 0 ≤ a ∧ a < 1 := hok (.unif a) (by rw [htape]; simp)
    rw [hp] at hgt
    have : a < 1 := this.2
    exact absurd hgt (by grind)
  | mixed a j alpha lam x2' c1 c2 htape hle hnocut hunify hx hc1 hc2 hl =>
    have hj : j < ds.len := hok (.int ds.len j) (by rw [htape]; simp)
    exact ⟨a, j, alpha, lam, x2', htape, hj, hunify, hx⟩


example : ∃ x' l', getitemXClass exCfg exTape exDS 0 = .ok (x', l') ∧
    ∃ a j alpha lam, exTape = [.unif a, .int exDS.len j, .beta alpha lam] ∧ j < exDS.len := by
  obtain ⟨x', l', h⟩ := ex_ok
  obtain ⟨a, j, alpha, lam, _, h1, h2, _⟩ := p_one_always_mixes h ex_tapeOk rfl
  exact ⟨x', l', h, a, j, alpha, lam, h1, h2⟩

/-- **With a seed the image-only, label-only and joint requests describe the same draw.** When every
    `getitem_xclass` call of a request sees the same tape (generator seeded with `seed + idx`), the four
    request layouts return exactly the components of that one call. -/
theorem seeded_requests_agree {cfg : Cfg} {tapes : Nat → Tape} {t : Tape} {ds : DS} {i : Nat} {x' : Ten}
    {l' : List Rat} (hseed : ∀ k, tapes k = t) (h : getitemXClass cfg t ds i = .ok (x', l')) :
    modeGet cfg tapes ds i .xclass = .ok (some x', some l') ∧
    modeGet cfg tapes ds i .classx = .ok (some x', some l') ∧
    modeGet cfg tapes ds i .x = .ok (some x', none) ∧
    modeGet cfg tapes ds i .cls = .ok (none, some l') := by
  simp [modeGet, hseed, h]


example : ∃ x' l', modeGet exCfg (fun _ => exTape) exDS 0 .classx = .ok (some x', some l') := by
  obtain ⟨x', l', h⟩ := ex_ok
  exact ⟨x', l', (seeded_requests_agree (fun _ => rfl) h).2.1⟩

/-- and a failing call fails for every layout in the same way -/
theorem seeded_requests_agree_error {cfg : Cfg} {tapes : Nat → Tape} {t : Tape} {ds : DS} {i : Nat} {e : Err}
    (hseed : ∀ k, tapes k = t) (h : getitemXClass cfg t ds i = .error e) (r : Req) :
    modeGet cfg tapes ds i r = .error e := by
  cases r <;> simp [modeGet, hseed, h]


/-- a cutmix draw (`apply < cutmix_p`) is a `NotImplementedError` for every layout -/
example : modeGet ⟨1/2, 1/2, 1, some 1, some 1, none⟩ (fun _ => [.unif (1/4), .int 2 1, .beta 1 (1/2)]) exDS 0 .cls =
    .error .notImplemented := by
  apply seeded_requests_agree_error (fun _ => rfl)
  have h : (match getitemXClass ⟨1/2, 1/2, 1, some 1, some 1, none⟩ [.unif (1/4), .int 2 1, .beta 1 (1/2)] exDS 0 with
      | .error e => e == .notImplemented | .ok _ => false) = true := by decide +kernel
  cases hc : getitemXClass ⟨1/2, 1/2, 1, some 1, some 1, none⟩ [.unif (1/4), .int 2 1, .beta 1 (1/2)] exDS 0 with
  | ok r => rw [hc] at h; cases h
  | error e =>
    rw [hc] at h
    simp only [beq_iff_eq] at h
    rw [h]

/-! ## Theorems added after the audit (gaps 1–5)

Vocabulary (`IsUntouched`, `IsMixOf`, `paddedEl`, `Gen`, `tapeFor`, `callTapes`, `CtorAccepts`, `cfgOf`) is in
Model/C11Spec.lean and is written without reference to the recursion of `getitemXClass`. -/

/-! ### gap 1 — full convexity -/

/-- **Clause "either the untouched sample with a one-hot label or a convex combination of sample i and one
    other sample of the same dataset, the label vector being mixed with the same partner and weight as the
    data (shapes unified as configured)" — at full strength.** For every configuration (any `p`, any mode),
    every dataset, index and tape obeying the generator contract `TapeOk`, a successful call returns
    * either sample `i` itself with the one-hot row of its label (the single draw exceeded `total_p`),
    * or, for ONE partner index `j < len(dataset)` and ONE weight `lam ∈ [0,1]` (the second and third draw),
      a tensor of sample `i`'s rank and extents with
      `x'[ι] = lam·x_i[ι] + (1-lam)·x_j[ι]` at every index `ι` of sample `i` (`x_j[ι]` read as `0` where `ι` lies
      outside sample `j`: padding; entries of sample `j` outside sample `i` are cut), and the label row
      `lam·e_{y_i} + (1-lam)·e_{y_j}` with the same `j` and `lam`.
    Hypothesis `hrank` (domain of the property: with the pad/cut mode the samples of one dataset may differ in
    their extents, not in their number of dimensions) is needed for the pad/cut mode only; with mode `None`
    equal shapes are enforced by the code's assert. -/
theorem mix_convex_full {cfg : Cfg} {tape : Tape} {ds : DS} {i : Nat} {x' : Ten} {l' : List Rat}
    (h : getitemXClass cfg tape ds i = .ok (x', l')) (hok : TapeOk tape)
    (hrank : cfg.unify = some .padOrCutEnd → ∀ j, j < ds.len → (ds.x i).rank = (ds.x j).rank) :
    (∃ a, tape = [.unif a] ∧ a > cfg.totalP ∧ IsUntouched ds i x' l') ∨
    (∃ a j alpha lam, tape = [.unif a, .int ds.len j, .beta alpha lam] ∧ ¬ a > cfg.totalP ∧
      j < ds.len ∧ 0 ≤ lam ∧ lam ≤ 1 ∧ IsMixOf ds i j lam x' l') := by
  cases mix_is_convex h with
  | untouched a htape hgt hx hl =>
    exact Or.inl ⟨a, htape, hgt, hx, c11x_oneHot_isOneHot hl⟩
  | mixed a j alpha lam x2' c1 c2 htape hle hnocut hunify hx hc1 hc2 hl =>
    have hj : j < ds.len := hok (.int ds.len j) (by rw [htape]; simp)
    have hlam : 0 ≤ lam ∧ lam ≤ 1 := hok (.beta alpha lam) (by rw [htape]; simp)
    obtain ⟨hci, hlen1, hg1⟩ := c11x_oneHot_isOneHot hc1
    obtain ⟨hcj, hlen2, hg2⟩ := c11x_oneHot_isOneHot hc2
    refine Or.inr ⟨a, j, alpha, lam, htape, hle, hj, hlam.1, hlam.2, ?_⟩
    subst hx hl
    refine ⟨rfl, rfl, ?_, hci, hcj, by simp [mixRow, hlen1, hlen2], ?_⟩
    · intro ι hι
      simp only [mixTen]
      rw [c11x_unifyWith_el hunify (fun hm => hrank hm j hj) ι hι]
    · intro k hk
      rw [c11x_mixRow_getD lam c1 c2 k (by omega) (by omega), hg1 k hk, hg2 k hk]

/-- non-vacuity: the witness call (different shapes, pad in dim 0, cut in dim 1) is of the mixed form with
    partner `1` and weight `1/4` -/
example : ∃ x' l', getitemXClass exCfg exTape exDS 0 = .ok (x', l') ∧ IsMixOf exDS 0 1 (1/4) x' l' := by
  obtain ⟨x', l', h⟩ := ex_ok
  refine ⟨x', l', h, ?_⟩
  rcases mix_convex_full h ex_tapeOk (fun _ j hj => by
      have : j = 0 ∨ j = 1 := by simp only [exDS] at hj; omega
      rcases this with rfl | rfl <;> rfl) with ⟨a, ht, _⟩ | ⟨a, j, alpha, lam, ht, _, _, _, _, hm⟩
  · simp [exTape] at ht
  · simp only [exTape, List.cons.injEq, Draw.unif.injEq, Draw.int.injEq, Draw.beta.injEq, and_true] at ht
    obtain ⟨_, ⟨_, hj⟩, _, hl⟩ := ht
    rw [← hj, ← hl] at hm
    exact hm

/-- **Clause "a probability-one configuration mixes every sample" with the full description of the mix**:
    with `total_p = 1` no successful call is of the untouched form. -/
theorem p_one_mixes_convex {cfg : Cfg} {tape : Tape} {ds : DS} {i : Nat} {x' : Ten} {l' : List Rat}
    (h : getitemXClass cfg tape ds i = .ok (x', l')) (hok : TapeOk tape) (hp : cfg.totalP = 1)
    (hrank : cfg.unify = some .padOrCutEnd → ∀ j, j < ds.len → (ds.x i).rank = (ds.x j).rank) :
    ∃ j lam, j < ds.len ∧ 0 ≤ lam ∧ lam ≤ 1 ∧ IsMixOf ds i j lam x' l' := by
  rcases mix_convex_full h hok hrank with ⟨a, ht, hgt, _⟩ | ⟨a, j, alpha, lam, _, _, hj, h0, h1, hm⟩
  · have : 0 ≤ a ∧ a < 1 := hok (.unif a) (by rw [ht]; simp)
    rw [hp] at hgt
    exact absurd hgt (by grind)
  · exact ⟨j, lam, hj, h0, h1, hm⟩

example : exCfg.totalP = 1 := rfl

/-! ### gap 4 — every value of `mixup_unify_shapes_mode`

The code knows three cases: `None` (assert equal shapes), `"pad_or_cut_end"` (`unify_shape`,
`unify_loop_eq_closed_form`, `mixed_elements` above), any other string (`NotImplementedError`). -/

/-- **Mode `None`: shapes must already agree.** The partner is used unchanged iff it has the rank and the
    extents of the sample; otherwise the call dies with the `assert x.shape == x2.shape`. -/
theorem unify_none (cfg : Cfg) (x x2 : Ten) (hmode : cfg.unify = none) :
    (unifyWith cfg x x2 = .ok x2 ∧ x.rank = x2.rank ∧ ∀ d, d < x.rank → x.shape d = x2.shape d) ∨
    (unifyWith cfg x x2 = .error .assertion ∧
      ¬ (x.rank = x2.rank ∧ ∀ d, d < x.rank → x.shape d = x2.shape d)) := by
  rcases c11x_unifyWith_cases cfg x x2 with ⟨_, hs, he⟩ | ⟨_, hs, he⟩ | ⟨hm, _⟩ | ⟨hm, _⟩
  · exact Or.inl ⟨he, (c11x_sameShape_iff x x2).1 hs⟩
  · refine Or.inr ⟨he, fun hc => ?_⟩
    rw [(c11x_sameShape_iff x x2).2 hc] at hs
    cases hs
  · rw [hmode] at hm; cases hm
  · rw [hmode] at hm; cases hm

example : unifyWith ⟨1, 0, 1, some 1, none, none⟩ (exTen 1 3 2) (exTen 2 2 4) = .error .assertion := by
  rcases unify_none ⟨1, 0, 1, some 1, none, none⟩ (exTen 1 3 2) (exTen 2 2 4) rfl with ⟨_, _, h⟩ | ⟨h, _⟩
  · exact absurd (h 0 (by decide)) (by decide)
  · exact h

/-- **Any other mode string: `NotImplementedError`**, whatever the shapes. -/
theorem unify_unknown_mode (cfg : Cfg) (x x2 : Ten) (hmode : cfg.unify = some .other) :
    unifyWith cfg x x2 = .error .notImplemented := by
  rcases c11x_unifyWith_cases cfg x x2 with ⟨hm, _⟩ | ⟨hm, _⟩ | ⟨hm, _⟩ | ⟨_, he⟩
  · rw [hmode] at hm; cases hm
  · rw [hmode] at hm; cases hm
  · rw [hmode] at hm; cases hm
  · exact he

/-- **What a mixing call does, per mode.** For a call that mixes (first draw `a ≤ total_p`, not a cutmix draw,
    labels inside the class range, `mixup_alpha` a number — all implied by an accepted constructor, see
    `accepted_ctor_total`) with partner `j` and weight `lam`:
    * mode `None`: if the partner has the sample's shape the result is `lam·x_i + (1-lam)·x_j` at EVERY index (no
      padding, no cutting) with the mixed label; if not, `AssertionError`;
    * mode `"pad_or_cut_end"`: always succeeds (the result is described by `mix_convex_full`);
    * any other mode: `NotImplementedError`. -/
theorem mixing_call_per_mode (cfg : Cfg) (ds : DS) (i j : Nat) (a alpha lam : Rat) (c1 c2 : List Rat)
    (hle : ¬ a > cfg.totalP) (hnocut : ¬ a < cfg.cutmixP) (halpha : cfg.mixupAlpha = some alpha)
    (hc1 : oneHot ds.nClasses (ds.cls i) = .ok c1) (hc2 : oneHot ds.nClasses (ds.cls j) = .ok c2) :
    let call := getitemXClass cfg [.unif a, .int ds.len j, .beta alpha lam] ds i
    let same := (ds.x i).rank = (ds.x j).rank ∧ ∀ d, d < (ds.x i).rank → (ds.x i).shape d = (ds.x j).shape d
    (cfg.unify = none → same → call = .ok (mixTen lam (ds.x i) (ds.x j), mixRow lam c1 c2)) ∧
    (cfg.unify = none → ¬ same → call = .error .assertion) ∧
    (cfg.unify = some .padOrCutEnd →
      call = .ok (mixTen lam (ds.x i) (unifyLoop (ds.x i) (ds.x j)), mixRow lam c1 c2)) ∧
    (cfg.unify = some .other → call = .error .notImplemented) := by
  have hev := c11x_getitem_three cfg ds i a j alpha lam c1 c2 hle hc1 hc2 (by simp [hnocut, halpha])
  simp only [hnocut, if_false] at hev
  refine ⟨?_, ?_, ?_, ?_⟩
  · intro hm hs
    rcases unify_none cfg (ds.x i) (ds.x j) hm with ⟨he, _⟩ | ⟨_, hn⟩
    · rw [hev, he]
    · exact absurd hs hn
  · intro hm hs
    rcases unify_none cfg (ds.x i) (ds.x j) hm with ⟨_, hy⟩ | ⟨he, _⟩
    · exact absurd hy hs
    · rw [hev, he]
  · intro hm
    rw [hev]
    simp [unifyWith, hm]
  · intro hm
    rw [hev, unify_unknown_mode cfg _ _ hm]

/-- mode `None` on the witness dataset (samples of shape `(3,2)` and `(2,4)`): `AssertionError` -/
example : getitemXClass ⟨1, 0, 1, some (4/5), none, none⟩ exTape exDS 0 = .error .assertion := by
  have h := (mixing_call_per_mode ⟨1, 0, 1, some (4/5), none, none⟩ exDS 0 1 (1/4) (4/5) (1/4) [1, 0] [0, 1]
    (by decide +kernel) (by decide +kernel) rfl rfl rfl).2.1 rfl
    (fun hs => absurd (hs.2 0 (by decide)) (by decide))
  exact h

/-! ### gap 3 — the joint request is coherent without a seed -/

/-- **Clause "the label vector being mixed with the same partner and weight as the data", for the joint
    request, seed or no seed.** `tapes` is arbitrary (every `getitem_xclass` call may see a different
    generator, as it does when `seed is None`). For the layouts "x class" and "class x" the returned image and
    label come out of ONE `getitem_xclass` call (one generator, consumed once), hence are either the untouched
    pair or mixed with one partner `j` and one weight `lam`. -/
theorem joint_request_coherent {cfg : Cfg} {tapes : Nat → Tape} {ds : DS} {i : Nat} {r : Req}
    {ox : Option Ten} {ol : Option (List Rat)} (hr : r = .xclass ∨ r = .classx)
    (h : modeGet cfg tapes ds i r = .ok (ox, ol)) (hok : ∀ k, TapeOk (tapes k))
    (hrank : cfg.unify = some .padOrCutEnd → ∀ j, j < ds.len → (ds.x i).rank = (ds.x j).rank) :
    ∃ x' l', ox = some x' ∧ ol = some l' ∧
      (IsUntouched ds i x' l' ∨ ∃ j lam, j < ds.len ∧ 0 ≤ lam ∧ lam ≤ 1 ∧ IsMixOf ds i j lam x' l') := by
  have key : ∀ k x' l', getitemXClass cfg (tapes k) ds i = .ok (x', l') →
      (IsUntouched ds i x' l' ∨ ∃ j lam, j < ds.len ∧ 0 ≤ lam ∧ lam ≤ 1 ∧ IsMixOf ds i j lam x' l') := by
    intro k x' l' hc
    rcases mix_convex_full hc (hok k) hrank with ⟨_, _, _, hu⟩ | ⟨_, j, _, lam, _, _, hj, h0, h1, hm⟩
    · exact Or.inl hu
    · exact Or.inr ⟨j, lam, hj, h0, h1, hm⟩
  rcases hr with rfl | rfl
  · simp only [modeGet] at h
    cases hc : getitemXClass cfg (tapes 0) ds i with
    | error e => rw [hc] at h; cases h
    | ok res =>
      rw [hc] at h
      simp only [Except.ok.injEq, Prod.mk.injEq] at h
      exact ⟨res.1, res.2, h.1.symm, h.2.symm, key 0 res.1 res.2 hc⟩
  · simp only [modeGet] at h
    cases hc0 : getitemXClass cfg (tapes 0) ds i with
    | error e => rw [hc0] at h; cases h
    | ok res0 =>
      rw [hc0] at h
      cases hc : getitemXClass cfg (tapes 1) ds i with
      | error e => rw [hc] at h; cases h
      | ok res =>
        rw [hc] at h
        simp only [Except.ok.injEq, Prod.mk.injEq] at h
        exact ⟨res.1, res.2, h.1.symm, h.2.symm, key 1 res.1 res.2 hc⟩

/-! ### gap 2 — with a seed all request kinds describe the same draw (derived, not assumed) -/

/-- a generator family for the examples: partner `(s+1) mod hi`, weight `1/4`, first draw `1/4` -/
def exRng : Nat → Gen := fun s => ⟨1/4, fun hi => (s + 1) % hi, fun _ _ => 1/4⟩

theorem exRng_ok (s : Nat) : (exRng s).Ok := by
  refine ⟨?_, fun hi h => Nat.mod_lt _ h, fun _ _ => ?_⟩
  · show (0 : Rat) ≤ 1/4 ∧ (1/4 : Rat) < 1
    constructor <;> decide +kernel
  · show (0 : Rat) ≤ 1/4 ∧ (1/4 : Rat) ≤ 1
    constructor <;> decide +kernel

/-- `exTape` is what a call takes from `default_rng(0)` of that family -/
theorem exRng_tape : tapeFor (exRng 0) exCfg exDS = exTape := by
  have h1 : ¬ (exRng 0).unif > exCfg.totalP := by decide +kernel
  have h2 : ¬ (exRng 0).unif < exCfg.cutmixP := by decide +kernel
  simp only [tapeFor, h1, h2, if_false]
  rfl

/-- **Adequacy of the generator model used for the seed clause**: `tapeFor g cfg ds` lists exactly the draws
    one `getitem_xclass` call takes from generator `g` — the model consumes that tape completely and never
    reports a tape mismatch, for every configuration, dataset and index. -/
theorem generator_tape_consumed_exactly (g : Gen) (cfg : Cfg) (ds : DS) (i : Nat) :
    getitemXClass cfg (tapeFor g cfg ds) ds i ≠ .error .tape :=
  c11x_tapeFor_consumed g cfg ds i

example : getitemXClass exCfg (tapeFor (exRng 0) exCfg exDS) exDS 0 ≠ .error .tape :=
  generator_tape_consumed_exactly _ _ _ _

/-- **Clause "with a seed set the image-only, label-only and joint requests describe the same draw".**
    `rng` is the (arbitrary) function `s ↦ np.random.default_rng(s)`, `glob` the (arbitrary) values the global
    numpy RNG would hand out; the wrapper's seed is `s`. The generator of every `getitem_xclass` call of a
    request for index `i` is then `rng (s + i)` — a function of `(s, i)` only — so all four request layouts
    return the components of the ONE call `getitemXClass cfg (tapeFor (rng (s + i)) cfg ds) ds i`, and fail
    alike if that call fails. No hypothesis on the tapes: that they coincide is derived from the seeding. -/
theorem seeded_requests_same_draw (rng : Nat → Gen) (glob : Nat → Nat) (s : Nat) (cfg : Cfg) (ds : DS)
    (i : Nat) :
    let call := getitemXClass cfg (tapeFor (rng (s + i)) cfg ds) ds i
    let tapes := callTapes rng (some s) glob cfg ds i
    (∀ x' l', call = .ok (x', l') →
      modeGet cfg tapes ds i .xclass = .ok (some x', some l') ∧
      modeGet cfg tapes ds i .classx = .ok (some x', some l') ∧
      modeGet cfg tapes ds i .x = .ok (some x', none) ∧
      modeGet cfg tapes ds i .cls = .ok (none, some l')) ∧
    (∀ e, call = .error e → ∀ r, modeGet cfg tapes ds i r = .error e) := by
  intro call tapes
  have hseed : ∀ k, tapes k = tapeFor (rng (s + i)) cfg ds := fun _ => rfl
  exact ⟨fun x' l' h => seeded_requests_agree hseed h, fun e h r => seeded_requests_agree_error hseed h r⟩

/-- **The same clause in the terms of the property**: what the image-only request returns and what the
    label-only request returns (two separate requests, two separate calls) are mixed with the same partner
    `j = rng(s+i).integers(len)` and the same weight `lam = rng(s+i).beta(alpha, alpha)` — or both untouched. -/
theorem seeded_image_and_label_share_partner_and_weight (rng : Nat → Gen) (glob glob' : Nat → Nat) (s : Nat)
    (cfg : Cfg) (ds : DS) (i : Nat) {x' : Ten} {l' : List Rat}
    (hx : modeGet cfg (callTapes rng (some s) glob cfg ds i) ds i .x = .ok (some x', none))
    (hl : modeGet cfg (callTapes rng (some s) glob' cfg ds i) ds i .cls = .ok (none, some l'))
    (hg : (rng (s + i)).Ok) (hlen : 0 < ds.len)
    (hrank : cfg.unify = some .padOrCutEnd → ∀ j, j < ds.len → (ds.x i).rank = (ds.x j).rank) :
    IsUntouched ds i x' l' ∨
    ∃ alpha, (rng (s + i)).int ds.len < ds.len ∧
      0 ≤ (rng (s + i)).beta ds.len alpha ∧ (rng (s + i)).beta ds.len alpha ≤ 1 ∧
      IsMixOf ds i ((rng (s + i)).int ds.len) ((rng (s + i)).beta ds.len alpha) x' l' := by
  have hcall : getitemXClass cfg (tapeFor (rng (s + i)) cfg ds) ds i = .ok (x', l') := by
    simp only [modeGet, callTapes, callSeed] at hx hl
    cases hc : getitemXClass cfg (tapeFor (rng (s + i)) cfg ds) ds i with
    | error e => rw [hc] at hx; cases hx
    | ok res =>
      rw [hc] at hx hl
      simp only [Except.ok.injEq, Prod.mk.injEq, Option.some.injEq, and_true, true_and] at hx hl
      rw [← hx, ← hl]
  rcases mix_convex_full hcall (c11x_tapeFor_ok hg cfg ds hlen) hrank with
    ⟨_, _, _, hu⟩ | ⟨a, j, alpha, lam, ht, _, hj, h0, h1, hm⟩
  · exact Or.inl hu
  · obtain ⟨_, hj', hl'⟩ := c11x_tapeFor_three ht
    subst hj' hl'
    exact Or.inr ⟨alpha, hj, h0, h1, hm⟩

/-- non-vacuity: seeded requests on the witness dataset; all four layouts succeed with the same pair -/
example : ∃ x' l', modeGet exCfg (callTapes exRng (some 0) (fun k => k) exCfg exDS 0) exDS 0 .x = .ok (some x', none) ∧
    modeGet exCfg (callTapes exRng (some 0) (fun k => 7 * k) exCfg exDS 0) exDS 0 .cls = .ok (none, some l') ∧
    IsMixOf exDS 0 1 (1/4) x' l' := by
  obtain ⟨x', l', h⟩ := ex_ok
  have hc : getitemXClass exCfg (tapeFor (exRng (0 + 0)) exCfg exDS) exDS 0 = .ok (x', l') := by
    rw [show (0 + 0 : Nat) = 0 from rfl, exRng_tape]; exact h
  have h1 := ((seeded_requests_same_draw exRng (fun k => k) 0 exCfg exDS 0).1 x' l' hc).2.2.1
  have h2 := ((seeded_requests_same_draw exRng (fun k => 7 * k) 0 exCfg exDS 0).1 x' l' hc).2.2.2
  refine ⟨x', l', h1, h2, ?_⟩
  rcases seeded_image_and_label_share_partner_and_weight exRng _ _ 0 exCfg exDS 0 h1 h2 (exRng_ok _)
    (by decide) (fun _ j hj => by
      have : j = 0 ∨ j = 1 := by simp only [exDS] at hj; omega
      rcases this with rfl | rfl <;> rfl) with hu | ⟨alpha, _, _, _, hm⟩
  · -- the untouched alternative is excluded by the label `[1/4, 3/4]`
    have hv := ex_values
    rw [h] at hv
    simp only [Bool.and_eq_true, beq_iff_eq] at hv
    obtain ⟨_, _, hoh⟩ := hu.2
    have := hoh 0 (by decide)
    rw [hv.1.1.1.1] at this
    exact absurd this (by decide +kernel)
  · exact hm

/-- the seed matters: WITHOUT a seed the label-only request (generator seeded by the global RNG, here with `1`)
    and the joint request (here with `0`) describe different draws — partner `0` vs partner `1` -/
example :
    (match modeGet exCfg (callTapes exRng none (fun _ => 0) exCfg exDS 0) exDS 0 .xclass,
           modeGet exCfg (callTapes exRng none (fun _ => 1) exCfg exDS 0) exDS 0 .cls with
     | .ok (_, some l), .ok (_, some l') => l == [1/4, 3/4] && l' == [1, 0]
     | _, _ => false) = true := by decide +kernel

/-! ### gap 5 — the constructor and totality -/

/-- **Which configurations `KDMixWrapper.__init__` accepts** (`CtorAccepts`, Model/C11Spec.lean): at least one
    of the probabilities given; both in `[0,1]`; their float sum in `(0,1]`; `mixup_alpha` a positive number iff
    `mixup_p ≠ 0` and `None` otherwise (and then no unify mode either); the same for `cutmix_alpha` / `cutmix_p`.
    An accepted call stores exactly its arguments (`cfgOf`), every other call dies with an `AssertionError`. -/
theorem ctor_accepts_iff (a : CtorArgs) :
    (∀ cfg, ctor a = .ok cfg ↔ CtorAccepts a ∧ cfg = cfgOf a) ∧
    (¬ CtorAccepts a → ctor a = .error .assertion) := by
  refine ⟨c11x_ctor_iff a, fun hn => ?_⟩
  cases hc : ctor a with
  | ok cfg => exact absurd ((c11x_ctor_iff a cfg).1 hc).1 hn
  | error e => rw [c11x_ctor_error a e hc]

/-- the witness configuration is the stored form of an accepted constructor call
    (`mixup_p=1, mixup_alpha=0.8, mixup_unify_shapes_mode="pad_or_cut_end"`) -/
def exArgs : CtorArgs := ⟨some 1, none, some (4/5), none, some .padOrCutEnd, 1⟩

example : ctor exArgs = .ok (cfgOf exArgs) ∧ (cfgOf exArgs).unify = exCfg.unify := by
  exact ⟨c11x_ctor_of_cond (by decide +kernel), rfl⟩

/-- alpha without probability is rejected -/
example : ctor ⟨some 1, none, some 1, some 1, none, 1⟩ = .error .assertion :=
  c11x_ctor_of_not_cond (by decide +kernel)

/-- **Totality: an accepted constructor and the generator contract imply the `.ok` and `TapeOk` hypotheses of
    all theorems above.** Let the constructor accept `a` with `cutmix_p` absent or `0` (a cutmix draw is a
    `NotImplementedError`, see `cutmix_draw_not_implemented`), `total_p` the exact sum (with `cutmix_p = 0`
    the float sum `mixup_p + 0.` is exact), and a known unify mode. Let the dataset be non-empty with labels
    inside the class range, and — for mode `None` only — the partner candidates have sample `i`'s shape. Then
    for every generator obeying numpy's contract the call succeeds and its tape satisfies `TapeOk`. -/
theorem accepted_ctor_total {a : CtorArgs} {cfg : Cfg} (hc : ctor a = .ok cfg)
    (hcut : orZero a.cutmixP = 0) (hsum : a.floatSum = orZero a.mixupP + orZero a.cutmixP)
    (hmode : a.unify ≠ some .other)
    (g : Gen) (hg : g.Ok) (ds : DS) (i : Nat) (hlen : 0 < ds.len) (hi : i < ds.len)
    (hcls : ∀ k, k < ds.len → ds.cls k < ds.nClasses)
    (hshape : a.unify = none → ∀ j, j < ds.len →
      (ds.x i).rank = (ds.x j).rank ∧ ∀ d, d < (ds.x i).rank → (ds.x i).shape d = (ds.x j).shape d) :
    TapeOk (tapeFor g cfg ds) ∧ ∃ x' l', getitemXClass cfg (tapeFor g cfg ds) ds i = .ok (x', l') := by
  refine ⟨c11x_tapeFor_ok hg cfg ds hlen, ?_⟩
  obtain ⟨hacc, hcfg⟩ := (c11x_ctor_iff a cfg).1 hc
  obtain ⟨_, _, _, hfs, hma, _⟩ := hacc
  obtain ⟨hu, hint, _⟩ := hg
  obtain ⟨c1, hc1⟩ := c11x_oneHot_of_lt (hcls i hi)
  have hj := hint ds.len hlen
  obtain ⟨c2, hc2⟩ := c11x_oneHot_of_lt (hcls _ hj)
  subst hcfg
  by_cases hgt : g.unif > a.floatSum
  · have ht : tapeFor g (cfgOf a) ds = [.unif g.unif] := by simp [tapeFor, cfgOf, hgt]
    rw [ht]
    exact ⟨_, _, c11x_getitem_one (cfgOf a) ds i g.unif c1 hgt hc1⟩
  · have hnocut : ¬ g.unif < orZero a.cutmixP := by rw [hcut]; grind
    have hmp : orZero a.mixupP ≠ 0 := by
      intro h0
      rw [hsum, h0, hcut] at hfs
      exact absurd hfs.1 (by grind)
    simp only [hmp, if_false] at hma
    obtain ⟨α, hα, _⟩ := hma
    have ht : tapeFor g (cfgOf a) ds =
        [.unif g.unif, .int ds.len (g.int ds.len), .beta α (g.beta ds.len α)] := by
      simp [tapeFor, cfgOf, hgt, hnocut, hα]
    rw [ht]
    have hev := c11x_getitem_three (cfgOf a) ds i g.unif (g.int ds.len) α (g.beta ds.len α) c1 c2 hgt hc1 hc2
      (by simp [cfgOf, hnocut, hα])
    have hnocut' : ¬ g.unif < (cfgOf a).cutmixP := hnocut
    simp only [hnocut', if_false] at hev
    rcases c11x_unifyWith_cases (cfgOf a) (ds.x i) (ds.x (g.int ds.len)) with
      ⟨_, _, he⟩ | ⟨hm, hs, _⟩ | ⟨_, he⟩ | ⟨hm, _⟩
    · rw [he] at hev; exact ⟨_, _, hev⟩
    · have := (c11x_sameShape_iff _ _).2 (hshape hm _ hj)
      rw [this] at hs; cases hs
    · rw [he] at hev; exact ⟨_, _, hev⟩
    · exact absurd hm hmode

/-- non-vacuity and use: the accepted witness constructor gives a successful call, to which
    `mix_convex_full` / `label_simplex` apply without further hypotheses on the call -/
example : ∃ x' l', getitemXClass (cfgOf exArgs) (tapeFor (exRng 0) (cfgOf exArgs) exDS) exDS 0 = .ok (x', l') ∧
    l'.sum = 1 := by
  obtain ⟨hok, x', l', h⟩ := accepted_ctor_total (a := exArgs) (cfg := cfgOf exArgs)
    (c11x_ctor_of_cond (by decide +kernel)) rfl
    (by decide +kernel) (by decide) (exRng 0) (exRng_ok 0) exDS 0 (by decide) (by decide)
    (fun k hk => by
      have : k = 0 ∨ k = 1 := by simp only [exDS] at hk; omega
      rcases this with rfl | rfl <;> decide)
    (fun hn => by cases hn)
  exact ⟨x', l', h, (label_simplex h hok).2.2⟩

/-- **and for every request layout, seeded or not**: under the hypotheses of `accepted_ctor_total` (for every
    generator the calls may create) `ModeWrapper`'s request succeeds. -/
theorem accepted_ctor_requests_total {a : CtorArgs} {cfg : Cfg} (hc : ctor a = .ok cfg)
    (hcut : orZero a.cutmixP = 0) (hsum : a.floatSum = orZero a.mixupP + orZero a.cutmixP)
    (hmode : a.unify ≠ some .other)
    (rng : Nat → Gen) (hg : ∀ s, (rng s).Ok) (seed : Option Nat) (glob : Nat → Nat)
    (ds : DS) (i : Nat) (hlen : 0 < ds.len) (hi : i < ds.len)
    (hcls : ∀ k, k < ds.len → ds.cls k < ds.nClasses)
    (hshape : a.unify = none → ∀ j, j < ds.len →
      (ds.x i).rank = (ds.x j).rank ∧ ∀ d, d < (ds.x i).rank → (ds.x i).shape d = (ds.x j).shape d)
    (r : Req) : ∃ res, modeGet cfg (callTapes rng seed glob cfg ds i) ds i r = .ok res := by
  have key : ∀ k, ∃ x' l', getitemXClass cfg (callTapes rng seed glob cfg ds i k) ds i = .ok (x', l') :=
    fun k => (accepted_ctor_total hc hcut hsum hmode (rng (callSeed seed glob i k)) (hg _) ds i hlen hi hcls
      hshape).2
  obtain ⟨x0, l0, h0⟩ := key 0
  obtain ⟨x1, l1, h1⟩ := key 1
  cases r <;> simp [modeGet, h0, h1]

/-- **A cutmix draw is a `NotImplementedError`** (the reason for `cutmix_p = 0` in the totality theorems): for
    an accepted constructor, a non-empty dataset with labels in range and a generator obeying the contract whose
    first draw selects cutmix (`apply ≤ total_p` and `apply < cutmix_p`), the call raises. -/
theorem cutmix_draw_not_implemented {a : CtorArgs} {cfg : Cfg} (hc : ctor a = .ok cfg)
    (g : Gen) (hg : g.Ok) (ds : DS) (i : Nat) (hlen : 0 < ds.len) (hi : i < ds.len)
    (hcls : ∀ k, k < ds.len → ds.cls k < ds.nClasses)
    (hle : ¬ g.unif > cfg.totalP) (hcutdraw : g.unif < cfg.cutmixP) :
    getitemXClass cfg (tapeFor g cfg ds) ds i = .error .notImplemented := by
  obtain ⟨hacc, hcfg⟩ := (c11x_ctor_iff a cfg).1 hc
  obtain ⟨_, _, _, _, _, hca⟩ := hacc
  obtain ⟨hu, hint, _⟩ := hg
  obtain ⟨c1, hc1⟩ := c11x_oneHot_of_lt (hcls i hi)
  have hj := hint ds.len hlen
  obtain ⟨c2, hc2⟩ := c11x_oneHot_of_lt (hcls _ hj)
  subst hcfg
  have hcp : orZero a.cutmixP ≠ 0 := by
    intro h0
    have : g.unif < orZero a.cutmixP := hcutdraw
    rw [h0] at this
    exact absurd this (by grind)
  simp only [hcp, if_false] at hca
  obtain ⟨α, hα, _⟩ := hca
  have hcd : g.unif < orZero a.cutmixP := hcutdraw
  have hle' : ¬ g.unif > a.floatSum := hle
  have ht : tapeFor g (cfgOf a) ds =
      [.unif g.unif, .int ds.len (g.int ds.len), .beta α (g.beta ds.len α)] := by
    simp [tapeFor, cfgOf, hle', hcd, hα]
  rw [ht]
  have hev := c11x_getitem_three (cfgOf a) ds i g.unif (g.int ds.len) α (g.beta ds.len α) c1 c2 hle hc1 hc2
    (by simp [cfgOf, hcd, hα])
  rw [hev]
  simp [hcutdraw]

example : ∃ (a : CtorArgs) (g : Gen), ctor a = .ok (cfgOf a) ∧ g.Ok ∧ ¬ g.unif > (cfgOf a).totalP ∧
    g.unif < (cfgOf a).cutmixP :=
  ⟨⟨some (1/2), some (1/2), some 1, some 1, none, 1⟩, exRng 0, c11x_ctor_of_cond (by decide +kernel), exRng_ok 0,
    by decide +kernel, by decide +kernel⟩

/-- non-vacuity of `joint_request_coherent` WITHOUT a seed: the two calls of the "class x" layout get different
    generators (`default_rng(0)`, `default_rng(2)`); the request succeeds and is coherent -/
example : ∃ x' l', modeGet exCfg (callTapes exRng none (fun k => 2 * k) exCfg exDS 0) exDS 0 .classx =
      .ok (some x', some l') ∧
    (IsUntouched exDS 0 x' l' ∨ ∃ j lam, j < exDS.len ∧ 0 ≤ lam ∧ lam ≤ 1 ∧ IsMixOf exDS 0 j lam x' l') := by
  have hcls : ∀ k, k < exDS.len → exDS.cls k < exDS.nClasses := fun k hk => by
    have : k = 0 ∨ k = 1 := by simp only [exDS] at hk; omega
    rcases this with rfl | rfl <;> decide
  have hrank : exCfg.unify = some .padOrCutEnd → ∀ j, j < exDS.len → (exDS.x 0).rank = (exDS.x j).rank :=
    fun _ j hj => by
      have : j = 0 ∨ j = 1 := by simp only [exDS] at hj; omega
      rcases this with rfl | rfl <;> rfl
  have hc : ctor ⟨some 1, none, some (4/5), none, some .padOrCutEnd, 1⟩ = .ok exCfg :=
    c11x_ctor_of_cond (by decide +kernel)
  obtain ⟨res, hres⟩ := accepted_ctor_requests_total hc rfl (by decide +kernel) (by decide) exRng exRng_ok none
    (fun k => 2 * k) exDS 0 (by decide) (by decide) hcls (fun hn => by cases hn) .classx
  obtain ⟨x', l', h1, h2, hcoh⟩ := joint_request_coherent (Or.inr rfl) hres
    (fun k => c11x_tapeFor_ok (exRng_ok _) exCfg exDS (by decide)) hrank
  refine ⟨x', l', ?_, hcoh⟩
  rw [hres, ← h1, ← h2]

end KDVerif.C11
